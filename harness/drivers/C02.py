"""C02 - exact policy evaluation (TabularPolicy.evaluate_on) solves the Bellman expectation equations.

Pipeline A: cases (instance x stochastic policy) -> TLC run of spec/C02_PolicyEval.tla (exact oracle,
the implementation-shaped evaluation machine, design invariants; for small instances TLC itself
enumerates every policy over the weight menu) -> one record per (instance, policy) with the exact
state values, action values, occupancies and initial value -> the real evaluate_on on msdm objects
built from the same instance (several MDP and policy representations) -> entry-wise comparison.
"""
import json
import math
import random
import warnings
from fractions import Fraction as F

import numpy as np

from .. import gen, build, pyoracle
from ..build import frac
from ..core import digest, canon
from ..tlc import run_tlc, TLCFailure

MODULE = "C02_PolicyEval"
QD = 6
EPS = F(1, 2 ** 30)     # the concrete size of a "rare" weight handed to msdm (TLC only knows it is > 0)
ZERO = {0: 0.0, 1: 0, 2: np.float64(0)}    # the ways a discount of exactly 0 is handed to msdm
ABSFLAG = {"bool": bool, "int": int, "npint": np.int64}   # the type is_absorbing answers with
NEAR1 = {1: 1 - 2.0 ** -20, 2: 0.999999}   # concrete "1 - eps" discounts (TLC only knows they are < 1)
MENU_ROWS = {}          # K -> list of weight rows over K actions (numerators over 6)
LIMIT = 2 ** 28         # bound on every integer TLC has to form (its integers are 32-bit)
TLC_WORKERS = None      # framework default; one TLC run is in flight while the previous chunk is judged

CFG = """INIT Init
NEXT Next
CHECK_DEADLOCK TRUE
INVARIANT Emit
INVARIANT MachineMatchesOracle
INVARIANT Bellman
INVARIANT NegInfIffNegativeClass
INVARIANT OccupancyFlow
INVARIANT Duality
INVARIANT InstanceOK
INVARIANT RareWeightsIrrelevantWhereExact
INVARIANT ReuseMatchesFresh
"""
DESIGN_INVS = ["MachineMatchesOracle", "Bellman", "NegInfIffNegativeClass", "OccupancyFlow", "Duality",
               "InstanceOK", "RareWeightsIrrelevantWhereExact", "ReuseMatchesFresh"]

MDP_REPS = [
    dict(rep="quick", labels="int", alabels="int", explicit_list=False, dist="dict"),
    dict(rep="subclass", labels="str", alabels="str", explicit_list=True, dist="dict_zeros"),
    dict(rep="quick", labels="tuple", alabels="str", explicit_list=False, dist="det"),
    dict(rep="matrices", labels="frozendict", alabels="int", explicit_list=True, dist="dict"),
    dict(rep="subclass", labels="mixed", alabels="mixed", explicit_list=False, dist="uniform"),
    dict(rep="quick", labels="str", alabels="tuple", explicit_list=True, dist="dict"),
    dict(rep="matrices", labels="int", alabels="str", explicit_list=False, dist="dict"),
    dict(rep="quick", labels="int", alabels="int", explicit_list=False, dist="dict_zeros"),
]
# policy representations: a directly tabulated one and a converted one are run for every case
DIRECT = ["table", "table_perm"]
CONVERTED = ["functional_dict", "functional_dist_perm", "from_dict", "from_dict_sparse"]

SITE = {True: "TabularPolicy._evaluate_on_discounted", False: "TabularPolicy._evaluate_on_undiscounted"}


# --------------------------------------------------------------------------------------------
# weight menu {0, 1/3, 1/2, 2/3, 1}
# --------------------------------------------------------------------------------------------
def menu_rows(K):
    if K not in MENU_ROWS:
        rows = []

        def rec(prefix, left):
            if len(prefix) == K:
                if left == 0:
                    rows.append(tuple(prefix))
                return
            for x in (0, 2, 3, 4, 6):
                if x <= left:
                    rec(prefix + [x], left - x)
        rec([], QD)
        MENU_ROWS[K] = rows
    return MENU_ROWS[K]


def rows_at(m, s):
    return [r for r in menu_rows(m["K"]) if all(r[a] == 0 or m["avail"][s][a] for a in range(m["K"]))]


def all_policies(m):
    na = [s for s in range(m["N"]) if not m["abs"][s]]
    out = [[]]
    for s in na:
        out = [p + [r] for p in out for r in rows_at(m, s)]
    pols = []
    for p in out:
        wq = [[0] * m["K"] for _ in range(m["N"])]
        for s, r in zip(na, p):
            wq[s] = list(r)
        pols.append(wq)
    return pols


def rand_policy(rng, m, style):
    wq = [[0] * m["K"] for _ in range(m["N"])]
    for s in range(m["N"]):
        if m["abs"][s]:
            continue
        rows = rows_at(m, s)
        if style == "det":
            rows = [r for r in rows if max(r) == QD]
        elif style == "uniform":
            n = sum(m["avail"][s])
            u = [r for r in rows if all((x == QD // n) == bool(m["avail"][s][a]) for a, x in enumerate(r))] if QD % n == 0 else []
            rows = u or rows
        elif style == "mixed":
            mixed = [r for r in rows if max(r) < QD]
            rows = mixed or rows
        wq[s] = list(rng.choice(rows))
    return wq


# --------------------------------------------------------------------------------------------
# independent exact semantics (Fractions) - cross-check of the TLA+ oracle and magnitude filter
# --------------------------------------------------------------------------------------------
class Mag:
    """Upper bound on the integers TLC forms while evaluating the spec on a case."""

    def __init__(self):
        self.mx = 0

    def t(self, *xs):
        for x in xs:
            x = abs(int(x))
            if x > self.mx:
                self.mx = x

    def mul(self, x, y):
        x, y = F(x), F(y)
        self.t(x.numerator * y.numerator, x.denominator * y.denominator)
        return x * y

    def sum(self, terms):
        terms = [F(t) for t in terms]
        L = 1
        for t in terms:
            L = L * t.denominator // math.gcd(L, t.denominator)
        self.t(L, sum(abs(t) for t in terms) * L)
        return sum(terms, F(0))


def impl_abs(m):
    out = set()
    for s in range(m["N"]):
        if m["abs"][s]:
            continue
        av = [a for a in range(m["K"]) if m["avail"][s][a]]
        if av and all(m["P"][s][a][s] == m["PD"] and m["R"][s][a][s] == 0 for a in av):
            out.add(s)
    return out


def _inv(A):
    n = len(A)
    cols = [pyoracle._solve(A, [F(1 if i == j else 0) for i in range(n)]) for j in range(n)]
    return [[cols[j][i] for j in range(n)] for i in range(n)]


def _det(A):
    n = len(A)
    if n == 0:
        return F(1)
    if n == 1:
        return A[0][0]
    return sum((-1) ** j * A[0][j] * _det([row[:j] + row[j + 1:] for row in A[1:]]) for j in range(n))


def exact(m, wq, wf=None):
    """Independent exact evaluation of the policy wq (numerators over 6, rows of absorbing states
    ignored) or, when given, of the Fraction weights wf (then without the magnitude bookkeeping).
    Returns dict(v, q, occ, init, mag) with Fractions / '-inf' / '+inf' / None."""
    N, K = m["N"], m["K"]
    g = F(m["GN"], m["GD"])
    PDQ = m["PD"] * QD
    D = m["GD"] * PDQ
    mag = Mag()
    w = wf if wf is not None else [[F(wq[s][a], QD) for a in range(K)] for s in range(N)]
    ab_e = {s for s in range(N) if m["abs"][s]}
    ab = ab_e | impl_abs(m)
    v = pyoracle.policy_value(m, {s: {a: w[s][a] for a in range(K)} for s in range(N) if s not in ab_e})
    q = [[None if (s in ab_e or not m["avail"][s][a]) else pyoracle.q_from_v(m, v, s, a) for a in range(K)]
         for s in range(N)]
    # chain of the policy on the tabular view
    Pp = [[F(0)] * N for _ in range(N)]
    rp = [F(0)] * N
    for s in range(N):
        if s in ab:
            continue
        for a in range(K):
            if w[s][a] and m["avail"][s][a]:
                for t in range(N):
                    p = F(m["P"][s][a][t], m["PD"])
                    Pp[s][t] += w[s][a] * p
                    rp[s] += w[s][a] * p * m["R"][s][a][t]
    rec = set()
    reach = {}
    for s in range(N):
        seen, fr = set(), [s]
        while fr:
            x = fr.pop()
            for t in range(N):
                if Pp[x][t] > 0 and t not in seen:
                    seen.add(t)
                    fr.append(t)
        reach[s] = seen
    if g == 1:
        rec = {s for s in range(N) if s not in ab and not (reach[s] & ab) and all(s in reach[t] for t in reach[s])}
    T = [s for s in range(N) if s not in ab and s not in rec]
    A = [[(1 if i == j else 0) - g * Pp[j][i] for j in T] for i in T]
    x = pyoracle._solve(A, [F(m["p0"][s], m["ID"]) for s in T]) if T else []
    occ = [F(0)] * N
    for i, s in enumerate(T):
        occ[s] = x[i]
    from0 = set()
    for s in range(N):
        if m["p0"][s] > 0:
            from0 |= {s} | (reach[s] if s not in ab else set())
    for t in range(N):
        if t in rec:
            occ[t] = pyoracle.POS if t in from0 else F(0)
        elif t in ab:
            occ[t] = F(m["p0"][t], m["ID"]) + g * sum(occ[s] * Pp[s][t] for s in T)
    if any(m["p0"][s] > 0 and v[s] == pyoracle.NEG for s in range(N)):
        init = pyoracle.NEG
    else:
        init = sum(F(m["p0"][s], m["ID"]) * v[s] for s in range(N) if m["p0"][s] > 0)

    if wf is not None:
        return {"v": v, "q": q, "occ": occ, "init": init, "mag": 0, "rec": rec, "ab": ab, "rp": rp}
    # ---- magnitudes of what TLC computes (integers are 32-bit there) -------------------------
    fin = lambda z: z if isinstance(z, F) else F(0)
    ppi = [[int(Pp[s][t] * PDQ) for t in range(N)] for s in range(N)]      # MDP!PPi on the tabular view
    ppi_m = [[int(sum(w[s][a] * F(m["P"][s][a][t], m["PD"]) for a in range(K) if w[s][a]) * PDQ) if s not in ab_e else 0
              for t in range(N)] for s in range(N)]                          # MDP!PPi on the instance itself
    rpi_m = [int(sum(w[s][a] * F(m["P"][s][a][t], m["PD"]) * m["R"][s][a][t] for a in range(K) if w[s][a]
                     for t in range(N)) * PDQ) if s not in ab_e else 0 for s in range(N)]

    def cramer(U, px, b, transpose):
        """mirrors Num!Solve on the |U| x |U| system D*I - GN*px: tracks determinant, cofactors, numerators"""
        k = len(U)
        Ai = [[(D if i == j else 0) - m["GN"] * (px[j][i] if transpose else px[i][j]) for j in U] for i in U]
        e = max([abs(z) for row in Ai for z in row] + [1])
        mag.t(math.factorial(max(k, 1)) * e ** max(k, 1))
        Af = [[F(z) for z in row] for row in Ai]
        det = _det(Af)
        if det == 0:
            return None, None, None
        adj = [[int(z * det) for z in row] for row in _inv(Af)] if k else []
        xn = []
        for i in range(k):
            mag.t(sum(abs(adj[i][j] * b[j]) for j in range(k)))
            xn.append(sum(adj[i][j] * b[j] for j in range(k)))
        return int(det), adj, xn

    # MDP!PolicyValue: transient states of the value system (implicitly absorbing states are a zero class when undiscounted)
    U1 = [s for s in range(N) if s not in ab_e and isinstance(v[s], F) and not (g == 1 and (s in rec or s in ab))]
    det1, _, _ = cramer(U1, ppi_m, [m["GD"] * rpi_m[s] for s in U1], False)
    if det1 is None:
        return None
    # OccOracle: transposed system on the tabular view
    det2, adj2, xn2 = cramer(T, ppi, [m["p0"][s] for s in T], True)
    if det2 is None:
        return None
    mag.t(abs(det2) * m["ID"], abs(det2) * max(m["p0"]))
    for i in range(len(T)):
        mag.t(D * xn2[i])
    for t in range(N):
        if t in ab:
            mag.t(m["GN"] * sum(abs(xn2[i] * ppi[T[i]][t]) for i in range(len(T))) + abs(det2) * m["p0"][t])
    # machine Inverse on the rows outside `mask`: D * cofactor, GN * sum_l cofactor * chain
    det3, adj3, _ = cramer(T, ppi, [0 for _ in T], False)
    for i in range(len(T)):
        for j in range(len(T)):
            mag.t(D * adj3[i][j])
        for t in range(N):
            if t not in T:
                mag.t(m["GN"] * sum(abs(adj3[i][l] * ppi[T[l]][t]) for l in range(len(T))))
    # the machine's successor representation and its products (includes the values later overwritten)
    mask = ab | rec
    Xm = [[F(0) if s in mask else Pp[s][t] for t in range(N)] for s in range(N)]
    SR = _inv([[(1 if i == j else 0) - g * Xm[i][j] for j in range(N)] for i in range(N)])
    srw = [F(0) if s in ab else rp[s] for s in range(N)]
    # recurrent rows keep their raw rewards in the code
    for s in rec:
        srw[s] = sum(w[s][a] * F(m["P"][s][a][t], m["PD"]) * m["R"][s][a][t]
                     for a in range(K) if w[s][a] and m["avail"][s][a] for t in range(N))
    vraw = []
    for i in range(N):
        vraw.append(mag.sum([mag.mul(SR[i][j], srw[j]) for j in range(N)]))
    for z in range(N):
        mag.sum([mag.mul(SR[s][z], F(m["p0"][s], m["ID"])) for s in range(N)])
    vm = [fin(v[s]) if not (g == 1 and v[s] == pyoracle.NEG) else F(0) for s in range(N)]
    for s in range(N):
        for a in range(K):
            if not m["avail"][s][a]:
                continue
            terms = []
            for t in range(N):
                if m["P"][s][a][t] == 0:
                    continue
                vt = vm[t]
                # MDP!QFromV
                mag.t(m["P"][s][a][t] * (abs(m["R"][s][a][t]) * m["GD"] * vt.denominator + m["GN"] * abs(vt.numerator)),
                      m["PD"] * m["GD"] * vt.denominator)
                terms.append(F(m["P"][s][a][t], m["PD"]) * (m["R"][s][a][t] + g * vt))
                # machine QCell
                mag.mul(F(m["GN"] * m["P"][s][a][t], m["GD"] * m["PD"]), vt)
            sar = sum(F(m["P"][s][a][t], m["PD"]) * m["R"][s][a][t] for t in range(N))
            mag.sum(terms)
            mag.sum([sar] + [F(m["P"][s][a][t], m["PD"]) * g * vm[t] for t in range(N) if m["P"][s][a][t]])
    # initial value, Bellman, flow, duality sums
    mag.sum([mag.mul(F(m["p0"][s], 1), vm[s]) for s in range(N)])
    mag.sum([mag.mul(F(m["p0"][s], m["ID"]), vm[s]) for s in range(N)])
    mag.t(fin(init).denominator * m["ID"], abs(fin(init).numerator) * m["ID"])
    for s in range(N):
        if s in ab_e:
            continue
        mag.sum([mag.mul(w[s][a], fin(q[s][a])) for a in range(K) if w[s][a]])
    of = [fin(o) for o in occ]
    for t in range(N):
        mag.sum([F(m["p0"][t], m["ID"])] + [mag.mul(of[s], mag.mul(g, Pp[s][t])) for s in range(N) if Pp[s][t]])
    mag.sum([mag.mul(of[s], rp[s]) for s in range(N)])
    return {"v": v, "q": q, "occ": occ, "init": init, "mag": mag.mx, "rec": rec, "ab": ab, "rp": rp}


def same(tla, py):
    """TLC value [n, d] against the Python oracle's value."""
    t = frac(tla)
    if py == pyoracle.NEG:
        return t == float("-inf")
    if py == pyoracle.POS:
        return t == float("inf")
    if py is None:
        return t is None
    return isinstance(t, F) and t == py


# --------------------------------------------------------------------------------------------
# case generation
# --------------------------------------------------------------------------------------------
FAMS = [
    dict(GN=1, GD=2, PD=2, rewards=(-2, -1, 0, 1, 2), nmax=3),
    dict(GN=1, GD=1, PD=2, rewards=(-2, -1, 0, 0), nmax=3),
    dict(GN=3, GD=4, PD=2, rewards=(-2, -1, 0, 1, 3), nmax=3),
    dict(GN=1, GD=1, PD=4, rewards=(-3, -1, 0, 0), nmax=3),
    dict(GN=1, GD=2, PD=4, rewards=(-2, -1, 0, 1, 2), nmax=3),
    dict(GN=1, GD=1, PD=2, rewards=(-1, 0, 0), nmax=3),
    dict(GN=9, GD=10, PD=2, rewards=(-2, -1, 0, 1, 2), nmax=2),
    dict(GN=1, GD=1, PD=4, rewards=(-2, -1, 0), nmax=3),
    dict(GN=0, GD=1, PD=2, rewards=(-2, -1, 0, 1, 2), nmax=3),      # discount exactly 0: myopic values
    dict(GN=1, GD=1, PD=2, rewards=(-2, -1, 0, 0), nmax=3),
    dict(GN=0, GD=1, PD=4, rewards=(-3, -1, 0), nmax=3),
]


def rand_p0(rng, m):
    """Initial distribution: 1-3 supported states (absorbing ones included), often non-uniform."""
    N = m["N"]
    k = min(rng.choice([1, 1, 2, 2, 3]), N)
    ID = rng.choice([2, 3, 4, 4]) if k < 3 else rng.choice([3, 4, 4])
    ID = max(ID, k)
    supp = rng.sample(range(N), k)
    parts = [1] * k
    for _ in range(ID - k):
        parts[rng.randrange(k)] += 1
    m["ID"] = ID
    m["p0"] = [0] * N
    for s, x in zip(supp, parts):
        m["p0"][s] = x


def add_beyond(rng, m, rewards):
    """Functional models often just declare the goal absorbing: one available action of a reachable absorbing
    state leads only to a state that nothing else reaches (so an inferred state list does not hold it).
    The extra state is explicitly absorbing itself (it matters only when the list is given explicitly)."""
    reach = gen.reach(m)
    cands = [s for s in sorted(reach) if m["abs"][s]]
    if not cands:
        return False
    N, K, PD = m["N"], m["K"], m["PD"]
    for s in range(N):
        for a in range(K):
            m["P"][s][a].append(0)
            m["R"][s][a].append(0)
    u = N
    m["N"] = N + 1
    m["abs"].append(1)
    row = [1 if rng.random() < 0.7 else 0 for _ in range(K)]
    if not any(row):
        row[rng.randrange(K)] = 1
    m["avail"].append(row)
    m["P"].append([[0] * N + [PD] for _ in range(K)])
    m["R"].append([[0] * (N + 1) for _ in range(K)])
    m["p0"].append(0)
    s = rng.choice(cands)
    a = rng.choice([a for a in range(K) if m["avail"][s][a]])
    m["P"][s][a] = [0] * N + [PD]
    m["R"][s][a][u] = rng.choice(rewards)
    return True


def zero_flags(m):
    return [[0] * m["K"] for _ in range(m["N"])]


def rand_rare_policy(rng, m):
    """A policy with rare entries: (surrogate weights, flags).  At 1-2 non-absorbing states an available
    action gets a rare weight next to the ordinary ones; the surrogate row is a menu row on the union."""
    wq = rand_policy(rng, m, rng.choice(["det", "det", "any"]))
    tn = zero_flags(m)
    cands = [s for s in range(m["N"]) if not m["abs"][s] and sum(m["avail"][s]) >= 2]
    if not cands:
        return None
    # ONE state with a rare entry per policy: with two of them in series the chance of leaving a loop is
    # eps^2 ~ 1e-18, below float resolution next to 1 (I - P is then singular in floating point although the exact
    # value is finite) - no exact evaluator working in doubles can be held to that
    for s in rng.sample(cands, 1):
        av = [a for a in range(m["K"]) if m["avail"][s][a]]
        ordinary = [a for a in av if wq[s][a] > 0]
        if len(ordinary) == len(av):           # every available action is used: demote one of them
            rare = [rng.choice(ordinary)]
            ordinary = [a for a in ordinary if a not in rare]
        else:
            rare = [rng.choice([a for a in av if a not in ordinary])]
        sup = set(ordinary) | set(rare)
        rows = [r for r in rows_at(m, s) if {a for a in range(m["K"]) if r[a] > 0} == sup]
        wq[s] = list(rng.choice(rows))
        for a in rare:
            tn[s][a] = 1
    return wq, tn


def alt_policy(m, wq, tn):
    """The other surrogate used by the spec's invariant RareWeightsIrrelevantWhereExact (AltPolicy)."""
    out = [list(r) for r in wq]
    for s in range(m["N"]):
        if m["abs"][s] or not any(tn[s]):
            continue
        sup = [a for a in range(m["K"]) if wq[s][a] > 0]
        vals = {1: [QD], 2: [1, 5], 3: [1, 2, 3]}[len(sup)]
        out[s] = [0] * m["K"]
        for rk, a in enumerate(sup):
            out[s][a] = vals[rk]
    return out


def alt_instance(m):
    """AltM of the spec: the other surrogate discount of a near-one instance."""
    if not m.get("near1"):
        return m
    gn, gd = (3, 4) if m["GD"] == 2 else (1, 2)
    return dict(m, GN=gn, GD=gd)


def real_instance(m):
    """The instance with the discount msdm really gets (exact Fraction of the float)."""
    if not m.get("near1"):
        return m
    g = F(NEAR1[m["g_kind"]])
    return dict(m, GN=g.numerator, GD=g.denominator)


def real_weights(m, wq, tn):
    """Fraction weights handed to msdm: rare entries are EPS, the ordinary entries of the row share the rest
    in the proportions of the surrogate."""
    out = []
    for s in range(m["N"]):
        if m["abs"][s] or not any(tn[s]):
            out.append([F(x, QD) for x in wq[s]])
            continue
        nr = sum(tn[s])
        tot = sum(wq[s][a] for a in range(m["K"]) if not tn[s][a])
        out.append([EPS if tn[s][a] else (1 - nr * EPS) * F(wq[s][a], tot) for a in range(m["K"])])
    return out


def chain_case(rng):
    """A long thin undiscounted instance (6..15 states): a corridor of single-successor states under the policy
    that ends in an absorbing goal, a costly pit (value -inf, occupancy inf) or a free pit; a second action,
    never taken by the policy, branches off here and there.  Some state is more than 2^floor(log2 n) steps
    away from the end of the corridor."""
    n = rng.choice([6, 7, 7, 11, 12, 13, 15])
    K = rng.choice([1, 2, 2])
    PD = 2
    end_kind = rng.choice(["goal", "costly", "costly", "free"])
    two_ends = n >= 7 and rng.random() < 0.5
    order = list(range(n))
    rng.shuffle(order)
    ends = order[:2] if two_ends else order[:1]
    corridor = order[len(ends):]
    kinds = {ends[0]: end_kind}
    if two_ends:
        kinds[ends[1]] = rng.choice(["goal", "costly", "free"])
    ab = [0] * n
    avail = [[1] + [1 if rng.random() < 0.6 else 0 for _ in range(K - 1)] for _ in range(n)]
    P = [[[0] * n for _ in range(K)] for _ in range(n)]
    R = [[[0] * n for _ in range(K)] for _ in range(n)]
    for e, kd in kinds.items():
        if kd == "goal":
            ab[e] = 1
        for a in range(K):
            P[e][a][e] = PD                      # pits loop; goals keep a ghost loop
            R[e][a][e] = -1 if kd == "costly" else 0
    for i, s in enumerate(corridor):
        nxt = corridor[i + 1] if i + 1 < len(corridor) else ends[0]
        P[s][0][nxt] = PD
        R[s][0][nxt] = rng.choice([-2, -1, -1, 0])
        for a in range(1, K):                    # the action the policy never takes
            row = gen.rand_row(rng, n, PD)
            P[s][a] = row
            R[s][a] = [rng.choice([-2, -1, 0]) for _ in range(n)]
    if two_ends:                                 # the other end is entered from the middle by the second action
        s = corridor[len(corridor) // 2]
        a = K - 1
        if a > 0:
            avail[s][a] = 1
            P[s][a] = [0] * n
            P[s][a][ends[1]] = PD
    p0 = [0] * n
    ID = rng.choice([1, 2, 4])
    p0[corridor[0]] = ID
    if ID > 1 and rng.random() < 0.6:
        p0[corridor[0]] -= 1
        p0[rng.choice(corridor[1:] + ends)] += 1
    m = {"N": n, "K": K, "PD": PD, "GN": 1, "GD": 1, "ID": ID, "abs": ab, "avail": avail, "P": P, "R": R, "p0": p0}
    m["gw"] = [list(rng.choice(rows_at(m, s))) if ab[s] else [0] * K for s in range(n)]
    wq = [[0] * K for _ in range(n)]
    for s in range(n):
        if not ab[s]:
            wq[s][0] = QD
    m.update(allpols=0, pols=[wq], tinys=[zero_flags(m)], near1=0, g_kind=0, g0_kind=0, sibofs=0, chain=1)
    m["hist"] = 1 if rng.random() < 0.3 else 0
    sp, ap = list(range(1, n + 1)), list(range(1, K + 1))
    if m["hist"]:
        rng.shuffle(sp)
        rng.shuffle(ap)
    m["sp"], m["ap"] = sp, ap
    rep = dict(MDP_REPS[rng.randrange(len(MDP_REPS))])
    if rep["rep"] == "matrices" and not rep["explicit_list"] and not gen.ghost_closed(m):
        rep["explicit_list"] = True
    if m["hist"]:
        rep["explicit_list"] = True
        rep["relabel"] = rng.random() < 0.4
    rep["absflag"] = rng.choice(["bool", "int", "npint"])
    m["explicit"] = 1 if rep["explicit_list"] else 0
    return {"m": m, "rep": rep}


def n_records(m):
    return (len(all_policies(m)) if m["allpols"] else 0) + len(m["pols"])


def make_cases(rng, n_wanted, tier):
    """Returns cases; each is {"m": instance (with gw, allpols, pols, tinys, hist, sp, ap), "rep": MDP
    representation}.  The number of (instance, policy) records TLC will emit is about n_wanted."""
    cases, total, rejected = [], 0, 0
    while total < n_wanted:
        if len(cases) % 25 == 12:                # long thin chains (the 3x3 oracle does not apply: closed forms)
            cases.append(chain_case(rng))
            total += 1
            continue
        f = FAMS[len(cases) % len(FAMS)]
        n_na = min(rng.choice([1, 2, 2, 3, 3]), f["nmax"])
        n_abs = rng.choice([0, 1, 1, 2])
        K = rng.choice([1, 2, 2, 3])
        m = gen.rand_mdp(rng, n_na=n_na, n_abs=n_abs, K=K, PD=f["PD"], GN=f["GN"], GD=f["GD"],
                         rewards=f["rewards"], ID=rng.choice([2, 4]), init_on_abs=0.25,
                         p_implicit=0.12)
        rand_p0(rng, m)
        # implicitly absorbing states: the rewards of their impossible (zero-probability) transitions are arbitrary
        for s in impl_abs(m):
            for a in range(K):
                for t in range(m["N"]):
                    if t != s:
                        m["R"][s][a][t] = rng.choice([x for x in f["rewards"] if x != 0])
        beyond = rng.random() < 0.3 and add_beyond(rng, m, f["rewards"])
        # ghost policy rows at explicitly absorbing states (on their ghost-available actions)
        m["gw"] = [list(rng.choice(rows_at(m, s))) if m["abs"][s] else [0] * K for s in range(m["N"])]
        count = 1
        for s in range(m["N"]):
            if not m["abs"][s]:
                count *= len(rows_at(m, s))
        # discount "1 - eps": discounted families only (the surrogate GN/GD and the alternative one are < 1)
        m["near1"] = 0
        m["g_kind"] = 0
        m["g0_kind"] = rng.choice([0, 1, 2])
        if 0 < f["GN"] < f["GD"] and f["GD"] <= 4 and rng.random() < 0.3:
            m["near1"] = 1
            m["g_kind"] = rng.choice([1, 1, 2])
        listed, tinys = [], []
        if count <= 25:
            m["allpols"] = 1
            checked = all_policies(m)
        else:
            m["allpols"] = 0
            for style in ("any", "mixed", "any", "det", "uniform", "mixed"):
                p = rand_policy(rng, m, style)
                if p not in listed:
                    listed.append(p)
                    tinys.append(zero_flags(m))
            checked = list(listed)
        # policies with rare entries: mostly where they decide between finite and -inf (undiscounted)
        n_rare = rng.choice([2, 2, 3]) if f["GN"] == f["GD"] else (0 if m["near1"] else rng.choice([0, 0, 1]))
        for _ in range(n_rare):
            rp = rand_rare_policy(rng, m)
            if rp is not None and not any(rp[0] == listed[i] and rp[1] == tinys[i] for i in range(len(listed))):
                listed.append(rp[0])
                tinys.append(rp[1])
                checked += [rp[0], alt_policy(m, rp[0], rp[1])]
        m["pols"], m["tinys"] = listed, tinys
        ex = [exact(m, p) for p in checked]
        if m["near1"]:
            ex += [exact(alt_instance(m), p) for p in checked]
        if any(e is None or e["mag"] >= LIMIT for e in ex):
            rejected += 1
            continue
        # object-reuse history: the same policy object is evaluated on a second presentation of the MDP
        m["hist"] = 1 if rng.random() < 0.3 else 0
        sp, ap = list(range(1, m["N"] + 1)), list(range(1, K + 1))
        if m["hist"]:
            while m["N"] > 1 and sp == sorted(sp):
                rng.shuffle(sp)
            if K > 1 and (m["N"] == 1 or rng.random() < 0.7):
                while ap == sorted(ap):
                    rng.shuffle(ap)
        m["sp"], m["ap"] = sp, ap
        rep = dict(MDP_REPS[rng.randrange(len(MDP_REPS))])
        if beyond and rng.random() < 0.8:        # mostly on inferred state lists, where the successor is not listed
            rep = dict(rng.choice([r for r in MDP_REPS if not r["explicit_list"] and r["rep"] != "matrices"]))
        if impl_abs(m) & gen.reach(m) and rng.random() < 0.6:
            # distributions that list their zero-probability successors (and so expose the impossible rewards)
            rep = dict(rng.choice([r for r in MDP_REPS if r["dist"] == "dict_zeros"]))
        rep["absflag"] = rng.choice(["bool", "int", "npint"])
        if not rep["explicit_list"] and rep["rep"] == "matrices" and not gen.ghost_closed(m):
            rep["explicit_list"] = True      # the matrix builder of the harness needs every successor listed
        if m["hist"]:
            rep["explicit_list"] = True      # both presentations list every state and action
            rep["relabel"] = rng.random() < 0.4
        m["explicit"] = 1 if rep["explicit_list"] else 0
        m["chain"] = 0
        m["sibofs"] = 0
        # sibling: the same MDP with another discount, placed next in the batch (discount-change histories)
        sibling = None
        if not m["near1"] and rng.random() < 0.3:
            nonpos = all(x <= 0 for sa in m["R"] for row in sa for x in row)
            options = [g for g in ([(1, 2), (3, 4), (0, 1)] + ([(1, 1)] * 2 if nonpos else [])) if g != (m["GN"], m["GD"])]
            gn, gd = rng.choice(options)
            m2 = json.loads(json.dumps(m))
            m2["GN"], m2["GD"] = gn, gd
            ex2 = [exact(m2, p) for p in checked]
            if all(e is not None and e["mag"] < LIMIT for e in ex2):
                m2["sib_of_prev"] = 1
                m["sibofs"] = 1
                sibling = {"m": m2, "rep": dict(rep)}
        cases.append({"m": m, "rep": rep})
        total += n_records(m)
        if sibling is not None:
            cases.append(sibling)
            total += n_records(sibling["m"])
    return cases, rejected


# --------------------------------------------------------------------------------------------
# running the real code
# --------------------------------------------------------------------------------------------
def policy_rows(b, wreal, gw):
    """label-level policy: {state label: {action label: float prob}} for every state of the instance."""
    m = b.m
    rows = {}
    for s in range(m["N"]):
        src = [F(x, QD) for x in gw[s]] if m["abs"][s] else wreal[s]
        rows[b.slabel[s]] = {b.alabel[a]: float(src[a]) for a in range(m["K"])}
    return rows


def make_policy(mdp, rows, prep, rng, extra_states=()):
    """The policy object.  `extra_states`: further state labels (rows[...] defined) the table must cover
    (states of a second MDP the same object will be evaluated on)."""
    from msdm.core.mdp import TabularPolicy
    from msdm.core.mdp.policy import FunctionalPolicy
    from msdm.core.distributions import DictDistribution
    sl, al = list(mdp.state_list) + list(extra_states), list(mdp.action_list)
    if prep == "table":
        data = np.array([[rows[s][a] for a in al] for s in sl])
        return TabularPolicy.from_state_action_lists(state_list=sl, action_list=al, data=data)
    if prep == "table_perm":
        sl2, al2 = sl[:], al[:]
        rng.shuffle(sl2)
        rng.shuffle(al2)
        extra = ("not-a-state", 99)
        pos = rng.randrange(len(sl2) + 1)
        sl2.insert(pos, extra)
        data = np.array([[(1.0 if a == al2[0] else 0.0) if s == extra else rows[s][a] for a in al2] for s in sl2])
        return TabularPolicy.from_state_action_lists(state_list=sl2, action_list=al2, data=data)
    if prep == "functional_dict":
        pol = FunctionalPolicy(lambda s: {a: p for a, p in rows[s].items() if p > 0 and a in al})
        return pol.to_tabular(sl if extra_states else mdp.state_list, mdp.action_list)
    if prep == "functional_dist_perm":
        sl2, al2 = sl[:], al[:]
        rng.shuffle(sl2)
        rng.shuffle(al2)
        pol = FunctionalPolicy(lambda s: DictDistribution({a: rows[s][a] for a in al2}))
        return pol.to_tabular(sl2, al2)
    if prep == "from_dict":
        return TabularPolicy.from_dict({s: {a: rows[s][a] for a in al} for s in sl}, default_value=0)
    if prep == "from_dict_sparse":
        return TabularPolicy.from_dict({s: {a: rows[s][a] for a in al if rows[s][a] > 0} for s in sl}, default_value=0)
    raise ValueError(prep)


RELABEL = {"int": "str", "str": "tuple", "tuple": "int", "frozendict": "mixed", "mixed": "frozendict"}


def build_for(inst, rng, rep1, discount=None, absflag="bool"):
    """build.build_mdp plus the representation choices that are this driver's own: how a discount of exactly 0
    is spelled, and the type is_absorbing answers with (bool / int / numpy integer)."""
    if discount is None and inst["GN"] == 0:
        discount = ZERO[inst.get("g0_kind", 0)]
    b = build.build_mdp(inst, rng=rng, discount=discount, **rep1)
    if absflag != "bool":
        orig, conv = b.mdp.is_absorbing, ABSFLAG[absflag]
        b.mdp.is_absorbing = lambda s: conv(bool(orig(s)))
    return b


def second_presentation(mm, rep, seed, first, discount=None):
    """The MDP of the case once more, for the same policy object: same action labels, state list and
    action list permuted by sp / ap, optionally other state labels."""
    m = first.m
    rep2 = {k: rep[k] for k in ("rep", "labels", "alabels", "explicit_list", "dist")}
    rep2["explicit_list"] = True
    if rep2["rep"] == "matrices":
        rep2["rep"] = "quick"
    if rep.get("relabel"):
        rep2["labels"] = RELABEL[rep2["labels"]]
    b = build_for(mm, random.Random(seed), rep2, discount, rep.get("absflag", "bool"))
    if b.alabel != first.alabel:
        raise TLCFailure("second presentation: action labels differ (driver bug)")
    b.mdp._state_list = [b.slabel[i - 1] for i in m["sp"]]
    b.mdp._action_list = [b.alabel[j - 1] for j in m["ap"]]
    return b


def _shift_rewards(m):
    mm = dict(m)
    mm["R"] = [[[x - 1 for x in row] for row in sa] for sa in m["R"]]
    return mm


def run_real(case, wq, tn, preps, tamper=None, sib=None):
    """Evaluate the policy on the MDP of the case for each policy representation, then continue the call
    history of the SAME policy object:
      hist:   the second presentation of the MDP (permuted lists, maybe other labels), and the first again;
      sib:    (the sibling instance = same MDP, other discount) the same MDP object after its discount_rate
              was changed in place, after it was changed back, and a loop over short-lived MDP objects
              (each built after the previous one was dropped) alternating between the two discounts.
    Returns {prep: [(stage, which, projection or {"error": ...}), ...]}; `which` in {"own", "sib"} names the
    instance whose oracle the call is judged against."""
    m, rep = case["m"], case["rep"]
    mm = _shift_rewards(m) if tamper == "instance" else m      # selftest: hand msdm a different reward
    sm = None
    if sib is not None:
        sm = _shift_rewards(sib["m"]) if tamper == "instance" else sib["m"]
    wreal = real_weights(m, wq, tn)
    disc_real = NEAR1[m["g_kind"]] if m.get("near1") else None
    rep1 = {k: rep[k] for k in ("rep", "labels", "alabels", "explicit_list", "dist")}
    absflag = rep.get("absflag", "bool")
    out = {}

    def evaluate(stages, stage, which, pol, bb):
        try:
            with warnings.catch_warnings():
                warnings.simplefilter("ignore")
                stages.append((stage, which, project(bb, pol.evaluate_on(bb.mdp))))
        except Exception as e:                   # noqa: BLE001 - judged as a clause failure
            stages.append((stage, which, {"error": f"{type(e).__name__}: {e}"[:300]}))

    for prep in preps:
        seed = digest([case, wq, tn, prep])
        rng = random.Random(seed)
        stages = []
        out[prep] = stages
        try:
            with warnings.catch_warnings():
                warnings.simplefilter("ignore")
                b = build_for(mm, rng, rep1, disc_real, absflag)
                rows = policy_rows(b, wreal, m["gw"])
                b2, extra = None, []
                if m.get("hist"):
                    b2 = second_presentation(mm, rep, seed, b, disc_real)
                    rows2 = policy_rows(b2, wreal, m["gw"])
                    extra = [s for s in rows2 if s not in rows]
                    rows.update(rows2)
                pol = make_policy(b.mdp, rows, prep, rng, extra_states=extra)
        except TLCFailure:
            raise
        except Exception as e:                       # noqa: BLE001 - judged as a clause failure
            stages.append(("fresh", "own", {"error": f"{type(e).__name__}: {e}"[:300]}))
            continue
        evaluate(stages, "fresh", "own", pol, b)
        if b2 is not None:
            evaluate(stages, "reuse-on-permuted-mdp", "own", pol, b2)
            evaluate(stages, "reuse-back-on-first-mdp", "own", pol, b)
        if sm is not None:
            g_own = float(F(m["GN"], m["GD"])) if m["GN"] else ZERO[m.get("g0_kind", 0)]
            g_sib = float(F(sm["GN"], sm["GD"])) if sm["GN"] else ZERO[sm.get("g0_kind", 0)]
            b.mdp.discount_rate = g_sib
            evaluate(stages, "same-mdp-object-after-discount-change", "sib", pol, b)
            b.mdp.discount_rate = g_own
            evaluate(stages, "same-mdp-object-discount-changed-back", "own", pol, b)
            # short-lived MDP objects: each is built after the previous one was dropped
            del b
            b2 = None
            for t in range(4):
                which = "sib" if t % 2 == 0 else "own"
                try:
                    with warnings.catch_warnings():
                        warnings.simplefilter("ignore")
                        bt = build_for(sm if which == "sib" else mm, random.Random(seed), rep1, None, absflag)
                except Exception as e:               # noqa: BLE001
                    stages.append((f"short-lived-mdp-object-{t}", which, {"error": f"{type(e).__name__}: {e}"[:300]}))
                    continue
                evaluate(stages, f"short-lived-mdp-object-{t}", which, pol, bt)
                del bt
    return out


def project(b, r):
    sl = list(b.mdp.state_list)
    al = list(b.mdp.action_list)
    V, Q, O = {}, {}, {}
    for s_lab in sl:
        s = b.sidx(s_lab)
        V[s] = float(r.state_value[s_lab])
        O[s] = float(r.state_occupancy[s_lab])
        Q[s] = {b.aidx(a_lab): float(r.action_value[s_lab][a_lab]) for a_lab in al}
    return {"states": sorted(V), "actions": sorted(b.aidx(a) for a in al), "V": V, "Q": Q, "occ": O,
            "initial_value": float(r.initial_value)}


# --------------------------------------------------------------------------------------------
# judging
# --------------------------------------------------------------------------------------------
def close(x, ex, binding=True, tol=1e-9):
    """float from msdm against the exact value emitted by TLC (Fraction / +-inf).  An entry that is not
    binding (it depends on the size of a rare weight) only has to be finite where the exact one is."""
    if isinstance(ex, float):
        return x == ex
    if math.isnan(x) or math.isinf(x):
        return False
    if not binding:
        return True
    e = float(ex)
    return abs(x - e) <= tol * max(1.0, abs(e))


WHAT = ("mc: oracle + evaluation machine over (instance, policy) pairs; all menu policies enumerated by TLC "
        "on instances with <= 25 of them; policies with rare entries; second round of the machine on the "
        "permuted presentation for object-reuse histories")
BATCH_FIELDS = ("N", "K", "PD", "GN", "GD", "ID", "abs", "avail", "P", "R", "p0", "gw", "allpols", "pols",
                "tinys", "hist", "sp", "ap", "near1", "explicit", "sibofs", "chain")


def tlc_run(ctx, cases, tag="mc", coverage=False):
    """One TLC run over the batch (thread-safe: private work directory, nothing touched in ctx).
    coverage=True: per-action coverage (-coverage 1, several times slower; the spec keeps a single call site
    of Oracle because TLC's coverage cost model runs out of memory with two)."""
    batch = [{k: c["m"][k] for k in BATCH_FIELDS} for c in cases]
    cfg = CFG
    return run_tlc(ctx.workdir / tag, MODULE, cfg, files={"batch.json": batch},
                   env={"BATCH_FILE": "batch.json"}, coverage=coverage, workers=TLC_WORKERS)


def tlc_records(ctx, cases, what, res=None):
    if res is None:
        res = tlc_run(ctx, cases)
    ctx.add_tlc(res, what)
    bad = [v for v in res.violated if v in DESIGN_INVS]
    if bad:
        raise TLCFailure(f"design-level invariant violated in {MODULE}: {sorted(set(bad))}\n"
                         + (res.traces[0][:3000] if res.traces else ""))
    return res.records


def judge_cases(ctx, cases, *, tamper=None, tamper_at=(), preps=None, res=None):
    recs = tlc_records(ctx, cases, WHAT, res=res)
    expected = sum(n_records(c["m"]) for c in cases)
    if len(recs) != expected:
        raise TLCFailure(f"TLC emitted {len(recs)} records, {expected} (instance, policy) pairs expected")
    recs.sort(key=lambda r: (r["iid"], r["w"], r["tn"]))
    by_key = {(r["iid"], canon(r["w"]), canon(r["tn"])): r for r in recs}
    for n, r in enumerate(recs):
        c = cases[r["iid"] - 1]
        sib = None
        if c["m"].get("sibofs"):
            sr = by_key.get((r["iid"] + 1, canon(r["w"]), canon(r["tn"])))
            if sr is None:
                raise TLCFailure(f"no record of the sibling instance for iid {r['iid']}")
            sib = (cases[r["iid"]], sr)
        judge_one(ctx, c, r, n, tamper=(tamper if n in tamper_at else None), preps=preps, sib=sib)


def crosscheck(m, wq, tn, r):
    """TLC's record against the independent Fraction implementation.  For a policy with rare entries TLC
    worked on a surrogate: its whole record is checked against the surrogate's exact evaluation, and its
    structural verdicts and binding entries against the exact evaluation of the weights msdm receives."""
    N, K = m["N"], m["K"]
    ex = exact(m, wq, wf=[[F(x, QD) for x in row] for row in wq]) if m.get("chain") else exact(m, wq)
    if ex is None:
        raise TLCFailure("python oracle: singular system")
    for s in range(N):
        if not same(r["v"][s], ex["v"][s]):
            raise TLCFailure(f"TLA+ and Python oracles disagree on V[{s}]: {r['v'][s]} vs {ex['v'][s]} (m={m}, w={wq})")
        if not same(r["occ"][s], ex["occ"][s]):
            raise TLCFailure(f"TLA+ and Python oracles disagree on occ[{s}]: {r['occ'][s]} vs {ex['occ'][s]} (m={m}, w={wq})")
        for a in range(K):
            if not same(r["q"][s][a], ex["q"][s][a]):
                raise TLCFailure(f"TLA+ and Python oracles disagree on Q[{s}][{a}]: {r['q'][s][a]} vs {ex['q'][s][a]} (m={m}, w={wq})")
    if not same(r["init"], ex["init"]):
        raise TLCFailure(f"TLA+ and Python oracles disagree on the initial value: {r['init']} vs {ex['init']} (m={m}, w={wq})")
    if any(any(row) for row in tn) or m.get("near1"):
        er = exact(real_instance(m), wq, wf=real_weights(m, wq, tn))
        vx = {s - 1 for s in r["vexact"]}
        ox = {s - 1 for s in r["oexact"]}

        def agree(tla, py, binding, what):
            inf_t = frac(tla) in (float("-inf"), float("inf"))
            inf_p = py in (pyoracle.NEG, pyoracle.POS)
            if inf_t != inf_p or (inf_t and not same(tla, py)) or (binding and not same(tla, py)):
                raise TLCFailure(f"rare weights / near-one discount: TLA+ verdict on {what} ({tla}, binding={binding}) contradicts the exact "
                                 f"evaluation with weight 2^-30 ({py}) (m={m}, w={wq}, tn={tn})")
        for s in range(N):
            agree(r["v"][s], er["v"][s], s in vx, f"V[{s}]")
            agree(r["occ"][s], er["occ"][s], s in ox, f"occ[{s}]")
            for a in range(K):
                if er["q"][s][a] is not None:
                    agree(r["q"][s][a], er["q"][s][a], bool(r["qexact"][s][a]), f"Q[{s}][{a}]")
        agree(r["init"], er["init"], bool(r["iexact"]), "initial value")


def unpack(m, r):
    """What TLC decided for one (instance, policy) record, in 0-based indices."""
    near1 = bool(m.get("near1"))
    return {
        "m": m, "disc": m["GN"] < m["GD"], "site": SITE[m["GN"] < m["GD"]], "near1": near1,
        # binding entries of a near-one instance: cond(I - gamma P) <= 2/(1-gamma) = 2^21, so 1e-16 * 5 * 2^21 ~ 1e-9
        # is the attainable accuracy; 1e-6 leaves three orders of magnitude (the entries do not depend on gamma)
        "tol": 1e-6 if near1 else 1e-9,
        "v": [frac(x) for x in r["v"]], "q": [[frac(x) for x in row] for row in r["q"]],
        "mq": [[frac(x) for x in row] for row in r["mq"]], "occ": [frac(x) for x in r["occ"]],
        "init": frac(r["init"]), "absall": {s - 1 for s in r["absall"]}, "implabs": {s - 1 for s in r["implabs"]},
        "vx": {s - 1 for s in r["vexact"]}, "ox": {s - 1 for s in r["oexact"]}, "qx": r["qexact"],
        "ix": bool(r["iexact"]), "absfin": r["absfin"]}


def judge_one(ctx, c, r, n, *, tamper=None, preps=None, sib=None):
    m = c["m"]
    wq, tn = r["w"], r["tn"]
    N, K = m["N"], m["K"]
    rare = any(any(row) for row in tn)
    near1 = bool(m.get("near1"))
    if n % 3 == 0 or tamper or rare or near1 or m.get("chain"):
        crosscheck(m, wq, tn, r)
        ctx.count("oracle_crosschecks")
    exp = {"own": unpack(m, r)}
    if sib is not None:
        exp["sib"] = unpack(sib[0]["m"], sib[1])
    E0 = exp["own"]
    absall, v, q, occ, init, vx = E0["absall"], E0["v"], E0["q"], E0["occ"], E0["init"], E0["vx"]
    if preps is None:
        rng = random.Random(digest([m, wq, tn]))
        preps = [DIRECT[rng.randrange(len(DIRECT))], CONVERTED[rng.randrange(len(CONVERTED))]]
    outs = run_real(c, wq, tn, preps, tamper=("instance" if tamper == "instance" else None),
                    sib=(sib[0] if sib is not None else None))
    if tamper == "value":
        o = next(o for st in outs.values() for _, _, o in st if "error" not in o)
        s = next((s for s in o["states"] if s not in absall and s in vx), o["states"][0])   # a binding entry
        o["V"][s] += 0.5
    conv = {"functional_dict": "Policy.to_tabular", "functional_dist_perm": "Policy.to_tabular",
            "from_dict": "TabularPolicy.from_dict", "from_dict_sparse": "TabularPolicy.from_dict"}
    direct_failed = set()
    all_ok = True
    for prep in preps:
        fresh_failed = set()
        for stage, which, o in outs[prep]:
            E = exp[which]
            site, tol = E["site"], E["tol"]
            ctx.evaluations += 1
            ctx.count(f"runs[{prep}]" if stage == "fresh" else f"runs[{stage.rstrip('0123456789-')}]")
            failed = []
            drifts = []      # reported only when every clause of the statement held on this run

            def fail(clause, what):
                failed.append(clause)
                if stage != "fresh" and clause not in fresh_failed:
                    sig = f"C02:{site}:{clause}:policy-object-reused-on-second-mdp"
                elif prep in CONVERTED and clause not in direct_failed:
                    sig = f"C02:{conv[prep]}->{site}:{clause}"
                else:
                    sig = f"C02:{site}:{clause}"
                if rare:
                    sig += ":rare-weight"
                if near1:
                    sig += ":discount-just-below-1"
                body = {"case": _single({"case": c, "w": wq, "tn": tn}), "w": wq, "tn": tn, "preps": [prep],
                        "clause": clause}
                if sib is not None:
                    body["sib"] = _single({"case": sib[0], "w": wq, "tn": tn})
                    body["case"]["m"]["sibofs"] = 1
                ctx.violation(sig, f"{site} [{prep}, {stage}] {clause}: {what}", body)

            if "error" in o:
                fail("error", f"raised {o['error']}")
            else:
                listed = o["states"]
                mm_ = E["m"]
                # --- clause: state values (absorbing states worth 0, -inf exactly on the oracle's set)
                for s in listed:
                    if not close(o["V"][s], E["v"][s], s in E["vx"], tol):
                        kind = "absorbing-zero" if s in E["absall"] else ("neginf-set" if (isinstance(E["v"][s], float) or not math.isfinite(o["V"][s])) else "state_value")
                        fail(kind, f"state_value[{s}]={o['V'][s]} but exact {E['v'][s]}")
                        break
                # --- clause: action values (unavailable actions -inf); rows of explicitly absorbing states: DRIFT only
                done = False
                for s in listed:
                    for a in o["actions"]:
                        x = o["Q"][s][a]
                        if mm_["abs"][s]:
                            if E["absfin"][s][a] and not math.isfinite(x):
                                fail("available-action-of-absorbing-state", f"action_value[{s}][{a}]={x}: the action is "
                                     f"available in the absorbing state {s} and no successor is worth -inf")
                                done = True
                                break
                            e = E["mq"][s][a] if E["mq"][s][a] is not None else float("-inf")
                            if not close(x, e, bool(E["qx"][s][a]), tol):
                                drifts.append(("ActionValue-at-absorbing-state",
                                               {"case": digest(c), "state": s, "action": a, "real": x, "machine": str(e)}))
                            continue
                        e = E["q"][s][a] if E["q"][s][a] is not None else float("-inf")
                        if not close(x, e, bool(E["qx"][s][a]), tol):
                            kind = "unavailable-action" if E["q"][s][a] is None else "action_value"
                            fail(kind, f"action_value[{s}][{a}]={x} but exact {e}")
                            done = True
                            break
                    if done:
                        break
                # --- clause: occupancies (implicitly absorbing states: DRIFT only)
                for s in listed:
                    if not close(o["occ"][s], E["occ"][s], s in E["ox"], tol):
                        if s in E["implabs"]:
                            # msdm's definition of an absorbing state (all actions stay put with probability 1 and
                            # reward 0, or flagged) makes this state absorbing: its occupancy is the arriving mass
                            fail("state_occupancy-of-implicitly-absorbing-state",
                                 f"state_occupancy[{s}]={o['occ'][s]} but exact {E['occ'][s]} (every action of state {s} "
                                 f"stays put with probability 1 and reward 0: absorbing)")
                            break
                        kind = "posinf-set" if (isinstance(E["occ"][s], float) or not math.isfinite(o["occ"][s])) else "state_occupancy"
                        fail(kind, f"state_occupancy[{s}]={o['occ'][s]} but exact {E['occ'][s]}")
                        break
                # --- clause: initial value
                if not close(o["initial_value"], E["init"], E["ix"], tol):
                    fail("initial_value", f"initial_value={o['initial_value']} but exact {E['init']}")
            if stage == "fresh":
                fresh_failed = set(failed)
                if prep in DIRECT:
                    direct_failed = set(failed)
            if failed:
                all_ok = False
            elif drifts:
                ctx.drift(*drifts[0])
            else:
                ctx.validated += 1
    # non-triviality: >= 2 listed non-absorbing states and the policy mixes two actions of different exact Q
    ok_out = next((o for st in outs.values() for _, which, o in st if "error" not in o and which == "own"), None)
    if ok_out is not None:
        na = [s for s in ok_out["states"] if s not in absall]
        mixes = any(len({str(q[s][a]) for a in range(K) if wq[s][a] > 0}) > 1 for s in na)
        if len(na) >= 2 and mixes:
            ctx.nontrivial(digest([{k: m[k] for k in ("N", "K", "PD", "GN", "GD", "ID", "abs", "avail", "P", "R", "p0")}, wq, tn]))
        if rare:
            ctx.count("records_with_rare_weights")
            if len(vx) < N:
                ctx.count("records_with_rare_weights_and_nonbinding_values")
        if m.get("hist"):
            ctx.count("records_with_object_reuse_history")
        if sib is not None:
            ctx.count("records_with_discount_change_history")
        if near1:
            ctx.count("records_with_discount_just_below_1")
        if m.get("chain"):
            ctx.count("records_on_long_chains")
        if any(E0["absfin"][s][a] and not any(m["P"][s][a][t] > 0 and t in ok_out["states"] for t in range(N))
               for s in ok_out["states"] for a in range(K)):
            ctx.count("records_with_absorbing_action_leading_outside_the_state_list")
        if not E0["disc"]:
            if any(v[s] == float("-inf") for s in na):
                ctx.count("undiscounted_cases_with_neginf_state")
            if any(isinstance(v[s], F) and v[s] != 0 for s in na):
                ctx.count("undiscounted_cases_with_finite_nonzero_state")
            if any(occ[s] == float("inf") for s in na):
                ctx.count("undiscounted_cases_with_posinf_occupancy")
    ctx.sample({"instance": {k: m[k] for k in ("N", "K", "PD", "GN", "GD", "ID", "abs", "avail", "P", "R", "p0", "gw", "hist", "sp", "ap", "near1", "g_kind", "explicit", "sibofs")},
                "sibling_discount": ([sib[0]["m"]["GN"], sib[0]["m"]["GD"]] if sib is not None else None),
                "policy_w_over_6": wq, "rare_flags": tn, "rep": c["rep"], "policy_reps": preps,
                "exact": {"v": [str(x) for x in v], "occ": [str(x) for x in occ], "init": str(init)},
                "real": {p: [(stage, which, o if "error" in o else {"V": o["V"], "occ": o["occ"], "initial_value": o["initial_value"]})
                             for stage, which, o in st] for p, st in outs.items()}})
    return all_ok


# --------------------------------------------------------------------------------------------
def run(ctx):
    rng = random.Random(ctx.seed * 7919 + 2)
    n = 2000 if ctx.tier == "quick" else 30000
    ctx.rule = ("(instance, policy) pairs: random members of MDPFam (1-3 non-absorbing + 0-2 explicitly absorbing states with "
                "ghost dynamics and ghost policy rows, implicit absorbing states, 1-3 state-dependent actions, gamma in "
                "{0,1/2,3/4,9/10,1} (0 spelled 0.0 / 0 / numpy 0), PD in {2,4}, initial mass on absorbing states, is_absorbing answering with bool / int / numpy int, impossible transitions with rewards) x stochastic policies with weights in "
                "{0,1/3,1/2,2/3,1} (all of them, enumerated by TLC, when there are <= 25; 6 sampled otherwise) plus policies "
                "with rare entries (weight 2^-30 in msdm, 'some weight > 0' in the spec); 30% of the discounted instances get "
                "the discount 1-2^-20 or 0.999999 ('some discount < 1' in the spec); inferred state lists may leave "
                "successors of absorbing states unlisted x 7 MDP representations x 6 policy "
                "representations; on 30% of the instances the same policy object is evaluated again on a second presentation "
                "of the MDP (permuted state / action lists, optionally other state labels) and back on the first; "
                "non-trivial = >= 2 listed non-absorbing states and a state where the policy mixes two actions of "
                "different exact action value")
    ctx.assumptions = [
        "TLC evaluates the TLA+ oracle correctly (cross-checked entry-wise against an independent Fraction "
        "implementation on every 3rd record and on every record with rare weights, there also against the exact "
        "evaluation with the concrete weight 2^-30)",
        "float results of the <= 5x5 linear solves are compared with 1e-9*max(1,|exact|) slack; +-inf must match exactly; "
        "finite entries that depend on the size of a rare weight (decided by the spec: VExact/QExact/OccExact/InitExact) "
        "only have to be finite",
        "action values at explicitly absorbing states are not fixed by the statement beyond 'an available action is not "
        "worth -inf': their numbers are compared against the reference machine only (DRIFT); absorbing = flagged by "
        "is_absorbing or, by msdm's documented definition, every action stays put with probability 1 and reward 0"]
    cases, rejected = make_cases(rng, n, ctx.tier)
    if rejected:
        ctx.skip("instance rejected by the 32-bit magnitude filter of the TLA+ oracle", rejected)
    # TLC runs are pipelined (one at a time) with the judging of earlier chunks
    from concurrent.futures import ThreadPoolExecutor
    nchunks = max(2, round(len(cases) / 150))
    size = -(-len(cases) // nchunks)
    chunks, k = [], 0
    while k < len(cases):
        e = min(k + size, len(cases))
        if cases[e - 1]["m"].get("sibofs"):      # a sibling pair stays in one batch
            e += 1
        chunks.append(cases[k:e])
        k = e
    with ThreadPoolExecutor(max_workers=1) as pool:
        futs = [pool.submit(tlc_run, ctx, ch, f"mc{i}") for i, ch in enumerate(chunks)]
        # per-action coverage (slow) is collected in an extra run over the first 40 instances, thorough tier only
        cov = pool.submit(tlc_run, ctx, cases[:40], "cov", True) if ctx.tier == "thorough" else None
        try:
            for ch, fut in zip(chunks, futs):
                judge_cases(ctx, ch, res=fut.result())
            if cov is not None:
                tlc_records(ctx, cases[:40], "per-action coverage run (-coverage 1) over the first 40 instances", res=cov.result())
        finally:
            for fut in futs:
                fut.cancel()


def _single(case):
    m = dict(case["case"]["m"])
    m["allpols"], m["pols"] = 0, [case["w"]]
    m["tinys"] = [case.get("tn") or zero_flags(m)]
    m.setdefault("hist", 0)
    m.setdefault("near1", 0)
    m.setdefault("chain", 0)
    m.setdefault("g_kind", 0)
    m.setdefault("explicit", 1 if case["case"]["rep"].get("explicit_list") else 0)
    m["sibofs"] = 0
    m.setdefault("sp", list(range(1, m["N"] + 1)))
    m.setdefault("ap", list(range(1, m["K"] + 1)))
    return {"m": m, "rep": case["case"]["rep"]}


def detach(cases):
    """Sub-lists of generated cases: a case whose sibling does not follow it loses its sibling history."""
    out = []
    for i, c in enumerate(cases):
        nxt = cases[i + 1]["m"] if i + 1 < len(cases) else {}
        if c["m"].get("sibofs") and not nxt.get("sib_of_prev"):
            c = {"m": dict(c["m"], sibofs=0), "rep": c["rep"]}
        out.append(c)
    return out


def replay(ctx, case):
    c = _single(case)
    cs = [c]
    if case.get("sib"):
        c["m"]["sibofs"] = 1
        cs.append(_single({"case": case["sib"], "w": case["w"], "tn": case.get("tn")}))
    recs = tlc_records(ctx, cs, "replay: one (instance, policy) pair" + (" and its sibling" if len(cs) > 1 else ""))
    if len(recs) != len(cs):
        raise TLCFailure(f"replay: expected {len(cs)} record(s), got {len(recs)}")
    recs.sort(key=lambda r: r["iid"])
    sib = (cs[1], recs[1]) if len(cs) > 1 else None
    judge_one(ctx, c, recs[0], 0, preps=case.get("preps"), sib=sib)      # n = 0: the oracle cross-check runs too


def selftest(ctx):
    """Binding demonstration: (1) corrupt one value returned by the real code, (2) hand msdm an
    instance that differs from the one TLC evaluated; both must be reported, and the untouched
    cases must not be."""
    rng = random.Random(11)
    cases, _ = make_cases(rng, 400, "quick")
    # discounted cases only, so that nothing but the tampering can fail
    cases = detach([c for c in cases if c["m"]["GN"] < c["m"]["GD"] and not c["m"]["near1"]
                    and not c["m"].get("sib_of_prev")][:6])
    ok = True
    for tamper in ("value", "instance"):
        before = len(ctx.violations)
        judge_cases(ctx, cases, tamper=tamper, tamper_at=range(1, 400, 6), preps=["table_perm", "functional_dist_perm"])
        got = len(ctx.violations) - before
        print(f"  selftest tamper={tamper}: {got} failure(s) reported", flush=True)
        ok = ok and got >= 1
    before = len(ctx.violations)
    judge_cases(ctx, cases, preps=["table", "from_dict"])
    ok = ok and len(ctx.violations) == before
    return ok
