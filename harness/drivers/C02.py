"""C02 - exact policy evaluation (TabularPolicy.evaluate_on) solves the Bellman expectation equations.

Pipeline A: cases (instance x stochastic policy) -> TLC run of spec/C02_PolicyEval.tla (exact oracle,
the implementation-shaped evaluation machine, design invariants; for small instances TLC itself
enumerates every policy over the weight menu) -> one record per (instance, policy) with the exact
state values, action values, occupancies and initial value -> the real evaluate_on on msdm objects
built from the same instance (several MDP and policy representations) -> entry-wise comparison.
"""
import math
import random
import warnings
from fractions import Fraction as F

import numpy as np

from .. import gen, build, pyoracle
from ..build import frac
from ..core import digest
from ..tlc import run_tlc, TLCFailure

MODULE = "C02_PolicyEval"
QD = 6
MENU_ROWS = {}          # K -> list of weight rows over K actions (numerators over 6)
LIMIT = 2 ** 28         # bound on every integer TLC has to form (its integers are 32-bit)
TLC_WORKERS = None      # framework default; one TLC run is in flight while the previous chunk is judged

CFG = """INIT Init
NEXT Next
CHECK_DEADLOCK TRUE
INVARIANT Emit
INVARIANT MachineMatchesOracle
INVARIANT Bellman
INVARIANT NegInfIffNegativeClass
INVARIANT OccupancyFlow
INVARIANT Duality
INVARIANT InstanceOK
"""
DESIGN_INVS = ["MachineMatchesOracle", "Bellman", "NegInfIffNegativeClass", "OccupancyFlow", "Duality",
               "InstanceOK"]

MDP_REPS = [
    dict(rep="quick", labels="int", alabels="int", explicit_list=False, dist="dict"),
    dict(rep="subclass", labels="str", alabels="str", explicit_list=True, dist="dict_zeros"),
    dict(rep="quick", labels="tuple", alabels="str", explicit_list=False, dist="det"),
    dict(rep="matrices", labels="frozendict", alabels="int", explicit_list=True, dist="dict"),
    dict(rep="subclass", labels="mixed", alabels="mixed", explicit_list=False, dist="uniform"),
    dict(rep="quick", labels="str", alabels="tuple", explicit_list=True, dist="dict"),
    dict(rep="matrices", labels="int", alabels="str", explicit_list=False, dist="dict"),
]
# policy representations: a directly tabulated one and a converted one are run for every case
DIRECT = ["table", "table_perm"]
CONVERTED = ["functional_dict", "functional_dist_perm", "from_dict", "from_dict_sparse"]

SITE = {True: "TabularPolicy._evaluate_on_discounted", False: "TabularPolicy._evaluate_on_undiscounted"}


# --------------------------------------------------------------------------------------------
# weight menu {0, 1/3, 1/2, 2/3, 1}
# --------------------------------------------------------------------------------------------
def menu_rows(K):
    if K not in MENU_ROWS:
        rows = []

        def rec(prefix, left):
            if len(prefix) == K:
                if left == 0:
                    rows.append(tuple(prefix))
                return
            for x in (0, 2, 3, 4, 6):
                if x <= left:
                    rec(prefix + [x], left - x)
        rec([], QD)
        MENU_ROWS[K] = rows
    return MENU_ROWS[K]


def rows_at(m, s):
    return [r for r in menu_rows(m["K"]) if all(r[a] == 0 or m["avail"][s][a] for a in range(m["K"]))]


def all_policies(m):
    na = [s for s in range(m["N"]) if not m["abs"][s]]
    out = [[]]
    for s in na:
        out = [p + [r] for p in out for r in rows_at(m, s)]
    pols = []
    for p in out:
        wq = [[0] * m["K"] for _ in range(m["N"])]
        for s, r in zip(na, p):
            wq[s] = list(r)
        pols.append(wq)
    return pols


def rand_policy(rng, m, style):
    wq = [[0] * m["K"] for _ in range(m["N"])]
    for s in range(m["N"]):
        if m["abs"][s]:
            continue
        rows = rows_at(m, s)
        if style == "det":
            rows = [r for r in rows if max(r) == QD]
        elif style == "uniform":
            n = sum(m["avail"][s])
            u = [r for r in rows if all((x == QD // n) == bool(m["avail"][s][a]) for a, x in enumerate(r))] if QD % n == 0 else []
            rows = u or rows
        elif style == "mixed":
            mixed = [r for r in rows if max(r) < QD]
            rows = mixed or rows
        wq[s] = list(rng.choice(rows))
    return wq


# --------------------------------------------------------------------------------------------
# independent exact semantics (Fractions) - cross-check of the TLA+ oracle and magnitude filter
# --------------------------------------------------------------------------------------------
class Mag:
    """Upper bound on the integers TLC forms while evaluating the spec on a case."""

    def __init__(self):
        self.mx = 0

    def t(self, *xs):
        for x in xs:
            x = abs(int(x))
            if x > self.mx:
                self.mx = x

    def mul(self, x, y):
        x, y = F(x), F(y)
        self.t(x.numerator * y.numerator, x.denominator * y.denominator)
        return x * y

    def sum(self, terms):
        terms = [F(t) for t in terms]
        L = 1
        for t in terms:
            L = L * t.denominator // math.gcd(L, t.denominator)
        self.t(L, sum(abs(t) for t in terms) * L)
        return sum(terms, F(0))


def impl_abs(m):
    out = set()
    for s in range(m["N"]):
        if m["abs"][s]:
            continue
        av = [a for a in range(m["K"]) if m["avail"][s][a]]
        if av and all(m["P"][s][a][s] == m["PD"] and m["R"][s][a][s] == 0 for a in av):
            out.add(s)
    return out


def _inv(A):
    n = len(A)
    cols = [pyoracle._solve(A, [F(1 if i == j else 0) for i in range(n)]) for j in range(n)]
    return [[cols[j][i] for j in range(n)] for i in range(n)]


def _det(A):
    n = len(A)
    if n == 0:
        return F(1)
    if n == 1:
        return A[0][0]
    return sum((-1) ** j * A[0][j] * _det([row[:j] + row[j + 1:] for row in A[1:]]) for j in range(n))


def exact(m, wq):
    """Independent exact evaluation of the policy wq (numerators over 6, rows of absorbing states
    ignored).  Returns dict(v, q, occ, init, mag) with Fractions / '-inf' / '+inf' / None."""
    N, K = m["N"], m["K"]
    g = F(m["GN"], m["GD"])
    PDQ = m["PD"] * QD
    D = m["GD"] * PDQ
    mag = Mag()
    w = [[F(wq[s][a], QD) for a in range(K)] for s in range(N)]
    ab_e = {s for s in range(N) if m["abs"][s]}
    ab = ab_e | impl_abs(m)
    v = pyoracle.policy_value(m, {s: {a: w[s][a] for a in range(K)} for s in range(N) if s not in ab_e})
    q = [[None if (s in ab_e or not m["avail"][s][a]) else pyoracle.q_from_v(m, v, s, a) for a in range(K)]
         for s in range(N)]
    # chain of the policy on the tabular view
    Pp = [[F(0)] * N for _ in range(N)]
    rp = [F(0)] * N
    for s in range(N):
        if s in ab:
            continue
        for a in range(K):
            if w[s][a] and m["avail"][s][a]:
                for t in range(N):
                    p = F(m["P"][s][a][t], m["PD"])
                    Pp[s][t] += w[s][a] * p
                    rp[s] += w[s][a] * p * m["R"][s][a][t]
    rec = set()
    reach = {}
    for s in range(N):
        seen, fr = set(), [s]
        while fr:
            x = fr.pop()
            for t in range(N):
                if Pp[x][t] > 0 and t not in seen:
                    seen.add(t)
                    fr.append(t)
        reach[s] = seen
    if g == 1:
        rec = {s for s in range(N) if s not in ab and not (reach[s] & ab) and all(s in reach[t] for t in reach[s])}
    T = [s for s in range(N) if s not in ab and s not in rec]
    A = [[(1 if i == j else 0) - g * Pp[j][i] for j in T] for i in T]
    x = pyoracle._solve(A, [F(m["p0"][s], m["ID"]) for s in T]) if T else []
    occ = [F(0)] * N
    for i, s in enumerate(T):
        occ[s] = x[i]
    from0 = set()
    for s in range(N):
        if m["p0"][s] > 0:
            from0 |= {s} | (reach[s] if s not in ab else set())
    for t in range(N):
        if t in rec:
            occ[t] = pyoracle.POS if t in from0 else F(0)
        elif t in ab:
            occ[t] = F(m["p0"][t], m["ID"]) + g * sum(occ[s] * Pp[s][t] for s in T)
    if any(m["p0"][s] > 0 and v[s] == pyoracle.NEG for s in range(N)):
        init = pyoracle.NEG
    else:
        init = sum(F(m["p0"][s], m["ID"]) * v[s] for s in range(N) if m["p0"][s] > 0)

    # ---- magnitudes of what TLC computes (integers are 32-bit there) -------------------------
    fin = lambda z: z if isinstance(z, F) else F(0)
    ppi = [[int(Pp[s][t] * PDQ) for t in range(N)] for s in range(N)]      # MDP!PPi on the tabular view
    ppi_m = [[int(sum(w[s][a] * F(m["P"][s][a][t], m["PD"]) for a in range(K) if w[s][a]) * PDQ) if s not in ab_e else 0
              for t in range(N)] for s in range(N)]                          # MDP!PPi on the instance itself
    rpi_m = [int(sum(w[s][a] * F(m["P"][s][a][t], m["PD"]) * m["R"][s][a][t] for a in range(K) if w[s][a]
                     for t in range(N)) * PDQ) if s not in ab_e else 0 for s in range(N)]

    def cramer(U, px, b, transpose):
        """mirrors Num!Solve on the |U| x |U| system D*I - GN*px: tracks determinant, cofactors, numerators"""
        k = len(U)
        Ai = [[(D if i == j else 0) - m["GN"] * (px[j][i] if transpose else px[i][j]) for j in U] for i in U]
        e = max([abs(z) for row in Ai for z in row] + [1])
        mag.t(math.factorial(max(k, 1)) * e ** max(k, 1))
        Af = [[F(z) for z in row] for row in Ai]
        det = _det(Af)
        if det == 0:
            return None, None, None
        adj = [[int(z * det) for z in row] for row in _inv(Af)] if k else []
        xn = []
        for i in range(k):
            mag.t(sum(abs(adj[i][j] * b[j]) for j in range(k)))
            xn.append(sum(adj[i][j] * b[j] for j in range(k)))
        return int(det), adj, xn

    # MDP!PolicyValue: transient states of the value system (implicitly absorbing states are a zero class when undiscounted)
    U1 = [s for s in range(N) if s not in ab_e and isinstance(v[s], F) and not (g == 1 and (s in rec or s in ab))]
    det1, _, _ = cramer(U1, ppi_m, [m["GD"] * rpi_m[s] for s in U1], False)
    if det1 is None:
        return None
    # OccOracle: transposed system on the tabular view
    det2, adj2, xn2 = cramer(T, ppi, [m["p0"][s] for s in T], True)
    if det2 is None:
        return None
    mag.t(abs(det2) * m["ID"], abs(det2) * max(m["p0"]))
    for i in range(len(T)):
        mag.t(D * xn2[i])
    for t in range(N):
        if t in ab:
            mag.t(m["GN"] * sum(abs(xn2[i] * ppi[T[i]][t]) for i in range(len(T))) + abs(det2) * m["p0"][t])
    # machine Inverse on the rows outside `mask`: D * cofactor, GN * sum_l cofactor * chain
    det3, adj3, _ = cramer(T, ppi, [0 for _ in T], False)
    for i in range(len(T)):
        for j in range(len(T)):
            mag.t(D * adj3[i][j])
        for t in range(N):
            if t not in T:
                mag.t(m["GN"] * sum(abs(adj3[i][l] * ppi[T[l]][t]) for l in range(len(T))))
    # the machine's successor representation and its products (includes the values later overwritten)
    mask = ab | rec
    Xm = [[F(0) if s in mask else Pp[s][t] for t in range(N)] for s in range(N)]
    SR = _inv([[(1 if i == j else 0) - g * Xm[i][j] for j in range(N)] for i in range(N)])
    srw = [F(0) if s in ab else rp[s] for s in range(N)]
    # recurrent rows keep their raw rewards in the code
    for s in rec:
        srw[s] = sum(w[s][a] * F(m["P"][s][a][t], m["PD"]) * m["R"][s][a][t]
                     for a in range(K) if w[s][a] and m["avail"][s][a] for t in range(N))
    vraw = []
    for i in range(N):
        vraw.append(mag.sum([mag.mul(SR[i][j], srw[j]) for j in range(N)]))
    for z in range(N):
        mag.sum([mag.mul(SR[s][z], F(m["p0"][s], m["ID"])) for s in range(N)])
    vm = [fin(v[s]) if not (g == 1 and v[s] == pyoracle.NEG) else F(0) for s in range(N)]
    for s in range(N):
        for a in range(K):
            if not m["avail"][s][a]:
                continue
            terms = []
            for t in range(N):
                if m["P"][s][a][t] == 0:
                    continue
                vt = vm[t]
                # MDP!QFromV
                mag.t(m["P"][s][a][t] * (abs(m["R"][s][a][t]) * m["GD"] * vt.denominator + m["GN"] * abs(vt.numerator)),
                      m["PD"] * m["GD"] * vt.denominator)
                terms.append(F(m["P"][s][a][t], m["PD"]) * (m["R"][s][a][t] + g * vt))
                # machine QCell
                mag.mul(F(m["GN"] * m["P"][s][a][t], m["GD"] * m["PD"]), vt)
            sar = sum(F(m["P"][s][a][t], m["PD"]) * m["R"][s][a][t] for t in range(N))
            mag.sum(terms)
            mag.sum([sar] + [F(m["P"][s][a][t], m["PD"]) * g * vm[t] for t in range(N) if m["P"][s][a][t]])
    # initial value, Bellman, flow, duality sums
    mag.sum([mag.mul(F(m["p0"][s], 1), vm[s]) for s in range(N)])
    mag.sum([mag.mul(F(m["p0"][s], m["ID"]), vm[s]) for s in range(N)])
    mag.t(fin(init).denominator * m["ID"], abs(fin(init).numerator) * m["ID"])
    for s in range(N):
        if s in ab_e:
            continue
        mag.sum([mag.mul(w[s][a], fin(q[s][a])) for a in range(K) if w[s][a]])
    of = [fin(o) for o in occ]
    for t in range(N):
        mag.sum([F(m["p0"][t], m["ID"])] + [mag.mul(of[s], mag.mul(g, Pp[s][t])) for s in range(N) if Pp[s][t]])
    mag.sum([mag.mul(of[s], rp[s]) for s in range(N)])
    return {"v": v, "q": q, "occ": occ, "init": init, "mag": mag.mx, "rec": rec, "ab": ab, "rp": rp}


def same(tla, py):
    """TLC value [n, d] against the Python oracle's value."""
    t = frac(tla)
    if py == pyoracle.NEG:
        return t == float("-inf")
    if py == pyoracle.POS:
        return t == float("inf")
    if py is None:
        return t is None
    return isinstance(t, F) and t == py


# --------------------------------------------------------------------------------------------
# case generation
# --------------------------------------------------------------------------------------------
FAMS = [
    dict(GN=1, GD=2, PD=2, rewards=(-2, -1, 0, 1, 2), nmax=3),
    dict(GN=1, GD=1, PD=2, rewards=(-2, -1, 0, 0), nmax=3),
    dict(GN=3, GD=4, PD=2, rewards=(-2, -1, 0, 1, 3), nmax=3),
    dict(GN=1, GD=1, PD=4, rewards=(-3, -1, 0, 0), nmax=3),
    dict(GN=1, GD=2, PD=4, rewards=(-2, -1, 0, 1, 2), nmax=3),
    dict(GN=1, GD=1, PD=2, rewards=(-1, 0, 0), nmax=3),
    dict(GN=9, GD=10, PD=2, rewards=(-2, -1, 0, 1, 2), nmax=2),
    dict(GN=1, GD=1, PD=4, rewards=(-2, -1, 0), nmax=3),
]


def rand_p0(rng, m):
    """Initial distribution: 1-3 supported states (absorbing ones included), often non-uniform."""
    N = m["N"]
    k = min(rng.choice([1, 1, 2, 2, 3]), N)
    ID = rng.choice([2, 3, 4, 4]) if k < 3 else rng.choice([3, 4, 4])
    ID = max(ID, k)
    supp = rng.sample(range(N), k)
    parts = [1] * k
    for _ in range(ID - k):
        parts[rng.randrange(k)] += 1
    m["ID"] = ID
    m["p0"] = [0] * N
    for s, x in zip(supp, parts):
        m["p0"][s] = x


def make_cases(rng, n_records, tier):
    """Returns cases; each is {"m": instance (with gw, allpols, pols), "rep": MDP representation}.
    The number of (instance, policy) records TLC will emit is about n_records."""
    cases, total, rejected = [], 0, 0
    while total < n_records:
        f = FAMS[len(cases) % len(FAMS)]
        n_na = min(rng.choice([1, 2, 2, 3, 3]), f["nmax"])
        n_abs = rng.choice([0, 1, 1, 2])
        K = rng.choice([1, 2, 2, 3])
        m = gen.rand_mdp(rng, n_na=n_na, n_abs=n_abs, K=K, PD=f["PD"], GN=f["GN"], GD=f["GD"],
                         rewards=f["rewards"], ID=rng.choice([2, 4]), init_on_abs=0.25,
                         p_implicit=0.12)
        rand_p0(rng, m)
        # ghost policy rows at explicitly absorbing states (on their ghost-available actions)
        m["gw"] = [list(rng.choice(rows_at(m, s))) if m["abs"][s] else [0] * K for s in range(m["N"])]
        count = 1
        for s in range(m["N"]):
            if not m["abs"][s]:
                count *= len(rows_at(m, s))
        if count <= 25:
            m["allpols"], m["pols"] = 1, []
            pols = all_policies(m)
        else:
            m["allpols"] = 0
            pols = []
            for style in ("any", "mixed", "any", "det", "uniform", "mixed"):
                p = rand_policy(rng, m, style)
                if p not in pols:
                    pols.append(p)
            m["pols"] = pols
        ex = [exact(m, p) for p in pols]
        if any(e is None or e["mag"] >= LIMIT for e in ex):
            rejected += 1
            continue
        rep = dict(MDP_REPS[rng.randrange(len(MDP_REPS))])
        if not rep["explicit_list"] and not gen.ghost_closed(m):
            rep["explicit_list"] = True      # ghost successors outside the inferred list: C06's business
        cases.append({"m": m, "rep": rep})
        total += len(pols)
    return cases, rejected


# --------------------------------------------------------------------------------------------
# running the real code
# --------------------------------------------------------------------------------------------
def policy_rows(b, wq, gw):
    """label-level policy: {state label: {action label: float prob}} for every state of the instance."""
    m = b.m
    rows = {}
    for s in range(m["N"]):
        src = gw[s] if m["abs"][s] else wq[s]
        rows[b.slabel[s]] = {b.alabel[a]: src[a] / QD for a in range(m["K"])}
    return rows


def make_policy(b, rows, prep, rng):
    from msdm.core.mdp import TabularPolicy
    from msdm.core.mdp.policy import FunctionalPolicy
    from msdm.core.distributions import DictDistribution
    mdp = b.mdp
    sl, al = list(mdp.state_list), list(mdp.action_list)
    if prep == "table":
        data = np.array([[rows[s][a] for a in al] for s in sl])
        return TabularPolicy.from_state_action_lists(state_list=sl, action_list=al, data=data)
    if prep == "table_perm":
        sl2, al2 = sl[:], al[:]
        rng.shuffle(sl2)
        rng.shuffle(al2)
        extra = ("not-a-state", 99)
        pos = rng.randrange(len(sl2) + 1)
        sl2.insert(pos, extra)
        data = np.array([[(1.0 if a == al2[0] else 0.0) if s == extra else rows[s][a] for a in al2] for s in sl2])
        return TabularPolicy.from_state_action_lists(state_list=sl2, action_list=al2, data=data)
    if prep == "functional_dict":
        pol = FunctionalPolicy(lambda s: {a: p for a, p in rows[s].items() if p > 0 and a in al})
        return pol.to_tabular(mdp.state_list, mdp.action_list)
    if prep == "functional_dist_perm":
        sl2, al2 = sl[:], al[:]
        rng.shuffle(sl2)
        rng.shuffle(al2)
        pol = FunctionalPolicy(lambda s: DictDistribution({a: rows[s][a] for a in al2}))
        return pol.to_tabular(sl2, al2)
    if prep == "from_dict":
        return TabularPolicy.from_dict({s: {a: rows[s][a] for a in al} for s in sl}, default_value=0)
    if prep == "from_dict_sparse":
        return TabularPolicy.from_dict({s: {a: rows[s][a] for a in al if rows[s][a] > 0} for s in sl}, default_value=0)
    raise ValueError(prep)


def run_real(case, wq, preps, tamper=None):
    """Evaluate the policy on the MDP of the case for each policy representation.
    Returns {prep: projection or {"error": ...}} in abstract indices."""
    m, rep = case["m"], case["rep"]
    mm = m
    if tamper == "instance":      # selftest: hand msdm a different reward
        mm = dict(m)
        mm["R"] = [[[x - 1 for x in row] for row in sa] for sa in m["R"]]
    out = {}
    for prep in preps:
        rng = random.Random(digest([case, wq, prep]))
        shape = {}
        try:
            b = build.build_mdp(mm, rng=rng, **rep)
            rows = policy_rows(b, wq, m["gw"])
            with warnings.catch_warnings():
                warnings.simplefilter("ignore")
                pol = make_policy(b, rows, prep, rng)
                sl, al = list(b.mdp.state_list), list(b.mdp.action_list)
                shape["subset_actions"] = set(pol.action_list) < set(al)
                if m["GN"] == m["GD"] and not shape["subset_actions"]:
                    # input-shape predicate for the signature: float row sums of the policy's chain
                    pmx = np.array([[rows[s][a] for a in al] for s in sl])
                    mp = np.einsum("san,sa->sn", b.mdp.transition_matrix, pmx)
                    shape["rowsum_lt1"] = [b.sidx(s) for s, x in zip(sl, mp.sum(-1)) if x < 1]
                r = pol.evaluate_on(b.mdp)
            o = project(b, r)
            o["shape"] = shape
            out[prep] = o
        except Exception as e:                       # noqa: BLE001 - judged as a clause failure
            out[prep] = {"error": f"{type(e).__name__}: {e}"[:300],
                         "shape": shape}
    return out


def project(b, r):
    sl = list(b.mdp.state_list)
    al = list(b.mdp.action_list)
    V, Q, O = {}, {}, {}
    for s_lab in sl:
        s = b.sidx(s_lab)
        V[s] = float(r.state_value[s_lab])
        O[s] = float(r.state_occupancy[s_lab])
        Q[s] = {b.aidx(a_lab): float(r.action_value[s_lab][a_lab]) for a_lab in al}
    return {"states": sorted(V), "actions": sorted(b.aidx(a) for a in al), "V": V, "Q": Q, "occ": O,
            "initial_value": float(r.initial_value)}


# --------------------------------------------------------------------------------------------
# judging
# --------------------------------------------------------------------------------------------
def close(x, ex):
    """float from msdm against the exact value emitted by TLC (Fraction / +-inf)."""
    if isinstance(ex, float):
        return x == ex
    if math.isnan(x) or math.isinf(x):
        return False
    e = float(ex)
    return abs(x - e) <= 1e-9 * max(1.0, abs(e))


WHAT = ("mc: oracle + evaluation machine over (instance, policy) pairs; all menu policies enumerated by TLC "
        "on instances with <= 25 of them")


def tlc_run(ctx, cases, tag="mc", coverage=False):
    """One TLC run over the batch (thread-safe: private work directory, nothing touched in ctx)."""
    batch = []
    for c in cases:
        rec = {k: c["m"][k] for k in ("N", "K", "PD", "GN", "GD", "ID", "abs", "avail", "P", "R", "p0",
                                      "gw", "allpols", "pols")}
        batch.append(rec)
    return run_tlc(ctx.workdir / tag, MODULE, CFG, files={"batch.json": batch},
                   env={"BATCH_FILE": "batch.json"}, coverage=coverage, workers=TLC_WORKERS)


def tlc_records(ctx, cases, what, res=None):
    if res is None:
        res = tlc_run(ctx, cases)
    ctx.add_tlc(res, what)
    bad = [v for v in res.violated if v in DESIGN_INVS]
    if bad:
        raise TLCFailure(f"design-level invariant violated in {MODULE}: {sorted(set(bad))}\n"
                         + (res.traces[0][:3000] if res.traces else ""))
    return res.records


def judge_cases(ctx, cases, *, tamper=None, tamper_at=0, preps=None, res=None):
    recs = tlc_records(ctx, cases, WHAT, res=res)
    expected = sum(len(all_policies(c["m"])) if c["m"]["allpols"] else len(c["m"]["pols"]) for c in cases)
    if len(recs) != expected:
        raise TLCFailure(f"TLC emitted {len(recs)} records, {expected} (instance, policy) pairs expected")
    recs.sort(key=lambda r: (r["iid"], r["w"]))
    for n, r in enumerate(recs):
        c = cases[r["iid"] - 1]
        judge_one(ctx, c, r, n, tamper=(tamper if n == tamper_at else None), preps=preps)


def crosscheck(m, wq, r):
    ex = exact(m, wq)
    if ex is None:
        raise TLCFailure("python oracle: singular system")
    N, K = m["N"], m["K"]
    for s in range(N):
        if not same(r["v"][s], ex["v"][s]):
            raise TLCFailure(f"TLA+ and Python oracles disagree on V[{s}]: {r['v'][s]} vs {ex['v'][s]} (m={m}, w={wq})")
        if not same(r["occ"][s], ex["occ"][s]):
            raise TLCFailure(f"TLA+ and Python oracles disagree on occ[{s}]: {r['occ'][s]} vs {ex['occ'][s]} (m={m}, w={wq})")
        for a in range(K):
            if not same(r["q"][s][a], ex["q"][s][a]):
                raise TLCFailure(f"TLA+ and Python oracles disagree on Q[{s}][{a}]: {r['q'][s][a]} vs {ex['q'][s][a]} (m={m}, w={wq})")
    if not same(r["init"], ex["init"]):
        raise TLCFailure(f"TLA+ and Python oracles disagree on the initial value: {r['init']} vs {ex['init']} (m={m}, w={wq})")
    return ex


def judge_one(ctx, c, r, n, *, tamper=None, preps=None):
    m = c["m"]
    wq = r["w"]
    N, K = m["N"], m["K"]
    disc = m["GN"] < m["GD"]
    if n % 3 == 0 or tamper:
        crosscheck(m, wq, r)
        ctx.count("oracle_crosschecks")
    v = [frac(x) for x in r["v"]]
    q = [[frac(x) for x in row] for row in r["q"]]
    mq = [[frac(x) for x in row] for row in r["mq"]]
    occ = [frac(x) for x in r["occ"]]
    init = frac(r["init"])
    absall = {s - 1 for s in r["absall"]}
    implabs = {s - 1 for s in r["implabs"]}
    rec = {s - 1 for s in r["rec"]}
    if preps is None:
        rng = random.Random(digest([m, wq]))
        preps = [DIRECT[rng.randrange(len(DIRECT))], CONVERTED[rng.randrange(len(CONVERTED))]]
    outs = run_real(c, wq, preps, tamper=("instance" if tamper == "instance" else None))
    ctx.evaluations += len(outs)
    if tamper == "value":
        o = next(o for o in outs.values() if "error" not in o)
        s = next((s for s in o["states"] if s not in absall), o["states"][0])
        o["V"][s] += 0.5
    site = SITE[disc]
    direct_failed = set()
    all_ok = True
    for prep in preps:
        o = outs[prep]
        ctx.count(f"runs[{prep}]")
        failed = []
        drifts = []      # reported only when every clause of the statement held on this run

        def fail(clause, what):
            failed.append(clause)
            shape = o.get("shape", {})
            bad_rows = [s for s in shape.get("rowsum_lt1", []) if s in rec]
            if shape.get("subset_actions"):
                sig = "C02:TabularPolicy.evaluate_on:policy-action-list-strict-subset"
            elif bad_rows:
                sig = f"C02:{site}:recurrent-row-float-sum-below-1"
                what += f" [float row sum of the chain < 1 at recurrent state(s) {bad_rows}]"
            elif prep in CONVERTED and clause in direct_failed:
                sig = f"C02:{site}:{clause}"
            elif prep in CONVERTED:
                conv = {"functional_dict": "Policy.to_tabular", "functional_dist_perm": "Policy.to_tabular",
                        "from_dict": "TabularPolicy.from_dict", "from_dict_sparse": "TabularPolicy.from_dict"}[prep]
                sig = f"C02:{conv}->{site}:{clause}"
            else:
                sig = f"C02:{site}:{clause}"
            ctx.violation(sig, f"{site} [{prep}] {clause}: {what}",
                          {"case": _single({"case": c, "w": wq}), "w": wq, "preps": [prep], "clause": clause})

        if "error" in o:
            fail("error", f"raised {o['error']}")
            all_ok = False
            if prep in DIRECT:
                direct_failed = set(failed)
            continue
        listed = o["states"]
        # --- clause: state values (absorbing states worth 0, -inf exactly on the oracle's set)
        for s in listed:
            if not close(o["V"][s], v[s]):
                kind = "absorbing-zero" if s in absall else ("neginf-set" if (isinstance(v[s], float) or math.isinf(o["V"][s])) else "state_value")
                fail(kind, f"state_value[{s}]={o['V'][s]} but exact {v[s]}")
                break
        # --- clause: action values (unavailable actions -inf); rows of explicitly absorbing states: DRIFT only
        done = False
        for s in listed:
            for a in o["actions"]:
                x = o["Q"][s][a]
                if m["abs"][s]:
                    e = mq[s][a] if mq[s][a] is not None else float("-inf")
                    if not close(x, e):
                        drifts.append(("ActionValue-at-absorbing-state",
                                       {"case": digest(c), "state": s, "action": a, "real": x, "machine": str(e)}))
                    continue
                e = q[s][a] if q[s][a] is not None else float("-inf")
                if not close(x, e):
                    kind = "unavailable-action" if q[s][a] is None else "action_value"
                    fail(kind, f"action_value[{s}][{a}]={x} but exact {e}")
                    done = True
                    break
            if done:
                break
        # --- clause: occupancies (implicitly absorbing states: DRIFT only)
        for s in listed:
            if not close(o["occ"][s], occ[s]):
                if s in implabs:
                    drifts.append(("Occupancy-at-implicitly-absorbing-state",
                                   {"case": digest(c), "state": s, "real": o["occ"][s], "machine": str(occ[s])}))
                    continue
                kind = "posinf-set" if (isinstance(occ[s], float) or math.isinf(o["occ"][s])) else "state_occupancy"
                fail(kind, f"state_occupancy[{s}]={o['occ'][s]} but exact {occ[s]}")
                break
        # --- clause: initial value
        if not close(o["initial_value"], init):
            fail("initial_value", f"initial_value={o['initial_value']} but exact {init}")
        if prep in DIRECT:
            direct_failed = set(failed)
        if failed:
            all_ok = False
        elif drifts:
            for step, detail in drifts[:1]:
                ctx.drift(step, detail)
        else:
            ctx.validated += 1
    # non-triviality: >= 2 listed non-absorbing states and the policy mixes two actions of different exact Q
    ok_out = next((o for o in outs.values() if "error" not in o), None)
    if ok_out is not None:
        na = [s for s in ok_out["states"] if s not in absall]
        mixes = any(len({str(q[s][a]) for a in range(K) if wq[s][a] > 0}) > 1 for s in na)
        if len(na) >= 2 and mixes:
            ctx.nontrivial(digest([{k: m[k] for k in ("N", "K", "PD", "GN", "GD", "ID", "abs", "avail", "P", "R", "p0")}, wq]))
        if not disc:
            if any(v[s] == float("-inf") for s in na):
                ctx.count("undiscounted_cases_with_neginf_state")
            if any(isinstance(v[s], F) and v[s] != 0 for s in na):
                ctx.count("undiscounted_cases_with_finite_nonzero_state")
            if any(occ[s] == float("inf") for s in na):
                ctx.count("undiscounted_cases_with_posinf_occupancy")
    ctx.sample({"instance": {k: m[k] for k in ("N", "K", "PD", "GN", "GD", "ID", "abs", "avail", "P", "R", "p0", "gw")},
                "policy_w_over_6": wq, "rep": c["rep"], "policy_reps": preps,
                "exact": {"v": [str(x) for x in v], "occ": [str(x) for x in occ], "init": str(init)},
                "real": {p: (o if "error" in o else {"V": o["V"], "occ": o["occ"], "initial_value": o["initial_value"]})
                         for p, o in outs.items()}})
    return all_ok


# --------------------------------------------------------------------------------------------
def run(ctx):
    rng = random.Random(ctx.seed * 7919 + 2)
    n = 2000 if ctx.tier == "quick" else 36000
    ctx.rule = ("(instance, policy) pairs: random members of MDPFam (1-3 non-absorbing + 0-2 explicitly absorbing states with "
                "ghost dynamics and ghost policy rows, implicit absorbing states, 1-3 state-dependent actions, gamma in "
                "{1/2,3/4,9/10,1}, PD in {2,4}, initial mass on absorbing states) x stochastic policies with weights in "
                "{0,1/3,1/2,2/3,1} (all of them, enumerated by TLC, when there are <= 25; 6 sampled otherwise) x 7 MDP "
                "representations x 6 policy representations; non-trivial = >= 2 listed non-absorbing states and a state "
                "where the policy mixes two actions of different exact action value")
    ctx.assumptions = [
        "TLC evaluates the TLA+ oracle correctly (cross-checked entry-wise against an independent Fraction "
        "implementation on every 3rd record)",
        "float results of the <= 5x5 linear solves are compared with 1e-9*max(1,|exact|) slack; +-inf must match exactly",
        "action values at explicitly absorbing states and occupancies at implicitly absorbing states are not fixed by "
        "the statement: compared against the reference machine only (DRIFT)"]
    cases, rejected = make_cases(rng, n, ctx.tier)
    if rejected:
        ctx.skip("instance rejected by the 32-bit magnitude filter of the TLA+ oracle", rejected)
    # TLC runs are pipelined (one at a time) with the judging of earlier chunks
    from concurrent.futures import ThreadPoolExecutor
    nchunks = max(2, round(len(cases) / 150))
    size = -(-len(cases) // nchunks)
    chunks = [cases[k:k + size] for k in range(0, len(cases), size)]
    with ThreadPoolExecutor(max_workers=1) as pool:
        # per-action coverage (slow) is collected on the first chunk of the thorough tier only
        futs = [pool.submit(tlc_run, ctx, ch, f"mc{i}", ctx.tier == "thorough" and i == 0)
                for i, ch in enumerate(chunks)]
        try:
            for ch, fut in zip(chunks, futs):
                judge_cases(ctx, ch, res=fut.result())
        finally:
            for fut in futs:
                fut.cancel()


def _single(case):
    m = dict(case["case"]["m"])
    m["allpols"], m["pols"] = 0, [case["w"]]
    return {"m": m, "rep": case["case"]["rep"]}


def replay(ctx, case):
    c = _single(case)
    recs = tlc_records(ctx, [c], "replay: one (instance, policy) pair")
    if len(recs) != 1:
        raise TLCFailure(f"replay: expected one record, got {len(recs)}")
    judge_one(ctx, c, recs[0], 0, preps=case.get("preps"))      # n = 0: the oracle cross-check runs too


def selftest(ctx):
    """Binding demonstration: (1) corrupt one value returned by the real code, (2) hand msdm an
    instance that differs from the one TLC evaluated; both must be reported, and the untouched
    cases must not be."""
    rng = random.Random(11)
    cases, _ = make_cases(rng, 60, "quick")
    # discounted cases only, so that nothing but the tampering can fail
    cases = [c for c in cases if c["m"]["GN"] < c["m"]["GD"]][:6]
    ok = True
    for tamper in ("value", "instance"):
        before = len(ctx.violations)
        judge_cases(ctx, cases, tamper=tamper, tamper_at=1, preps=["table_perm", "functional_dist_perm"])
        got = len(ctx.violations) - before
        print(f"  selftest tamper={tamper}: {got} failure(s) reported", flush=True)
        ok = ok and got >= 1
    before = len(ctx.violations)
    judge_cases(ctx, cases, preps=["table", "from_dict"])
    ok = ok and len(ctx.violations) == before
    return ok
