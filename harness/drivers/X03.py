"""X03 (extension) - assignment maps / sets and the nested-dictionary joins are faithful containers.

Three specifications over one model of nested assignments (spec/lib/Nested.tla: a value is a set of
<<path, leaf>> entries, so TLA+ set equality is structural equality of the python objects):

  spec/X03_AssignMap.tla   insertion-ordered association list keyed by structural equality; actions Set / Get /
        Del / Has / Upd / Mrg, modes plain / d0 / d1 (DefaultAssignmentMap with a 0- / 1-argument default);
        oracle = the map as a set of pairs (StepLaw, OrderLaw as action properties)
  spec/X03_AssignSet.tla   TLA+ set of nested values; actions Add / Rem / Has / Or / And / Sub (both operand
        orders) / Pop; SetLaw states the algebra elementwise
  spec/X03_DictJoin.tla    dict_match / dict_merge / natural_join: the recursion of the code (MatchRec /
        MergeRec / JoinSeq / JoinN) against the relational oracle on entries (Agree / MergeO / JoinO)

TLC explores every operation sequence of length <= L over the configured menus (and every ordered pair of
the 144 dictionaries of depth <= 2), checks the laws, and prints one record per reached state: the history
with the expected return value and the input shape of every call, and the expected final state.
Pipeline A: every record is replayed on a FRESH real object (keys presented as fresh python objects, in
two representations: normal / reversed dictionary insertion order, different argument classes), every
return value is compared, and the final state is projected - iteration first, then len, membership and
get for every key of the run, equality against the family - and compared.  Every prefix of a behaviour is
a behaviour of its own, so the state after each operation is compared.

Verdicts.  VIOLATION: a call returns / raises something else than the dict / set semantics of the statement,
or the projected state differs (signature X03:<method>:<input shape>/<deviation>).  DRIFT: iteration
order, class of merge results, row order / multiplicity / aliasing of natural_join results, default function
called by get().  Behaviours that extend a failed behaviour are skipped (the state already diverged).
"""
import copy
import json
import time
import warnings
from concurrent.futures import ThreadPoolExecutor

from ..tlc import run_tlc, TLCFailure

_POOL = ThreadPoolExecutor(max_workers=3)

MAP_CFG = """INIT Init
NEXT Next
CHECK_DEADLOCK FALSE
INVARIANT Emit
INVARIANT EmitUniverse
INVARIANT MapOK
INVARIANT ConfigOK
PROPERTY StepLaw
PROPERTY OrderLaw
"""
SET_CFG = """INIT Init
NEXT Next
CHECK_DEADLOCK FALSE
INVARIANT Emit
INVARIANT EmitUniverse
INVARIANT SetOK
INVARIANT ConfigOK
PROPERTY SetLaw
"""
DICT_CFG = """INIT Init
NEXT Next
CHECK_DEADLOCK FALSE
INVARIANT Emit
INVARIANT TypeOK
INVARIANT MatchIsAgreement
INVARIANT MergeIsRecursiveUnion
INVARIANT MergeOfMatchingIsUnion
INVARIANT MergeIdentity
INVARIANT JoinIsRelational
INVARIANT JoinIdentity
INVARIANT NaryIsFold
"""

RULE = ("containers: every operation sequence of length <= L (set / get / del / contains / update / merge; add / "
        "remove / contains / | & - in both operand orders / pop) over a universe of nested assignments of depth <= 2 "
        "(dictionaries differing at depth 1 / 2, two-key dictionaries, the empty dictionary, a list, str / int / tuple "
        "atoms, strings that are the json text of an unhashable key), from empty and pre-filled containers, in the "
        "modes AssignmentMap / DefaultAssignmentMap(0-ary) / DefaultAssignmentMap(1-ary), each replayed under two "
        "python representations; dictionaries: every ordered pair of the 144 (400) dictionaries of depth <= 2 over "
        "keys a, b / a, x and leaves 1, 2 (, [1]); merge chains of length <= 3; joins of <= 3 relations of <= 2 rows. "
        "non-trivial = a container behaviour with >= 2 calls of which one changes the container through an "
        "unhashable key / item; a dictionary pair sharing a top-level key; a merge chain of >= 2 steps; a join of "
        ">= 2 non-empty relations in which some rows conflict")

SENT = object()
_SINK = None
_SEED = 0


# --------------------------------------------------------------------------------------------
# abstract values <-> python objects
# --------------------------------------------------------------------------------------------
def leaf_obj(leaf):
    if leaf == "{}":
        return {}
    tag, body = leaf[:2], leaf[2:]
    if tag == "i:":
        return int(body)
    if tag == "s:":
        return body
    if tag == "l:":
        return json.loads(body)
    if tag == "t:":
        return tuple(json.loads(body))
    raise TLCFailure(f"unknown leaf {leaf!r}")


def decode(entries, rev=False):
    """entries [[path, leaf], ...] (as printed by TLC) -> a fresh python object; rev = reversed key order."""
    ents = sorted(((tuple(p), l) for p, l in entries), reverse=rev)
    if len(ents) == 1 and ents[0][0] == ():
        return leaf_obj(ents[0][1])
    root = {}
    for path, leaf in ents:
        d = root
        for k in path[:-1]:
            d = d.setdefault(k, {})
        d[path[-1]] = leaf_obj(leaf)
    return root


def leaf_str(x):
    if isinstance(x, bool):
        return "b:" + repr(x)
    if isinstance(x, int):
        return "i:%d" % x
    if isinstance(x, str):
        return "s:" + x
    try:
        if isinstance(x, list):
            return "l:" + json.dumps(x)
        if isinstance(x, tuple):
            return "t:" + json.dumps(list(x))
    except (TypeError, ValueError):
        pass
    return "?:" + repr(x)


def entries_of(obj, path=()):
    """type-aware structural form of a real object: the set of (path, leaf) entries of the model."""
    if type(obj) is dict:
        if not obj:
            return {(path, "{}")}
        out = set()
        for k, v in obj.items():
            if not isinstance(k, str):
                return {(path, "?:" + repr(obj))}
            out |= entries_of(v, path + (k,))
        return out
    return {(path, leaf_str(obj))}


def canon(obj):
    return frozenset(entries_of(obj))


def canon_entries(entries):
    return frozenset((tuple(p), l) for p, l in entries)


def show(entries):
    return repr(decode(entries))


class Universe:
    def __init__(self, meta):
        self.entries = meta["universe"]
        self.unhashable = meta["unhashable"]
        self.shadows = [tuple(p) for p in meta["shadows"]]
        self.index = {canon_entries(e): i + 1 for i, e in enumerate(self.entries)}
        if len(self.index) != len(self.entries):
            raise TLCFailure("universe with structurally equal members")
        for i, e in enumerate(self.entries):       # the two directions of the projection are inverse on it
            for rev in (False, True):
                if canon(decode(e, rev)) != canon_entries(e):
                    raise TLCFailure(f"projection is not inverse on universe member {i + 1}")

        # fresh objects at C speed: the json text of both presentations (atoms are immutable: shared)
        self._mk = {}
        for rev in (False, True):
            for i, e in enumerate(self.entries):
                obj = decode(e, rev)
                if isinstance(obj, (dict, list)) != self.unhashable[i]:
                    raise TLCFailure(f"universe member {i + 1}: the spec's Unhashable disagrees with python")
                if isinstance(obj, (dict, list)):
                    text = json.dumps(obj)
                    if canon(json.loads(text)) != canon_entries(e) or list(json.loads(text)) != list(obj):
                        raise TLCFailure(f"json round trip changes universe member {i + 1}")
                    self._mk[(i + 1, rev)] = text
                else:
                    self._mk[(i + 1, rev)] = obj

    def key(self, i, rev=False):
        m = self._mk[(i, rev)]
        return json.loads(m) if self.unhashable[i - 1] else m

    def idx(self, obj):
        """universe index of a real object, or a description of a foreign object."""
        try:
            return self.index.get(canon(obj), "foreign:" + repr(obj)[:60])
        except Exception as ex:                    # noqa: BLE001
            return "foreign:" + type(ex).__name__

    def partners(self, i):
        return {u for s, u in self.shadows if s == i} | {s for s, u in self.shadows if u == i}

    def twins_in(self, idxs):
        return any(s in idxs and u in idxs for s, u in self.shadows)


def call(f):
    try:
        return "ok", f()
    except KeyError:
        return "keyerr", None
    except Exception as ex:                        # noqa: BLE001
        return "exc:" + type(ex).__name__, None


def deviation(st, val, ret):
    """None if the real outcome (st, val) is the expected ret = {t, v}; else a short name of the deviation."""
    t, v = ret["t"], ret["v"]
    if st.startswith("exc:"):
        return "raises-" + st[4:]
    if t == "keyerr":
        return None if st == "keyerr" else "no-KeyError"
    if st == "keyerr":
        return "raises-KeyError"
    if t == "none":
        return None if val is None else "wrong-return"
    if t == "bool":
        return None if (val is True and v == 1) or (val is False and v == 0) else "wrong-return"
    if t == "val":
        return None if (type(val) is int and val == v) else "wrong-return"
    raise TLCFailure(f"unknown return kind {t}")


def ev_key(e):
    if e["op"] == "pop":
        return ("pop", e["ret"]["v"] if e["ret"]["t"] == "val" else 0)
    return (e["op"], e["k"], e.get("v", 0), e["o"])


# --------------------------------------------------------------------------------------------
# TLC
# --------------------------------------------------------------------------------------------
def tlc_container(ctx, module, cfg_text, cfg, tag):
    res = run_tlc(ctx.workdir / f"{module}_{tag}", module, cfg_text, files={"cfg.json": cfg},
                  env={"CFG_FILE": "cfg.json"}, heap="3g")
    if res.violated:
        raise TLCFailure(f"design-level property violated in {module}: {sorted(set(res.violated))}\n"
                         + (res.traces[0][:3000] if res.traces else ""))
    meta = [r for r in res.records if "universe" in r]
    recs = [r for r in res.records if "universe" not in r]
    if len(meta) != 1 or len(recs) != res.distinct:
        raise TLCFailure(f"{module}: {res.distinct} distinct states, {len(recs)} state records, {len(meta)} universe records")
    return res, Universe(meta[0]), recs


def tlc_dict(ctx, track, maxlen, size, dirs, tag):
    res = run_tlc(ctx.workdir / f"dict_{tag}", "X03_DictJoin", DICT_CFG,
                  env={"TRACK": track, "MAXLEN": str(maxlen), "SIZE": size, "DIRS": dirs}, heap="3g")
    if res.violated:
        raise TLCFailure(f"design-level invariant violated in X03_DictJoin: {sorted(set(res.violated))}\n"
                         + (res.traces[0][:3000] if res.traces else ""))
    recs = res.records
    # states with an empty history are emitted by the join track only
    silent = {"join": 0, "chain": 1, "pairs": {"small": 144, "large": 400}[size]}[track]
    if len(recs) != res.distinct - silent:
        raise TLCFailure(f"X03_DictJoin/{track}: {res.distinct} distinct states but {len(recs)} state records")
    return res, recs


# --------------------------------------------------------------------------------------------
# AssignmentMap / DefaultAssignmentMap
# --------------------------------------------------------------------------------------------
MAP_SITE = {"set": "AssignmentMap.__setitem__", "get": "AssignmentMap.__getitem__", "del": "AssignmentMap.__delitem__",
            "has": "AssignmentMap.__contains__", "upd": "AssignmentMap.update", "mrg": "AssignmentMap.merge"}
TWIN_MAP = "X03:AssignmentMap.encode_item:str-key-is-json-text-of-unhashable-key"
TWIN_SET = "X03:AssignmentSet.encode_item:str-item-is-json-text-of-unhashable-item"


class MapEnv:
    def __init__(self, uni, cfg, real_cfg=None):
        self.uni, self.cfg = uni, cfg
        self.real = real_cfg or cfg          # (selftest only) the family handed to the real code
        self.run_keys = sorted(set(cfg["keys"]) | {p[0] for o in cfg["others"] for p in o})

    def pairs(self, j, rev):
        return [(self.uni.key(k, rev), v) for k, v in self.real["others"][j - 1]]

    def other_keys(self, j):
        return [k for k, _ in self.cfg["others"][j - 1]]

    def other_items(self, j):
        d = {}
        for k, v in self.cfg["others"][j - 1]:
            d[k] = v
        return d

    def build_arg(self, j, variant):
        """the j-th map of the family as update / merge argument(s): list of positional mappings + kwargs."""
        from msdm.core.assignment import AssignmentMap, DefaultAssignmentMap
        raw = self.real["others"][j - 1]
        rev = variant == 1

        def mapping(chunk, alt):
            if alt and all(not self.uni.unhashable[k - 1] for k, _ in chunk):
                d = {}
                for k, v in chunk:
                    d[self.uni.key(k, rev)] = v
                return d
            if alt:
                return DefaultAssignmentMap(lambda: -1, [(self.uni.key(k, rev), v) for k, v in chunk])
            return AssignmentMap([(self.uni.key(k, rev), v) for k, v in chunk])
        if variant == 0 or not raw:
            return [mapping(raw, False)], {}
        # variant 1: several positional mappings; a trailing identifier-string key goes through **kwargs
        kw = {}
        body = list(raw)
        last_k = body[-1][0]
        lk = self.uni.key(last_k)
        if isinstance(lk, str) and lk.isidentifier() and all(k != last_k for k, _ in body[:-1]):
            kw[lk] = body[-1][1]
            body = body[:-1]
        h = (len(body) + 1) // 2
        parts = [mapping(c, True) for c in (body[:h], body[h:]) if c]
        return parts, kw


def project_map(env, am, calls, mut=None):
    """Observable state of a real map: iteration first (it must not depend on the lookups that follow)."""
    uni = env.uni
    out = {}
    st, items = call(lambda: list(am.items()))
    out["items"] = [(uni.idx(k), v) for k, v in items] if st == "ok" else st
    st, keys = call(lambda: list(am.keys()))
    out["keys"] = [uni.idx(k) for k in keys] if st == "ok" else st
    st, it = call(lambda: list(iter(am)))
    out["iter"] = [uni.idx(k) for k in it] if st == "ok" else st
    st, vals = call(lambda: list(am.values()))
    out["values"] = vals if st == "ok" else st
    st, n = call(lambda: len(am))
    out["len"] = n if st == "ok" else st
    n0 = len(calls)
    has, get = {}, {}
    for i in env.run_keys:
        st, r = call(lambda: uni.key(i) in am)
        has[i] = r if st == "ok" else st
        st, r = call(lambda: am.get(uni.key(i, True), SENT))
        get[i] = ("absent" if r is SENT else r) if st == "ok" else st
    out["has"], out["get"] = has, get
    out["get_calls_default"] = len(calls) > n0
    del calls[n0:]
    if mut:
        out = mut("projection", out)
    return out


def judge_map_projection(env, proj, exp_items):
    """list of (aspect, what, probe key or None) where the projection differs from the expected association list."""
    exp = dict(exp_items)
    order = [k for k, _ in exp_items]
    bad = []
    items = proj["items"]
    if not isinstance(items, list) or sorted(map(repr, items)) != sorted(map(repr, exp.items())):
        bad.append(("wrong-items", f"items() = {items!r}, expected {sorted(exp.items())!r}", None))
    for name in ("keys", "iter"):
        got = proj[name]
        if not isinstance(got, list) or sorted(map(repr, got)) != sorted(map(repr, order)):
            bad.append(("wrong-iteration", f"{name} = {got!r}, expected the keys {order!r}", None))
    vals = proj["values"]
    if not isinstance(vals, list) or sorted(map(repr, vals)) != sorted(map(repr, exp.values())):
        bad.append(("wrong-values", f"values() = {vals!r}, expected {sorted(exp.values())!r}", None))
    if proj["len"] != len(exp):
        bad.append(("wrong-len", f"len = {proj['len']!r}, expected {len(exp)}", None))
    for i in env.run_keys:
        if proj["has"][i] is not (i in exp):
            bad.append(("wrong-contains", f"(key {i} in map) = {proj['has'][i]!r}, expected {i in exp}", i))
        want = exp.get(i, "absent")
        if proj["get"][i] != want or type(proj["get"][i]) is not type(want):
            bad.append(("wrong-get", f"get(key {i}, default) = {proj['get'][i]!r}, expected {want!r}", i))
    return bad


def map_signature(env, rec, e, dev, probe=None, exp_items=()):
    """signature of a deviation at event e (None = initial state) of a behaviour."""
    uni = env.uni
    touched = set(env.other_keys(rec["init"])) if rec["init"] else set()
    for x in rec["hist"]:
        if x["k"]:
            touched.add(x["k"])
        if x["o"]:
            touched |= set(env.other_keys(x["o"]))
    if uni.twins_in(touched) or (probe is not None and uni.partners(probe) & {k for k, _ in exp_items}):
        return TWIN_MAP
    if e is None:
        site, shape = "AssignmentMap.__init__", ("from-pairs" if rec["init"] else "empty")
    else:
        site, shape = MAP_SITE[e["op"]], e["shape"]
        if e["op"] == "get" and rec["mode"] != "plain":
            site = "DefaultAssignmentMap.__getitem__"
    return f"X03:{site}:{shape}/{dev}"


def replay_map(ctx, env, rec, variant, prev_items, mut=None, drop=None):
    """Run one behaviour on a fresh real object.  Returns a list of (signature, what); empty = conforms.
    mut(kind, value) corrupts what the real code returned; drop = index of an event that is not executed."""
    from msdm.core.assignment import AssignmentMap, DefaultAssignmentMap
    uni, cfg = env.uni, env.cfg
    rev = variant == 1
    mode, init = rec["mode"], rec["init"]
    calls = []

    def f0():
        calls.append(SENT)
        return 0

    def f1(key):
        calls.append(key)
        i = uni.idx(key)
        return 100 + (i if isinstance(i, int) else -1)
    args = () if mode == "plain" else ((f0,) if mode == "d0" else (f1,))
    cls = AssignmentMap if mode == "plain" else DefaultAssignmentMap
    if init:
        pairs = env.pairs(init, rev)
        kw = {}
        if variant == 1 and isinstance(pairs[-1][0], str) and pairs[-1][0].isidentifier() \
                and all(canon(k) != canon(pairs[-1][0]) for k, _ in pairs[:-1]):
            kw = {pairs[-1][0]: pairs[-1][1]}          # a trailing identifier key goes through **kwargs
            pairs = pairs[:-1]
        st, am = call(lambda: cls(*args, pairs if variant == 0 else iter(pairs), **kw))
    else:
        st, am = call(lambda: cls(*args))
    ctx.evaluations += 1
    if st != "ok":
        return [(map_signature(env, rec, None, "raises-" + st.split(":")[-1]), f"constructor {st}")]
    fails = []
    for n, e in enumerate(rec["hist"]):
        if drop == n:
            continue
        op = e["op"]
        k = uni.key(e["k"], rev) if e["k"] else None
        before = len(calls)
        if op == "set":
            def f(k=k, v=e["v"]):
                am[k] = v
        elif op == "get":
            def f(k=k):
                return am[k]
        elif op == "del":
            def f(k=k):
                del am[k]
        elif op == "has":
            def f(k=k):
                return k in am
        elif op in ("upd", "mrg"):
            parts, kw = env.build_arg(e["o"], variant)
            if op == "upd":
                def f(parts=parts, kw=kw):
                    return am.update(*parts, **kw)
            else:
                def f(parts=parts, kw=kw):
                    return am.merge(*parts, **kw)
        else:
            raise TLCFailure(f"unknown map operation {op}")
        st, val = call(f)
        ctx.evaluations += 1
        if mut:
            st, val = mut(op, (st, val))
        if op == "mrg" and st == "ok":
            new, val = val, None
            if type(new) is not AssignmentMap:
                ctx.drift("merge-result-class", {"got": type(new).__name__})
            # (every prefix is replayed as a behaviour of its own: the receiver is inspected when merge is the last call)
            bad = judge_map_projection(env, project_map(env, am, calls), prev_items[n]) if n + 1 == len(rec["hist"]) else []
            if bad:
                fails.append((map_signature(env, rec, e, "mutates-receiver"), f"merge changed its receiver: {bad[0][1]}"))
                return fails
            am = new
        dev = deviation(st, val, e["ret"])
        ncalls = len(calls) - before
        if dev is None and ncalls != e["dcall"]:
            dev = f"default-function-called-{ncalls}-times"
        if dev is None and ncalls == 1 and mode == "d1" and uni.idx(calls[-1]) != e["k"]:
            dev = "default-function-got-another-key"
        if dev is not None:
            fails.append((map_signature(env, rec, e, dev),
                          f"{MAP_SITE[op]} step {n + 1} of {[ev_key(x) for x in rec['hist']]} (mode {mode}, init {init}, "
                          f"key {show(uni.entries[e['k'] - 1]) if e['k'] else '-'}): got {st} {val!r}, expected {e['ret']}"
                          f", default calls {ncalls} (expected {e['dcall']})"))
            return fails
    proj = project_map(env, am, calls, mut)
    exp_items = [tuple(p) for p in rec["items"]]
    last = rec["hist"][-1] if rec["hist"] else None
    ctx.evaluations += 5 + 2 * len(env.run_keys)
    seen = set()
    for aspect, what, probe in judge_map_projection(env, proj, exp_items):
        sig = map_signature(env, rec, last, aspect, probe, exp_items)
        if sig not in seen:
            seen.add(sig)
            fails.append((sig, f"after {[ev_key(x) for x in rec['hist']]} (mode {mode}, init {init}): {what}"))
    if isinstance(proj["items"], list) and not fails and [k for k, _ in proj["items"]] != [k for k, _ in exp_items]:
        ctx.drift("map-iteration-order", {"got": proj["items"], "expected": exp_items})
    if proj["get_calls_default"]:
        ctx.drift("get-calls-default-function", {"mode": mode})
    # equality: against every map of the family (spec: Fn(m) = Fn(other)) and a re-ordered copy of itself
    if not fails:
        for j, want in [(j, w) for j, w in enumerate(rec["eq"], 1) if w or (j + len(rec["hist"]) + variant) % 3 == 0]:
            o = AssignmentMap(env.pairs(j, not rev))
            st, r = call(lambda: am == o)
            st2, r2 = call(lambda: am != o)
            ctx.evaluations += 2
            if mut:
                st, r = mut("eq", (st, r))
            if st != "ok" or r is not want or st2 != "ok" or r2 is (want):
                shape = "equal-contents-distinct-objects" if want else "different-contents"
                fails.append((TWIN_MAP if uni.twins_in({k for k, _ in exp_items} | set(env.other_keys(j)))
                              else f"X03:AssignmentMap.__eq__:{shape}",
                              f"map with items {exp_items} == family map {j}: {st} {r!r} / != {st2} {r2!r}, expected {want}"))
                break
        if not fails:
            twin = AssignmentMap([(uni.key(k, not rev), v) for k, v in reversed(exp_items)])
            st, r = call(lambda: (am == twin, twin == am))
            ctx.evaluations += 2
            if st != "ok" or r != (True, True):
                fails.append(("X03:AssignmentMap.__eq__:equal-contents-distinct-objects",
                              f"map with items {exp_items} == copy built in reverse order: {st} {r!r}"))
            if not fails and all(not uni.unhashable[k - 1] for k, _ in exp_items):
                plain = {uni.key(k): v for k, v in exp_items}
                st, r = call(lambda: (am == plain, plain == am))
                ctx.evaluations += 2
                if st != "ok" or r != (True, True):
                    fails.append(("X03:AssignmentMap.__eq__:plain-dict-with-the-same-hashable-items",
                                  f"map with items {exp_items} == plain dict: {st} {r!r}"))
    return fails


def py_map_reference(env, rec):
    """Independent python reference (list of pairs) - cross-check of what TLC printed."""
    cfg = env.cfg
    al = []

    def put(k, v):
        for p in al:
            if p[0] == k:
                p[1] = v
                return
        al.append([k, v])
    if rec["init"]:
        for k, v in cfg["others"][rec["init"] - 1]:
            put(k, v)
    for e in rec["hist"]:
        op, k = e["op"], e["k"]
        present = [p for p in al if p[0] == k]
        if op == "set":
            put(k, e["v"])
            want = {"t": "none", "v": 0}
        elif op == "get":
            if present:
                want = {"t": "val", "v": present[0][1]}
            elif rec["mode"] == "plain":
                want = {"t": "keyerr", "v": 0}
            else:
                want = {"t": "val", "v": 0 if rec["mode"] == "d0" else 100 + k}
            if e["dcall"] != (0 if present or rec["mode"] == "plain" else 1):
                raise TLCFailure(f"oracle cross-check (map dcall) failed on {rec}")
        elif op == "del":
            want = {"t": "none" if present else "keyerr", "v": 0}
            al[:] = [p for p in al if p[0] != k]
        elif op == "has":
            want = {"t": "bool", "v": 1 if present else 0}
        else:
            for kk, v in cfg["others"][e["o"] - 1]:
                put(kk, v)
            want = {"t": "none", "v": 0}
        if e["ret"] != want:
            raise TLCFailure(f"oracle cross-check (map return) failed on {rec}: python says {want}")
    if [list(p) for p in rec["items"]] != al:
        raise TLCFailure(f"oracle cross-check (map items) failed on {rec}: python says {al}")
    for j, want in enumerate(rec["eq"], 1):
        if (env.other_items(j) == {k: v for k, v in al}) is not want:
            raise TLCFailure(f"oracle cross-check (map eq) failed on {rec}")


def rec_key_map(rec):
    return (rec["mode"], rec["init"], tuple(ev_key(e) for e in rec["hist"]))


def report(ctx, part, fails, case):
    """Turn the failures of one replay into verdicts; returns True iff nothing new (unknown) was found."""
    clean = True
    for f in fails:
        if _SINK is not None:               # binding self-test: failures are collected, not reported
            _SINK.append((f[0], f[1]))
            clean = False
        elif ctx.violation(f[0], f"[{part}] {f[1]}", case):
            clean = False
    return clean


def diverged(fails):
    """equality failures are observations: the container itself is still in the expected state."""
    return any(".__eq__:" not in f[0] for f in fails)


def pick(variants, thin, n, length, maxlen):
    """thin (quick tier): behaviours of maximal length are replayed under one of the representations, alternating
    (which one starts depends on the seed)."""
    return (variants[(n + _SEED) % len(variants)],) if thin and length == maxlen and maxlen > 1 else variants


def run_map(ctx, cfg, tag, variants=(0, 1), mut=None, drop=None, only=None, tlc=None, thin=False, real_cfg=None):
    res, uni, recs = tlc if tlc is not None else tlc_container(ctx, "X03_AssignMap", MAP_CFG, cfg, tag)
    ctx.add_tlc(res, f"AssignmentMap machine {tag}: all operation sequences of length <= {cfg['maxlen']} over keys "
                     f"{cfg['keys']} x values {cfg['vals']} x modes {cfg['modes']} x initial maps {cfg['inits']}")
    env = MapEnv(uni, cfg, real_cfg)
    by_key = {rec_key_map(r): r for r in recs}
    recs.sort(key=lambda r: len(r["hist"]))
    failed = set()
    for n, rec in enumerate(recs):
        key = rec_key_map(rec)
        if only is not None and key != only:
            continue
        if n % 7 == 0 or only is not None:
            py_map_reference(env, rec)
            ctx.count("oracle_crosschecks")
        prev_items = []
        for i in range(len(rec["hist"])):
            prev_items.append([tuple(p) for p in by_key[(key[0], key[1], key[2][:i])]["items"]])
        ran = False
        for variant in pick(variants, thin, n, len(rec["hist"]), cfg["maxlen"]):
            if only is None and (key[0], key[1], key[2][:-1], variant) in failed and rec["hist"]:
                failed.add((key[0], key[1], key[2], variant))
                ctx.skip("map behaviour extends a behaviour that already failed (state diverged)")
                continue
            ran = True
            fails = replay_map(ctx, env, rec, variant, prev_items, mut=mut, drop=drop)
            case = {"part": "map", "cfg": cfg, "key": [key[0], key[1], [list(x) for x in key[2]]], "variant": variant}
            if diverged(fails):
                failed.add((key[0], key[1], key[2], variant))
            if report(ctx, "map", fails, case):
                ctx.validated += 1
            ctx.count("map_behaviours")
        changing = [e for e in rec["hist"] if e["op"] in ("set", "del", "upd", "mrg")
                    and (e["shape"].startswith("unhashable") or e["shape"] == "argument-with-unhashable-keys")]
        if ran and len(rec["hist"]) >= 2 and changing:
            ctx.nontrivial("map" + repr(key))
        if len(rec["hist"]) == cfg["maxlen"] and n % 997 == 0:
            ctx.sample({"part": "map", "mode": rec["mode"], "init": rec["init"],
                        "calls": [{"op": e["op"], "key": show(uni.entries[e["k"] - 1]) if e["k"] else None, "value": e["v"],
                                   "arg": e["o"], "expected": e["ret"]} for e in rec["hist"]],
                        "expected_items": [[show(uni.entries[k - 1]), v] for k, v in rec["items"]]})


# --------------------------------------------------------------------------------------------
# AssignmentSet
# --------------------------------------------------------------------------------------------
SET_SITE = {"add": "AssignmentSet.add", "rem": "AssignmentSet.remove", "has": "AssignmentSet.__contains__",
            "or": "AssignmentSet.__or__", "ror": "AssignmentSet.__or__", "and": "AssignmentSet.__and__",
            "rand": "AssignmentSet.__and__", "sub": "AssignmentSet.__sub__", "rsub": "AssignmentSet.__sub__",
            "pop": "AssignmentSet.pop"}


class SetEnv:
    def __init__(self, uni, cfg):
        self.uni, self.cfg = uni, cfg
        self.run_keys = sorted(set(cfg["keys"]) | {k for o in cfg["others"] for k in o})

    def build(self, members, variant):
        from msdm.core.assignment import AssignmentSet
        if variant == 0:
            return AssignmentSet([self.uni.key(k) for k in members])
        s = AssignmentSet()
        for k in reversed(members):
            s.add(self.uni.key(k, True))
        return s


def project_set(env, s, mut=None):
    uni = env.uni
    out = {}
    st, it = call(lambda: list(iter(s)))
    out["iter"] = [uni.idx(x) for x in it] if st == "ok" else st
    st, n = call(lambda: len(s))
    out["len"] = n if st == "ok" else st
    has = {}
    for i in env.run_keys:
        st, r = call(lambda: uni.key(i, i % 2 == 0) in s)
        has[i] = r if st == "ok" else st
    out["has"] = has
    if mut:
        out = mut("projection", out)
    return out


def judge_set_projection(env, proj, members):
    want = sorted(members)
    bad = []
    it = proj["iter"]
    if not isinstance(it, list) or sorted(map(repr, it)) != sorted(map(repr, want)):
        bad.append(("wrong-iteration", f"iteration yields {it!r}, expected the items {want}", None))
    if proj["len"] != len(want):
        bad.append(("wrong-len", f"len = {proj['len']!r}, expected {len(want)}", None))
    for i in env.run_keys:
        if proj["has"][i] is not (i in members):
            bad.append(("wrong-contains", f"(item {i} in set) = {proj['has'][i]!r}, expected {i in members}", i))
    return bad


def set_signature(env, init, hist, e, dev, probe=None, members=()):
    uni = env.uni
    touched = set(env.cfg["others"][init - 1]) if init else set()
    for x in hist:
        if x["k"]:
            touched.add(x["k"])
        if x["o"]:
            touched |= set(env.cfg["others"][x["o"] - 1])
        if x["op"] == "pop" and x["ret"]["t"] == "val":
            touched.add(x["ret"]["v"])
    if uni.twins_in(touched) or (probe is not None and uni.partners(probe) & set(members)):
        return TWIN_SET
    if e is None:
        return f"X03:AssignmentSet.__init__:{'from-items' if init else 'empty'}/{dev}"
    return f"X03:{SET_SITE[e['op']]}:{e['shape']}/{dev}"


def replay_set(ctx, env, by_key, init, script, variant, mut=None, drop=None):
    """Run one script (operations, pop choices left open) on a fresh real set, following the branch of the
    state graph that the real pop() calls select.  Returns (fails, final record or None)."""
    from msdm.core.assignment import AssignmentSet
    uni, cfg = env.uni, env.cfg
    rev = variant == 1
    st, s = call(lambda: env.build(cfg["others"][init - 1], variant) if init else AssignmentSet())
    ctx.evaluations += 1
    cur = (init, ())
    if st != "ok":
        return [(set_signature(env, init, [], None, "raises-" + st.split(":")[-1]), f"constructor {st}")], None
    hist = []
    for n, sk in enumerate(script):
        op = sk[0]
        members = by_key[cur]["items"]
        if drop == n:
            cur_next = (cur[0], cur[1] + (sk,))
            if cur_next in by_key:
                cur = cur_next
                hist = by_key[cur]["hist"]
            continue
        if op == "pop":
            st, val = call(lambda: s.pop())
            ctx.evaluations += 1
            if mut:
                st, val = mut(op, (st, val))
            shape = "empty" if not members else "nonempty"
            e0 = {"op": "pop", "shape": shape, "k": 0, "o": 0, "ret": {"t": "keyerr", "v": 0}}
            if not members:
                if st != "keyerr":
                    return [(set_signature(env, init, hist, e0, "no-KeyError" if st == "ok" else "raises-" + st[4:]),
                             f"pop() on the empty set after {list(cur[1])}: {st} {val!r}")], None
                got = 0
            else:
                got = uni.idx(val) if st == "ok" else st
                if got not in members:
                    dev = "returned-non-member" if st == "ok" else ("raises-KeyError" if st == "keyerr" else "raises-" + st[4:])
                    return [(TWIN_SET if uni.twins_in(set(members)) else f"X03:AssignmentSet.pop:{shape}/{dev}",
                             f"pop() after {list(cur[1])} on a set with items {members}: {st} {val!r} -> {got!r}")], None
            cur = (init, cur[1] + (("pop", got),))
            hist = by_key[cur]["hist"]
            continue
        cur = (init, cur[1] + (sk,))
        rec = by_key[cur]
        hist = rec["hist"]
        e = hist[-1]
        x = uni.key(e["k"], rev) if e["k"] else None
        o = env.build(cfg["others"][e["o"] - 1], 1 - variant) if e["o"] else None
        if op == "add":
            st, val = call(lambda: s.add(x))
        elif op == "rem":
            st, val = call(lambda: s.remove(x))
        elif op == "has":
            st, val = call(lambda: x in s)
        elif op in ("or", "and", "sub", "ror", "rand", "rsub"):
            fn = {"or": lambda a, b: a | b, "and": lambda a, b: a & b,
                  "sub": lambda a, b: a - b}[{"ror": "or", "rand": "and", "rsub": "sub"}.get(op, op)]
            left, right = (s, o) if not op.startswith("r") else (o, s)
            st, val = call(lambda: fn(left, right))
        else:
            raise TLCFailure(f"unknown set operation {op}")
        ctx.evaluations += 1
        if mut:
            st, val = mut(op, (st, val))
        if o is not None and st == "ok":
            new, val = val, None
            if type(new) is not AssignmentSet:
                return [(set_signature(env, init, hist, e, "result-is-not-an-AssignmentSet"),
                         f"{op} after {list(cur[1][:-1])} returned a {type(new).__name__}")], None
            # (every prefix is replayed as a behaviour of its own: the operands are inspected when this is the last call)
            for name, obj, want in ((("receiver", s, members), ("argument", o, cfg["others"][e["o"] - 1]))
                                    if n + 1 == len(script) else ()):
                bad = judge_set_projection(env, project_set(env, obj), want)
                if bad:
                    return [(set_signature(env, init, hist, e, "mutates-operand", bad[0][2], want),
                             f"{op} after {list(cur[1][:-1])} changed its {name}: {bad[0][1]}")], None
            s = new
        dev = deviation(st, val, e["ret"])
        if dev is not None:
            return [(set_signature(env, init, hist, e, dev),
                     f"{SET_SITE[op]} step {n + 1} of {list(cur[1])} (init {init}, item "
                     f"{show(uni.entries[e['k'] - 1]) if e['k'] else '-'}): got {st} {val!r}, expected {e['ret']}")], None
    rec = by_key[cur]
    members = rec["items"]
    proj = project_set(env, s, mut)
    ctx.evaluations += 2 + len(env.run_keys)
    last = rec["hist"][-1] if rec["hist"] else None
    fails, seen = [], set()
    for aspect, what, probe in judge_set_projection(env, proj, members):
        sig = set_signature(env, init, rec["hist"], last, aspect, probe, members)
        if sig not in seen:
            seen.add(sig)
            fails.append((sig, f"after {list(cur[1])} (init {init}): {what}"))
    if not fails:
        # equality with the family (spec: s = Other(j)) and with a copy built in another order
        tw = uni.twins_in(set(members))
        js = [(j, w) for j, w in enumerate(rec["eq"], 1) if w or (j + len(cur[1]) + variant) % 3 == 0] + [(0, True)]
        for j, want in js:
            o = env.build(cfg["others"][j - 1] if j else sorted(members), 1 - variant)
            st, r = call(lambda: (s == o, s != o))
            ctx.evaluations += 2
            if mut:
                st, r = mut("eq", (st, r))
            if st != "ok" or r != (want, not want):
                shape = "equal-contents-distinct-objects" if want else "different-contents"
                fails.append((TWIN_SET if tw else f"X03:AssignmentSet.__eq__:{shape}",
                              f"set with items {sorted(members)} == {'family set %d' % j if j else 'copy built in another order'}"
                              f" -> (==, !=) = {r!r} ({st}), expected {(want, not want)}"))
                break
    return fails, rec


def py_set_reference(env, rec):
    cfg = env.cfg
    s = set(cfg["others"][rec["init"] - 1]) if rec["init"] else set()
    for e in rec["hist"]:
        op, k = e["op"], e["k"]
        o = set(cfg["others"][e["o"] - 1]) if e["o"] else None
        want = {"t": "none", "v": 0}
        if op == "add":
            s = s | {k}
        elif op == "rem":
            if k not in s:
                want = {"t": "keyerr", "v": 0}
            s = s - {k}
        elif op == "has":
            want = {"t": "bool", "v": 1 if k in s else 0}
        elif op == "pop":
            if not s:
                want = {"t": "keyerr", "v": 0}
            else:
                want = e["ret"]
                if e["ret"]["t"] != "val" or e["ret"]["v"] not in s:
                    raise TLCFailure(f"oracle cross-check (set pop) failed on {rec}")
                s = s - {e["ret"]["v"]}
        else:
            s = {"or": s | o, "ror": o | s, "and": s & o, "rand": o & s, "sub": s - o, "rsub": o - s}[op]
        if e["ret"] != want:
            raise TLCFailure(f"oracle cross-check (set return) failed on {rec}: python says {want}")
    if sorted(rec["items"]) != sorted(s):
        raise TLCFailure(f"oracle cross-check (set items) failed on {rec}: python says {sorted(s)}")
    for j, want in enumerate(rec["eq"], 1):
        if (set(cfg["others"][j - 1]) == s) is not want:
            raise TLCFailure(f"oracle cross-check (set eq) failed on {rec}")


def run_set(ctx, cfg, tag, variants=(0, 1), mut=None, drop=None, only=None, tlc=None, thin=False):
    res, uni, recs = tlc if tlc is not None else tlc_container(ctx, "X03_AssignSet", SET_CFG, cfg, tag)
    ctx.add_tlc(res, f"AssignmentSet machine {tag}: all operation sequences of length <= {cfg['maxlen']} over items "
                     f"{cfg['keys']}, binary operations {cfg['binops']} with family sets {cfg['bin']}, pop={cfg['pop']}, "
                     f"initial sets {cfg['inits']}")
    env = SetEnv(uni, cfg)
    by_key = {(r["init"], tuple(ev_key(e) for e in r["hist"])): r for r in recs}
    scripts = {}
    for n, r in enumerate(recs):
        if n % 7 == 0:
            py_set_reference(env, r)
            ctx.count("oracle_crosschecks")
        sk = tuple(("pop",) if e["op"] == "pop" else ev_key(e) for e in r["hist"])
        scripts.setdefault((r["init"], sk), []).append(r)
    failed = set()
    reached = set()
    for n, (init, script) in enumerate(sorted(scripts, key=lambda x: (len(x[1]), x))):
        if only is not None and (init, script) != only:
            continue
        ran = False
        for variant in pick(variants, thin, n, len(script), cfg["maxlen"]):
            if only is None and script and (init, script[:-1], variant) in failed:
                failed.add((init, script, variant))
                ctx.skip("set behaviour extends a behaviour that already failed (state diverged)")
                continue
            ran = True
            fails, rec = replay_set(ctx, env, by_key, init, script, variant, mut=mut, drop=drop)
            case = {"part": "set", "cfg": cfg, "key": [init, [list(x) for x in script]], "variant": variant}
            if diverged(fails):
                failed.add((init, script, variant))
            if report(ctx, "set", fails, case):
                ctx.validated += 1
            if rec is not None:
                reached.add((rec["init"], tuple(ev_key(e) for e in rec["hist"])))
            ctx.count("set_behaviours")
        rep = scripts[(init, script)][0]
        changing = [e for e in rep["hist"] if e["op"] != "has" and "unhashable" in e["shape"]]
        if ran and len(script) >= 2 and changing:
            ctx.nontrivial("set" + repr((init, script)))
        if len(script) == cfg["maxlen"] and n % 499 == 0:
            ctx.sample({"part": "set", "init": [show(uni.entries[k - 1]) for k in cfg["others"][init - 1]] if init else [],
                        "calls": [{"op": e["op"], "item": show(uni.entries[e["k"] - 1]) if e["k"] else None,
                                   "other": [show(uni.entries[k - 1]) for k in cfg["others"][e["o"] - 1]] if e["o"] else None,
                                   "expected": e["ret"]} for e in rep["hist"]],
                        "expected_items": [show(uni.entries[k - 1]) for k in rep["items"]]})
    ctx.count("set_states_not_reached_by_the_real_pop_order", len(by_key) - len(reached) if only is None else 0)


# --------------------------------------------------------------------------------------------
# dict_match / dict_merge / natural_join
# --------------------------------------------------------------------------------------------
def py_match(l, r):
    for k in l:
        if k in r:
            a, b = l[k], r[k]
            if type(a) is dict and type(b) is dict:
                if not py_match(a, b):
                    return False
            elif canon(a) != canon(b):
                return False
    return True


def py_merge(l, r):
    out = {}
    for k in l:
        if k in r and type(l[k]) is dict and type(r[k]) is dict:
            out[k] = py_merge(l[k], r[k])
        elif k in r:
            out[k] = copy.deepcopy(r[k])
        else:
            out[k] = copy.deepcopy(l[k])
    for k in r:
        if k not in l:
            out[k] = copy.deepcopy(r[k])
    return out


def mutable_ids(obj, acc=None):
    acc = set() if acc is None else acc
    if isinstance(obj, dict):
        acc.add(id(obj))
        for v in obj.values():
            mutable_ids(v, acc)
    elif isinstance(obj, list):
        acc.add(id(obj))
        for v in obj:
            mutable_ids(v, acc)
    return acc


def scramble(obj):
    """mutate every mutable part of obj in place (to expose sharing with other objects)."""
    if isinstance(obj, dict):
        for v in list(obj.values()):
            scramble(v)
        obj["__scrambled__"] = 1
    elif isinstance(obj, list):
        for v in obj:
            scramble(v)
        obj.append("__scrambled__")


def replay_merge(ctx, rec, variant, mut=None, drop=None):
    from msdm.core.utils.dictutils import dict_match, dict_merge
    rev = variant == 1
    cur = decode(rec["start"], rev)
    fails = []
    nh = len(rec["hist"])
    for n, e in enumerate(rec["hist"]):
        if drop == n:
            continue
        d = decode(e["d"], not rev)
        snap_cur, snap_d = canon(cur), canon(d)
        for name, a, b, want in (("dict_match(cur, d)", cur, d, e["m1"]), ("dict_match(d, cur)", d, cur, e["m2"])):
            st, r = call(lambda: dict_match(a, b))
            ctx.evaluations += 1
            if mut:
                st, r = mut("match", (st, r))
            if st != "ok" or r is not want:
                fails.append((f"X03:dict_match:{e['shape']}/" + ("wrong-answer" if st == "ok" else "raises-" + st.split(":")[-1]),
                              f"{name} with cur = {cur!r}, d = {d!r}: {st} {r!r}, expected {want}"))
                return fails
        left, right = (cur, d) if e["op"] == "mergeR" else (d, cur)
        st, res = call(lambda: dict_merge(left, right))
        ctx.evaluations += 1
        if mut:
            st, res = mut("merge", (st, res))
        if st != "ok":
            fails.append((f"X03:dict_merge:{e['shape']}/raises-" + st.split(":")[-1], f"dict_merge({left!r}, {right!r}): {st}"))
            return fails
        if canon(cur) != snap_cur or canon(d) != snap_d:
            fails.append((f"X03:dict_merge:{e['shape']}/mutates-argument",
                          f"dict_merge changed an argument: now {left!r}, {right!r}"))
            return fails
        if mutable_ids(res) & (mutable_ids(left) | mutable_ids(right)):
            fails.append((f"X03:dict_merge:{e['shape']}/aliases-argument",
                          f"the result of dict_merge({left!r}, {right!r}) shares a mutable object with an argument"))
            return fails
        if n + 1 == nh:
            if canon(res) != canon_entries(rec["cur"]):
                fails.append((f"X03:dict_merge:{e['shape']}/wrong-result",
                              f"dict_merge({left!r}, {right!r}) = {res!r}, expected {show(rec['cur'])}"))
                return fails
            keep = copy.deepcopy(res)
            scramble(res)
            if canon(cur) != snap_cur or canon(d) != snap_d:
                fails.append((f"X03:dict_merge:{e['shape']}/aliases-argument",
                              f"mutating the result of dict_merge changed an argument: now {left!r}, {right!r}"))
                return fails
            res = keep
        cur = res
    return fails


def replay_join(ctx, rec, variant, mut=None, drop=None):
    from msdm.core.utils.dictutils import natural_join
    rev = variant == 1
    acc = [{}]
    shape = rec["shape"]

    def rel(R, flip=False):
        return [decode(x, rev != flip) for x in R]

    def judge(name, got, want_entries, args):
        got_c = [canon(x) for x in got]
        want_c = [canon_entries(x) for x in want_entries]
        if set(got_c) != set(want_c) or any(type(x) is not dict for x in got):
            return [(f"X03:natural_join:{shape}/wrong-rows",
                     f"{name} = {got!r}, expected the rows {[decode(x) for x in want_entries]!r}")]
        if got_c != want_c:
            ctx.drift("natural_join-row-order-or-multiplicity", {"call": name, "got": repr(got)[:120]})
        ids = set()
        for a in args:
            for row in a:
                mutable_ids(row, ids)
        if any(mutable_ids(x) & ids for x in got):
            ctx.drift("natural_join-result-aliases-input-row", {"call": name})
        return []
    for n, e in enumerate(rec["hist"]):
        if drop == n:
            continue
        R = rel(e["R"], flip=True)
        args = (acc, R) if e["op"] == "joinR" else (R, acc)
        snap = [[canon(x) for x in a] for a in args]
        st, out = call(lambda: list(natural_join(*args)))
        ctx.evaluations += 1
        if st != "ok":
            return [(f"X03:natural_join:{shape}/raises-" + st.split(":")[-1], f"natural_join({args[0]!r}, {args[1]!r}): {st}")]
        if [[canon(x) for x in a] for a in args] != snap:
            ctx.drift("natural_join-mutates-input", {"args": repr(args)[:120]})
        acc = out
    if mut:
        acc = mut("join", acc)
    fails = judge("fold of binary natural_join calls over " + repr([rel(e["R"]) for e in rec["hist"]]), acc, rec["acc"], ())
    if fails:
        return fails
    rels = [rel(R) for R in rec["rels"]]
    if variant == 1:
        rels = [tuple(R) for R in rels]            # any iterable of rows is a relation
    if drop is not None and rels:
        rels = rels[:-1]
    st, out = call(lambda: list(natural_join(*rels)))
    ctx.evaluations += 1
    if st != "ok":
        return [(f"X03:natural_join:{shape}/raises-" + st.split(":")[-1], f"natural_join(*{rels!r}): {st}")]
    return judge(f"natural_join(*{rels!r})", out, rec["nary"], rels)


def py_dict_reference(rec):
    if rec["track"] == "join":
        acc = [{}]
        for e in rec["hist"]:
            R = [decode(x) for x in e["R"]]
            pairs = [(a, b) for a in acc for b in R] if e["op"] == "joinR" else [(b, a) for b in R for a in acc]
            acc = [py_merge(a, b) for a, b in pairs if py_match(a, b)]
        if [canon(x) for x in acc] != [canon_entries(x) for x in rec["acc"]]:
            raise TLCFailure(f"oracle cross-check (join) failed: python says {acc}, TLC {[decode(x) for x in rec['acc']]}")
        if [canon_entries(x) for x in rec["nary"]] != [canon_entries(x) for x in rec["acc"]]:
            raise TLCFailure("oracle cross-check (join): n-ary result differs from the fold")
        return
    cur = decode(rec["start"])
    for e in rec["hist"]:
        d = decode(e["d"])
        if py_match(cur, d) is not e["m1"] or py_match(d, cur) is not e["m2"]:
            raise TLCFailure(f"oracle cross-check (match) failed on cur={cur} d={d}")
        cur = py_merge(cur, d) if e["op"] == "mergeR" else py_merge(d, cur)
    if canon(cur) != canon_entries(rec["cur"]):
        raise TLCFailure(f"oracle cross-check (merge) failed: python says {cur}, TLC {decode(rec['cur'])}")


def dict_key(rec):
    if rec["track"] == "join":
        return json.dumps([[e["op"], [sorted(x) for x in e["R"]]] for e in rec["hist"]])
    return json.dumps([sorted(rec["start"]), [[e["op"], sorted(e["d"])] for e in rec["hist"]]])


def run_dict(ctx, track, maxlen, size, dirs, tag, variants=(0, 1), mut=None, drop=None, only=None, tlc=None, thin=False):
    res, recs = tlc if tlc is not None else tlc_dict(ctx, track, maxlen, size, dirs, tag)
    ctx.add_tlc(res, f"dictionary helpers, track {track} ({size}, length <= {maxlen}, directions {dirs})")
    recs.sort(key=lambda r: len(r["hist"]))
    failed = set()
    for n, rec in enumerate(recs):
        key = dict_key(rec)
        if only is not None and key != only:
            continue
        if n % 5 == 0 or only is not None:
            py_dict_reference(rec)
            ctx.count("oracle_crosschecks")
        prefix = dict_key(dict(rec, hist=rec["hist"][:-1])) if rec["hist"] else None
        ran = False
        for variant in pick(variants, thin, n, len(rec["hist"]), maxlen):
            if only is None and track != "pairs" and prefix is not None and (prefix, variant) in failed:
                failed.add((key, variant))
                ctx.skip("dictionary behaviour extends a behaviour that already failed")
                continue
            ran = True
            fails = (replay_join if track == "join" else replay_merge)(ctx, rec, variant, mut=mut, drop=drop)
            case = {"part": "dict", "track": track, "maxlen": maxlen, "size": size, "dirs": dirs, "key": key, "variant": variant}
            if fails:
                failed.add((key, variant))
            if report(ctx, track, fails, case):
                ctx.validated += 1
            ctx.count(f"{track}_behaviours")
        if not ran:
            continue
        if track == "join":
            if len([R for R in rec["rels"] if R]) >= 2 and "conflict" in rec["shape"]:
                ctx.nontrivial("join" + key)
        elif track == "pairs":
            if rec["hist"][0]["shape"] != "no-shared-top-key":
                ctx.nontrivial("pair" + key)
        elif len(rec["hist"]) >= 2:
            ctx.nontrivial("chain" + key)
        if n % 3989 == 1:
            if track == "join":
                ctx.sample({"part": "natural_join", "relations": [[decode(x) for x in R] for R in rec["rels"]],
                            "expected_rows": [decode(x) for x in rec["nary"]], "shape": rec["shape"]})
            else:
                ctx.sample({"part": "dict_match/dict_merge", "start": decode(rec["start"]),
                            "steps": [{"op": e["op"], "d": decode(e["d"]), "match": [e["m1"], e["m2"]], "shape": e["shape"]}
                                      for e in rec["hist"]], "expected": decode(rec["cur"])})


# --------------------------------------------------------------------------------------------
# what the tree does on inputs the statement does not cover (recorded in the evidence, never a verdict)
# --------------------------------------------------------------------------------------------
def probe_unspecified(ctx):
    from msdm.core.assignment import AssignmentMap, DefaultAssignmentMap, AssignmentSet

    def outcome(f):
        st, r = call(f)
        return st if st != "ok" else repr(r)[:60]

    def aliasing():
        k = {"a": 1}
        m = AssignmentMap()
        m[k] = 1
        k["a"] = 2
        return list(m.keys())

    class C:
        def dv(self, key):
            return key
    probes = {
        "AssignmentMap(mapping {'ab': 1})": lambda: AssignmentMap({"ab": 1}),
        "AssignmentMap.update(list of pairs)": lambda: AssignmentMap().update([("x", 1)]),
        "AssignmentMap.pop(dict key)": lambda: AssignmentMap([({"a": 1}, 1)]).pop({"a": 1}),
        "AssignmentMap.setdefault(dict key)": lambda: AssignmentMap().setdefault({"a": 1}, 1),
        "AssignmentMap.copy() with a dict key": lambda: AssignmentMap([({"a": 1}, 1)]).copy(),
        "keys() after mutating an inserted key object": aliasing,
        "int-keyed vs str-keyed inner dict {1:'x'} / {'1':'x'}": lambda: {"1": "x"} in AssignmentMap([({1: "x"}, 1)]),
        "tuple vs list value {'a':(1,2)} / {'a':[1,2]}": lambda: {"a": [1, 2]} in AssignmentMap([({"a": (1, 2)}, 1)]),
        "{'a': True} vs {'a': 1}": lambda: {"a": 1} in AssignmentMap([({"a": True}, 1)]),
        "DefaultAssignmentMap(int)['x']": lambda: DefaultAssignmentMap(int)["x"],
        "DefaultAssignmentMap(bound method taking the key)['x']": lambda: DefaultAssignmentMap(C().dv)["x"],
        "DefaultAssignmentMap.merge class": lambda: type(DefaultAssignmentMap(lambda: 0).merge({"a": 1})).__name__,
        "AssignmentSet.discard": lambda: AssignmentSet([1]).discard(1),
        "AssignmentSet <= AssignmentSet": lambda: AssignmentSet([1]) <= AssignmentSet([1, 2]),
    }
    ctx.extra["unspecified_inputs_observed"] = {name: outcome(f) for name, f in probes.items()}


# --------------------------------------------------------------------------------------------
# tiers
# --------------------------------------------------------------------------------------------
# universe indices (spec/X03_Keys.tla): 1 {"a":1}  2 {"a":2}  3 {"a":1,"b":2}  4 {"a":{"x":1,"y":2},"b":2}
# 5 {"a":{"x":2,"y":2},"b":2}  6 {}  7 [1,2]  8 "a"  9 1  10 (1,2)  11 '{"a": 1}'  12 '[1, 2]'  13 {"a":[1,2],"b":{}}
MAP_OTHERS = [[[1, 2], [8, 1]], [[4, 1], [3, 2], [4, 2]], [], [[8, 2], [10, 1]], [[5, 1], [7, 2], [13, 1]], [[3, 2]]]
SET_OTHERS = [[1, 8], [4, 3, 1], [], [8, 10], [5, 7, 13], [3, 4]]
ALL_BIN = ["or", "and", "sub", "ror", "rand", "rsub"]


def plans(tier):
    if tier == "quick":
        maps = [
            ("wide", dict(keys=[1, 2, 3, 4, 5, 7, 8, 10], vals=[1, 2], modes=["plain", "d0", "d1"], maxlen=2,
                          others=MAP_OTHERS, upd=[1, 2, 4, 5], mrg=[2, 4], inits=[0, 2])),
            ("deep", dict(keys=[3, 4, 5, 8], vals=[1, 2], modes=["plain", "d1"], maxlen=3,
                          others=MAP_OTHERS, upd=[2], mrg=[6], inits=[0])),
            ("twins", dict(keys=[1, 11, 7, 12], vals=[1], modes=["plain"], maxlen=2,
                           others=MAP_OTHERS, upd=[1], mrg=[], inits=[0])),
        ]
        sets = [
            ("wide", dict(keys=[1, 2, 3, 4, 5, 7, 8, 10], maxlen=2, others=SET_OTHERS, bin=[1, 2, 3, 4, 5],
                          binops=ALL_BIN, inits=[0, 2], pop=1)),
            ("deep", dict(keys=[3, 4, 8], maxlen=3, others=SET_OTHERS, bin=[2, 4],
                          binops=ALL_BIN, inits=[0, 6], pop=1)),
            ("twins", dict(keys=[1, 11, 7, 12], maxlen=2, others=SET_OTHERS, bin=[1], binops=["or", "ror"],
                           inits=[0], pop=0)),
        ]
        dicts = [("pairs", 1, "small", "right"), ("chain", 3, "small", "both"), ("join", 2, "small", "both"),
                 ("join", 3, "small", "right")]
    else:
        maps = [
            ("wide", dict(keys=[1, 2, 3, 4, 5, 6, 7, 8, 9, 10, 13], vals=[1, 2], modes=["plain", "d0", "d1"], maxlen=2,
                          others=MAP_OTHERS, upd=[1, 2, 3, 4, 5, 6], mrg=[1, 2, 3, 4, 5, 6], inits=[0, 1, 2, 5])),
            ("deep", dict(keys=[1, 3, 4, 5, 7, 8, 10], vals=[1, 2], modes=["plain", "d0", "d1"], maxlen=3,
                          others=MAP_OTHERS, upd=[2, 4], mrg=[6], inits=[0])),
            ("deep2", dict(keys=[2, 5, 6, 9, 13], vals=[1, 2], modes=["plain", "d1"], maxlen=3,
                           others=MAP_OTHERS, upd=[5], mrg=[1], inits=[0, 5])),
            ("twins", dict(keys=[1, 11, 7, 12, 3], vals=[1, 2], modes=["plain", "d1"], maxlen=3,
                           others=MAP_OTHERS, upd=[1], mrg=[], inits=[0])),
        ]
        sets = [
            ("wide", dict(keys=[1, 2, 3, 4, 5, 6, 7, 8, 9, 10, 13], maxlen=2, others=SET_OTHERS, bin=[1, 2, 3, 4, 5, 6],
                          binops=ALL_BIN, inits=[0, 1, 2, 5], pop=1)),
            ("deep", dict(keys=[1, 3, 4, 5, 7, 8, 10], maxlen=3, others=SET_OTHERS, bin=[1, 2, 4, 5],
                          binops=ALL_BIN, inits=[0, 6], pop=1)),
            ("twins", dict(keys=[1, 11, 7, 12, 3], maxlen=3, others=SET_OTHERS, bin=[1, 5], binops=["or", "ror", "and", "sub"],
                           inits=[0], pop=1)),
        ]
        dicts = [("pairs", 1, "large", "right"), ("chain", 3, "large", "both"), ("join", 2, "large", "both"),
                 ("join", 3, "small", "both")]
    return maps, sets, dicts


ASSUMPTIONS = [
    "TLC evaluates the TLA+ operators correctly (every 5th-7th emitted record is re-derived by an independent python "
    "reference: list of pairs / python set of indices / recursive match and merge on decoded dictionaries)",
    "supported key kinds = JSON-faithful assignments: dictionaries with str keys whose leaves are int / str / list / nested "
    "dictionaries, lists, and hashable atoms (str, int, tuple); non-JSON-faithful keys (int-keyed inner dictionaries, tuple "
    "vs list values, True vs 1) are outside the statement and only recorded in the evidence",
    "natural_join results are compared as SETS of rows at VIOLATION level (the docstring defines a set); row order and "
    "multiplicity against the product-order reference, aliasing of input rows and mutated inputs are DRIFT",
    "iteration order of AssignmentMap against the insertion-ordered reference is DRIFT (the statement asks for agreement of "
    "iteration as a collection of keys)",
    "a string key that is the json text of an unhashable key of the same container is a supported key kind (str); its "
    "collisions are reported under one signature per class (encode_item)",
]


def run(ctx):
    ctx.rule = RULE
    ctx.assumptions = ASSUMPTIONS
    global _SEED
    _SEED = ctx.seed
    maps, sets, dicts = plans(ctx.tier)
    with warnings.catch_warnings():
        warnings.simplefilter("ignore")
        jobs = []
        for tag, cfg in maps:
            jobs.append(("map", tag, cfg, _POOL.submit(tlc_container, ctx, "X03_AssignMap", MAP_CFG, cfg, tag)))
        for tag, cfg in sets:
            jobs.append(("set", tag, cfg, _POOL.submit(tlc_container, ctx, "X03_AssignSet", SET_CFG, cfg, tag)))
        for i, (track, maxlen, size, dirs) in enumerate(dicts):
            jobs.append(("dict", f"{track}{i}", (track, maxlen, size, dirs),
                         _POOL.submit(tlc_dict, ctx, track, maxlen, size, dirs, f"{track}{i}")))
        timing = ctx.extra.setdefault("replay_cpu_s", {})
        for part, tag, cfg, fut in jobs:
            tlc = fut.result()
            t0 = time.process_time()
            thin = ctx.tier == "quick"
            if part == "map":
                run_map(ctx, cfg, tag, tlc=tlc, thin=thin)
            elif part == "set":
                run_set(ctx, cfg, tag, tlc=tlc, thin=thin)
            else:
                run_dict(ctx, *cfg, tag, tlc=tlc, thin=thin)
            timing[f"{part}:{tag}"] = round(time.process_time() - t0, 2)
        probe_unspecified(ctx)
    ctx.exhaustive = True


def replay(ctx, case):
    ctx.rule = RULE
    ctx.assumptions = ASSUMPTIONS
    with warnings.catch_warnings():
        warnings.simplefilter("ignore")
        if case["part"] == "map":
            key = (case["key"][0], case["key"][1], tuple(tuple(x) for x in case["key"][2]))
            run_map(ctx, case["cfg"], "replay", variants=(case["variant"],), only=key)
            n = ctx.counters.get("map_behaviours", 0)
        elif case["part"] == "set":
            key = (case["key"][0], tuple(tuple(x) for x in case["key"][1]))
            run_set(ctx, case["cfg"], "replay", variants=(case["variant"],), only=key)
            n = ctx.counters.get("set_behaviours", 0)
        else:
            run_dict(ctx, case["track"], case["maxlen"], case["size"], case["dirs"], "replay",
                     variants=(case["variant"],), only=case["key"])
            n = ctx.counters.get(f"{case['track']}_behaviours", 0)
    if n != 1:
        raise TLCFailure(f"replay: the stored behaviour was found {n} times in the state graph of its configuration")


def selftest(ctx):
    """Binding demonstration on small configurations.  For each part: (1) corrupt one value returned by the real
    code, (2) do not execute one call of the behaviour, (3) hand the real code another instance than the one TLC
    judged.  Each must produce failures that the unchanged binding does not report."""
    ctx.rule = RULE
    ok = True
    mcfg = dict(keys=[3, 8, 10], vals=[1, 2], modes=["plain", "d1"], maxlen=2, others=MAP_OTHERS, upd=[4], mrg=[4], inits=[0, 4])
    scfg = dict(keys=[3, 8, 10], maxlen=2, others=SET_OTHERS, bin=[4], binops=["or", "and", "rsub"], inits=[0, 4], pop=1)

    global _SINK
    _SINK = []

    def sigs():
        return set(_SINK)

    def attempt(name, f):
        nonlocal ok
        before = sigs()
        f()
        new = sigs() - before
        print(f"  selftest {name}: {len(new)} new failures detected")
        ok = ok and len(new) > 0

    with warnings.catch_warnings():
        warnings.simplefilter("ignore")
        run_map(ctx, mcfg, "st0")
        run_set(ctx, scfg, "st0")
        run_dict(ctx, "chain", 2, "small", "both", "st0")
        run_dict(ctx, "join", 2, "small", "right", "st0")
        base = sigs()
        print(f"  selftest baseline: {len(base)} failures on the unchanged binding")

        def flip(kind_wanted):
            state = {"n": 0}

            def mut(kind, value):
                if kind != kind_wanted:
                    return value
                state["n"] += 1
                if state["n"] % 23 != 1:
                    return value
                if kind == "projection":
                    value = dict(value)
                    value["len"] = (value["len"] + 1) if isinstance(value["len"], int) else 0
                    return value
                if kind == "join":
                    return value + [{"zz": 1}]
                st, v = value
                if kind == "match":
                    return st, (not v)
                if kind == "merge":
                    v = dict(v)
                    v["zz"] = 1
                    return st, v
                if isinstance(v, bool):
                    return st, (not v)
                if isinstance(v, int):
                    return st, v + 1
                return st, v
            return mut
        attempt("map (1) corrupted __getitem__ result", lambda: run_map(ctx, mcfg, "st1", mut=flip("get")))
        attempt("map (1b) corrupted len", lambda: run_map(ctx, mcfg, "st1b", mut=flip("projection")))
        attempt("map (2) one call not executed", lambda: run_map(ctx, mcfg, "st2", drop=0))
        swapped = dict(mcfg, others=[list(o) for o in MAP_OTHERS])
        swapped["others"][3] = [[8, 1], [10, 1]]

        attempt("map (3) family map differs from the one TLC judged", lambda: run_map(ctx, mcfg, "st3", real_cfg=swapped))
        attempt("set (1) corrupted __contains__ result", lambda: run_set(ctx, scfg, "st4", mut=flip("has")))
        attempt("set (2) one call not executed", lambda: run_set(ctx, scfg, "st5", drop=0))
        attempt("dict (1) corrupted dict_match result", lambda: run_dict(ctx, "chain", 2, "small", "both", "st6", mut=flip("match")))
        attempt("dict (1b) corrupted dict_merge result", lambda: run_dict(ctx, "chain", 2, "small", "both", "st6b", mut=flip("merge")))
        attempt("dict (2) one merge not executed", lambda: run_dict(ctx, "chain", 2, "small", "both", "st7", drop=0))
        attempt("join (1) extra row in the real result", lambda: run_dict(ctx, "join", 2, "small", "right", "st8", mut=flip("join")))
    _SINK = None
    return ok
