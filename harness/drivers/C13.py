"""C13 - a fixed seed makes every randomised component reproducible and isolated.

Pipeline (B, code -> spec, plus MC of the seeding idioms):

  1. MC run of spec/C13_Seeding.tla (MODE=mc): the sound seeding idioms the code follows (private
     generator from the seed, generator threaded through a roll-out, per-object seed from a stable
     text rendering) and the defective ones msdm used before its repairs (`seed or <global draw>`,
     a roll-out with one unthreaded draw, seed derived from the builtin / identity hash of an
     object; kept as model-level demonstrations, no component is mapped to them) are explored over all
     seeds (0 included), label kinds, hash seeds and prior states of the global generators; TLC
     decides which (idiom, input shape) pairs can break determinism / isolation.  The table of
     predictions is emitted and cross-checked against an independent Python evaluation.
  2. The driver spawns worker processes of /venv/bin/python with different PYTHONHASHSEED values.
     Each worker runs the same plan of (component, problem, params, seed) keys under several
     prior states of the global `random`, numpy and torch generators and logs, per run, a Perturb
     event (states of the three generators after the perturbation) and a Run event (states
     before / after the run, canonical digests of the result).
  3. The logs of all processes are merged into one trace per key and validated by TLC
     (MODE=trace): `glob` follows the generators of every process, `memo` holds the digests seen
     so far for the key; every Run event is judged by the spec (Isolated, Rerun, GlobalIndep,
     HashIndep) and the verdicts are emitted.  Python only compares what TLC emitted.

Only clauses of the statement raise VIOLATION: (a) a seeded run changed a global generator,
(b) two runs of the same key returned different principal results (same process and prior state /
different prior state of the globals / different hash seed).  Differences confined to
implementation-shaped by-products (expansion orders, visited sets, iteration counters) are DRIFT.
"""
import hashlib
import json
import math
import os
import random
import subprocess
import sys
import time
from pathlib import Path

from ..tlc import run_tlc, TLCFailure

VERIF = Path(__file__).resolve().parent.parent.parent
MODULE = "C13_Seeding"

# =============================================================================================
# canonical, order-free rendering of results
# =============================================================================================

def _f(x, coarse):
    x = float(x)
    if math.isnan(x):
        return "nan"
    if math.isinf(x):
        return "inf" if x > 0 else "-inf"
    if coarse:
        return "%.9g" % x if x != 0 else "0"
    return x.hex()


def canon(x, coarse=False):
    """JSON-able rendering: dicts / sets / distributions order-free, sequences ordered, floats by
    float.hex (coarse=True: 9 significant digits, used only to classify ulp-only differences)."""
    import numpy as np
    try:
        import torch
    except Exception:                                   # noqa: BLE001
        torch = None
    if x is None or isinstance(x, (bool, str)):
        return x
    if isinstance(x, (int, np.integer)):
        return int(x)
    if isinstance(x, (float, np.floating)):
        return {"f": _f(x, coarse)}
    if torch is not None and isinstance(x, torch.Tensor):
        return canon(x.detach().cpu().numpy(), coarse)
    if isinstance(x, np.ndarray):
        if x.ndim == 0:
            return canon(x.item(), coarse)
        return {"arr": [canon(v, coarse) for v in x.tolist()]}
    if hasattr(x, "_asdict") and isinstance(x, tuple):      # namedtuple
        return {"nt": type(x).__name__, "v": [canon(v, coarse) for v in x]}
    if isinstance(x, (list, tuple)):
        return [canon(v, coarse) for v in x]
    if isinstance(x, (set, frozenset)):
        items = [canon(v, coarse) for v in x]
        return {"set": sorted(items, key=lambda v: json.dumps(v, sort_keys=True))}
    if isinstance(x, dict) or hasattr(x, "items") and callable(x.items):
        try:
            pairs = [[canon(k, coarse), canon(v, coarse)] for k, v in x.items()]
            return {"map": sorted(pairs, key=lambda kv: json.dumps(kv[0], sort_keys=True))}
        except TypeError:
            pass
    if hasattr(x, "name") and hasattr(x, "is_terminal"):    # Option
        return {"option": canon(getattr(x, "name", None), coarse)}
    return {"repr": type(x).__name__}


def dig(obj, coarse=False):
    return hashlib.sha1(json.dumps(canon(obj, coarse), sort_keys=True).encode()).hexdigest()[:16]


# =============================================================================================
# global generators
# =============================================================================================

GENS = ("random", "numpy", "torch")


def gstate():
    import numpy as np
    import torch
    st = np.random.get_state()
    return {
        "random": hashlib.sha1(repr(random.getstate()).encode()).hexdigest()[:12],
        "numpy": hashlib.sha1(repr((st[0], st[1].tobytes(), st[2], st[3], st[4])).encode()).hexdigest()[:12],
        "torch": hashlib.sha1(torch.random.get_rng_state().numpy().tobytes()).hexdigest()[:12],
    }


def perturb(p):
    """Prior state number p of the three process-global generators (same in every process)."""
    import numpy as np
    import torch
    random.seed(7919 * p + 13)
    np.random.seed(104729 * p + 17)
    torch.manual_seed(1299709 * p + 19)
    for _ in range(p % 5):
        random.random()
        np.random.random()
        torch.rand(1)


# =============================================================================================
# problems
# =============================================================================================
# meta: lk = "str" when states / actions / option names hash differently under another
#       PYTHONHASHSEED (str, or containers of str such as frozendict with str keys), else "int";
#       multi = 1 when the initial state distribution has more than one state.

_PCACHE = {}
_KEEP = []


def _abstract(seed, *, n_na=4, n_abs=1, K=3, GN=9, GD=10, rewards=(-3, -2, -1), multi=True):
    from .. import gen
    rng = random.Random(seed)
    while True:
        m = gen.rand_mdp(rng, n_na=n_na, n_abs=n_abs, K=K, PD=4, GN=GN, GD=GD, rewards=rewards,
                         force_progress=True, uniform_actions=False, init_on_abs=0.0, ID=4)
        m["p0"] = [0] * m["N"]
        na = [s for s in range(m["N"]) if not m["abs"][s]]
        if multi:
            m["p0"][na[0]] = 2
            m["p0"][na[1]] = 1
            m["p0"][na[2]] = 1
        else:
            m["p0"][na[0]] = 4
        if gen.ghost_closed(m) and len(gen.reach(m)) == m["N"]:
            # at least two stochastic rows, otherwise sampling is never exercised
            if sum(1 for s in na for a in range(K) if sum(1 for x in m["P"][s][a] if x) > 1) >= 3:
                return m


def _rand_mdp(labels, alabels, rep, seed, **kw):
    from .. import build
    m = _abstract(seed, **kw)
    b = build.build_mdp(m, rep=rep, labels=labels, alabels=alabels, explicit_list=False,
                        dist="dict", rng=random.Random(seed + 1))
    return b.mdp


def _rand_mdp_mixdyn(seed):
    """String-labelled member of the random family whose transition distributions are built as
    mixtures with the `|` operator: intended move (3/4) | uniform slip over the successors of the
    state's first action (1/4)."""
    from msdm.core.mdp import QuickTabularMDP
    from msdm.core.distributions import DictDistribution
    base = _rand_mdp("str", "str", "quick", seed)

    def nsd(s, a):
        slip = list(base.next_state_dist(s, base.actions(s)[0]).support)
        return base.next_state_dist(s, a) * 0.75 | DictDistribution.uniform(slip) * 0.25
    return QuickTabularMDP(next_state_dist=nsd, reward=base.reward, actions=base.actions,
                           initial_state_dist=base.initial_state_dist, is_absorbing=base.is_absorbing,
                           discount_rate=base.discount_rate)


def _rand_mdp_fset(seed):
    """Member of the random family whose states contain sets of strings: even states are
    frozensets of three strings, odd states tuples holding such a frozenset (explicit lists,
    so the order of state_list / action_list does not depend on the hash seed)."""
    from fractions import Fraction
    from msdm.core.mdp import QuickTabularMDP
    from msdm.core.distributions import DictDistribution
    m = _abstract(seed)
    N, K = m["N"], m["K"]
    base = [frozenset({f"room{i}", "lit" if i % 3 else "dark", "has-key"}) for i in range(N)]
    sl = [base[i] if i % 2 == 0 else ("at", base[i]) for i in range(N)]
    al = [f"a{j}" for j in range(K)]
    si = {x: i for i, x in enumerate(sl)}
    ai = {x: j for j, x in enumerate(al)}
    mdp = QuickTabularMDP(
        next_state_dist=lambda s, a: DictDistribution({sl[t]: float(Fraction(m["P"][si[s]][ai[a]][t], m["PD"]))
                                                       for t in range(N) if m["P"][si[s]][ai[a]][t] > 0}),
        reward=lambda s, a, ns: float(m["R"][si[s]][ai[a]][si[ns]]),
        actions=lambda s: tuple(al[j] for j in range(K) if m["avail"][si[s]][j]),
        initial_state_dist=lambda: DictDistribution({sl[t]: float(Fraction(m["p0"][t], m["ID"]))
                                                     for t in range(N) if m["p0"][t] > 0}),
        is_absorbing=lambda s: bool(m["abs"][si[s]]),
        discount_rate=float(Fraction(m["GN"], m["GD"])))
    mdp._state_list = list(sl)
    mdp._action_list = list(al)
    return mdp


def _graph(labels, seed, stored=False):
    """Deterministic shortest-path problem with many equal-cost paths (ties matter)."""
    from msdm.core.mdp import TabularMarkovDecisionProcess, DeterministicShortestPathProblem
    from msdm.core.distributions import DeterministicDistribution
    rng = random.Random(seed)
    W, H = 4, 3
    name = (lambda x, y: f"n{x}_{y}") if labels == "str" else (lambda x, y: (x, y))
    aname = (lambda d: {(1, 0): "east", (0, 1): "north", (-1, 0): "west", (0, -1): "south"}[d]) \
        if labels == "str" else (lambda d: d)
    cost = {}
    for x in range(W):
        for y in range(H):
            for d in ((1, 0), (0, 1), (-1, 0), (0, -1)):
                if 0 <= x + d[0] < W and 0 <= y + d[1] < H:
                    cost[(x, y), d] = rng.choice([1, 1, 1, 2])

    class Graph(DeterministicShortestPathProblem, TabularMarkovDecisionProcess):
        discount_rate = 1.0

        def initial_state(self):
            return name(0, 0)

        def is_absorbing(self, s):
            return s == name(W - 1, H - 1)

        def _xy(self, s):
            return tuple(int(v) for v in s[1:].split("_")) if labels == "str" else s

        _acts = {}          # stored=True: state-dependent action sets kept in a table of lists

        def actions(self, s):
            if stored and s in self._acts:
                return self._acts[s]            # the stored list object itself
            xy = self._xy(s)
            aa = [aname(d) for d in ((1, 0), (0, 1), (-1, 0), (0, -1)) if (xy, d) in cost]
            if stored:
                self._acts[s] = aa
            return aa

        def _d(self, a):
            return {"east": (1, 0), "north": (0, 1), "west": (-1, 0), "south": (0, -1)}[a] if labels == "str" else a

        def next_state(self, s, a):
            xy, d = self._xy(s), self._d(a)
            return name(xy[0] + d[0], xy[1] + d[1])

        def reward(self, s, a, ns):
            return -cost[self._xy(s), self._d(a)]
    return Graph()


_GRIDS = [["s..g", ".x..", "s..."], ["s.x.", "...g", "s.x."], [".s.", "x.x", "s.g", "..."]]


def _gridworld(k=0, success_prob=0.8, discount_rate=0.95, single=False):
    from msdm.domains.gridworld.mdp import GridWorld
    rows = list(_GRIDS[k % len(_GRIDS)])
    if single:          # one initial state only (search needs a deterministic start)
        seen = False
        for i, r in enumerate(rows):
            new = ""
            for ch in r:
                if ch == "s" and seen:
                    ch = "."
                seen = seen or ch == "s"
                new += ch
            rows[i] = new
    return GridWorld(tile_array=rows, feature_rewards={"g": 0, "x": -3},
                     step_cost=-1, success_prob=success_prob, discount_rate=discount_rate)


def _lineworld():
    from msdm.tests.domains import LineWorld
    return LineWorld(line=".is..i....g", discount_rate=.99)


def _pomdp_str(seed):
    """Small TabularPOMDP with string states / actions / observations, two initial states."""
    from msdm.core.pomdp import TabularPOMDP
    from msdm.core.distributions import DictDistribution
    rng = random.Random(seed)
    S = ["dry", "wet", "icy", "done"]
    A = ["go", "wait"]
    O = ["see_a", "see_b", "see_c"]
    T = {}
    for s in S[:-1]:
        for a in A:
            w = [rng.choice([0, 1, 2]) for _ in S]
            w[3] += 1
            T[s, a] = {ns: x / sum(w) for ns, x in zip(S, w) if x}
    Ob = {}
    for a in A:
        for ns in S:
            w = [rng.choice([0, 1, 3]) for _ in O]
            w[rng.randrange(3)] += 1
            Ob[a, ns] = {o: x / sum(w) for o, x in zip(O, w) if x}

    class StrPOMDP(TabularPOMDP):
        discount_rate = 0.9

        def initial_state_dist(self):
            return DictDistribution({"dry": 0.5, "wet": 0.25, "icy": 0.25})

        def is_absorbing(self, s):
            return s == "done"

        def actions(self, s):
            return A

        def next_state_dist(self, s, a):
            if s == "done":
                return DictDistribution({"done": 1.0})
            return DictDistribution(T[s, a])

        def reward(self, s, a, ns):
            return -1.0 if a == "go" else -0.5

        def observation_dist(self, a, ns):
            return DictDistribution(Ob[a, ns])
    return StrPOMDP()


PROBLEMS = {
    # name: (constructor(k) - k selects another random member of the family, meta)
    # meta: lk     "str" if the hash of states / actions changes with PYTHONHASHSEED (str, or
    #              containers of str such as frozendict with str keys), else "int"
    #       shape  label kind named in signatures
    #       multi  1 iff the initial-state distribution has more than one state
    "mdp_str": (lambda k: _rand_mdp("str", "str", "quick", 11 + 100 * k), dict(lk="str", shape="str-labels", multi=1)),
    "mdp_str2": (lambda k: _rand_mdp("str", "str", "subclass", 23 + 100 * k, n_na=5, K=4),
                 dict(lk="str", shape="str-labels", multi=1)),
    "mdp_int": (lambda k: _rand_mdp("int", "int", "subclass", 12 + 100 * k), dict(lk="int", shape="int-labels", multi=1)),
    "mdp_tuple": (lambda k: _rand_mdp("tuple", "str", "quick", 14 + 100 * k), dict(lk="str", shape="str-labels", multi=1)),
    "mdp_str_g1": (lambda k: _rand_mdp("str", "str", "quick", 15 + 100 * k, GN=1, GD=1),
                   dict(lk="str", shape="str-labels", multi=1)),
    "mdp_str_single": (lambda k: _rand_mdp("str", "str", "quick", 16 + 100 * k, multi=False),
                       dict(lk="str", shape="str-labels", multi=0)),
    "gridworld": (lambda k: _gridworld(k), dict(lk="str", shape="unsortable-labels", multi=1)),
    "gridworld_single": (lambda k: _gridworld(k, 1.0, 1.0, single=True), dict(lk="str", shape="unsortable-labels", multi=0)),
    "graph_str": (lambda k: _graph("str", 5 + k), dict(lk="str", shape="str-labels", multi=0)),
    "graph_stored": (lambda k: _graph("str", 7 + k, stored=True), dict(lk="str", shape="str-labels", multi=0)),
    "mdp_mixdyn": (lambda k: _rand_mdp_mixdyn(18 + 100 * k), dict(lk="str", shape="str-labels", multi=1)),
    "mdp_fset": (lambda k: _rand_mdp_fset(17 + 100 * k), dict(lk="str", shape="set-of-str-labels", multi=1)),
    "graph_tuple": (lambda k: _graph("tuple", 6 + k), dict(lk="int", shape="int-labels", multi=0)),
    "romania": (lambda k: __import__("msdm.tests.domains", fromlist=["x"]).RomaniaSubsetAIMA(),
                dict(lk="str", shape="str-labels", multi=0)),
    "lineworld": (lambda k: _lineworld(), dict(lk="int", shape="int-labels", multi=0)),
    "tiger": (lambda k: __import__("msdm.domains.tiger", fromlist=["x"]).Tiger(coherence=0.85, discount_rate=0.9),
              dict(lk="str", shape="str-labels", multi=1)),
    "loadunload": (lambda k: __import__("msdm.domains.loadunload", fromlist=["x"]).LoadUnload(nstates=4, discount_rate=0.9),
                   dict(lk="int", shape="int-labels", multi=0)),
    "pomdp_str": (lambda k: _pomdp_str(3 + k), dict(lk="str", shape="str-labels", multi=1)),
    "-": (lambda k: None, dict(lk="str", shape="str-events", multi=0)),
}


def problem(name):
    """General rule: the problem object of a name is built once per worker process and shared by
    all runs (all seeds, prior states, fresh and reused planner objects, all cases) of that
    process, so that contamination from one run to the next through the problem object (e.g. an
    action list of the problem shuffled in place) shows up under the rerun clause."""
    if name not in _PCACHE:
        base, _, k = name.partition("@")
        _PCACHE[name] = PROBLEMS[base][0](int(k or 0))
    return _PCACHE[name]


def meta(name):
    return PROBLEMS[name.partition("@")[0]][1]


def list_order(name):
    """Ordered digest of the state / action / observation lists of a tabular problem."""
    p = problem(name)
    out = []
    for attr in ("state_list", "action_list", "observation_list"):
        try:
            out.append(list(getattr(p, attr)))
        except Exception:                               # noqa: BLE001
            out.append(None)
    return dig(out)


# =============================================================================================
# components: run(problem name, params, seed) -> {"main": principal results, "aux": by-products}
# =============================================================================================

def _policy_table(policy, states):
    return {s: dict(policy.action_dist(s).items()) for s in states}


def c_laostar(prob, par, seed, obj=None):
    from msdm.algorithms import LAOStar
    mdp = problem(prob)
    obj = obj or LAOStar(heuristic=lambda s: 0.0, seed=seed,
                         randomize_action_order=par.get("rao", True),
                         randomize_nextstate_order=par.get("rno", True))
    r = obj.plan_on(mdp)
    states = list(r.explicit_graph.states_to_nodes.keys())
    return {"main": {"V": r.state_value_map, "v0": r.initial_value, "converged": r.converged,
                     "policy": _policy_table(r.policy, states)},
            "aux": {"iterations": r.iterations, "expanded": r.explicit_graph.states_by_expandedorder(),
                    "visited": r.explicit_graph.states_by_visitorder()}, "obj": obj}


def c_lrtdp(prob, par, seed, obj=None):
    from msdm.algorithms import LRTDP
    mdp = problem(prob)
    obj = obj or LRTDP(heuristic=lambda s: 0.0, seed=seed, randomize_action_order=par.get("rao", True),
                       bellman_error_margin=1e-3)
    r = obj.plan_on(mdp)
    states = list(r.V.keys())
    return {"main": {"V": dict(r.V), "v0": r.initial_value, "policy": _policy_table(r.policy, states),
                     "solved": {s for s in states if r.solved[s]}, "seed": r.seed,
                     "Q": {s: dict(q) for s, q in r.Q.items()}},
            "aux": {"action_orders": {s: list(o) for s, o in r.action_orders.items()}}, "obj": obj}


def c_astar(prob, par, seed, obj=None):
    from msdm.algorithms import AStarSearch
    mdp = problem(prob)
    obj = obj or AStarSearch(seed=seed, randomize_action_order=par.get("rao", True),
                             tie_breaking_strategy=par.get("tie", "random"))
    r = obj.plan_on(mdp)
    return {"main": {"path": list(r.path), "path_value": r.path_value,
                     "policy": _policy_table(r.policy, list(r.path)[:-1])},
            "aux": {"visited": set(r.visited)}, "obj": obj}


def c_bfs(prob, par, seed, obj=None):
    from msdm.algorithms import BreadthFirstSearch
    mdp = problem(prob)
    obj = obj or BreadthFirstSearch(seed=seed, randomize_action_order=True)
    r = obj.plan_on(mdp)
    return {"main": {"path": list(r.path), "policy": _policy_table(r.policy, list(r.path)[:-1])},
            "aux": {"visited": set(r.visited)}, "obj": obj}


def c_td(prob, par, seed, obj=None):
    import msdm.algorithms as alg
    mdp = problem(prob)
    cls = getattr(alg, par["cls"])
    obj = obj or cls(episodes=par.get("episodes", 25), step_size=0.2, rand_choose=par.get("eps", 0.2),
                     softmax_temp=par.get("temp", 0.0), initial_q=0.0, seed=seed)
    r = obj.train_on(mdp)
    states = list(r.q_values.keys())
    return {"main": {"q": {s: dict(q) for s, q in r.q_values.items()},
                     "policy": _policy_table(r.policy, states),
                     "episode_rewards": list(r.event_listener_results.episode_rewards)},
            "aux": {}, "obj": obj}


def c_rmax(prob, par, seed, obj=None):
    import numpy as np
    from msdm.algorithms import RMAX
    mdp = problem(prob)
    obj = obj or RMAX(episodes=par.get("episodes", 12), rmax=float(np.max(mdp.reward_matrix)),
                      num_transition_samples=par.get("m", 2), seed=seed)
    r = obj.train_on(mdp)
    states = list(r.q_values.keys())
    return {"main": {"q": {s: dict(q) for s, q in r.q_values.items()},
                     "policy": _policy_table(r.policy, states),
                     "episode_rewards": list(r.event_listener_results.episode_rewards)},
            "aux": {}, "obj": obj}


def c_bpi(prob, par, seed, obj=None):
    from msdm.algorithms.fscboundedpolicyiteration import FSCBoundedPolicyIteration
    pomdp = problem(prob)
    obj = obj or FSCBoundedPolicyIteration(controller_state_count=2, iterations=par.get("iterations", 2), seed=seed)
    r = obj.train_on(pomdp)
    return {"main": {"action": r.policy.action_strategy, "obs": r.policy.observation_strategy,
                     "init": r.policy.initial_state_dist, "value": r.value, "V": r.state_controller_value},
            "aux": {"converged": r.converged}, "obj": obj}


def c_ga(prob, par, seed, obj=None):
    from msdm.algorithms import FSCGradientAscent
    pomdp = problem(prob)
    obj = obj or FSCGradientAscent(controller_state_count=2, iterations=par.get("iterations", 5),
                                   learning_rate=0.1, seed=seed)
    r = obj.train_on(pomdp)
    return {"main": {"action": r.policy.action_strategy, "obs": r.policy.observation_strategy,
                     "init": r.policy.initial_state_dist, "value": r.value.expected_value},
            "aux": {}, "obj": obj}


def _options(prob, kind):
    """Options on `prob`: kind "named" (PlanToSubgoalOption with string names, hash = hash(name)),
    "unnamed" (name None), "plain" (Option subclass that keeps the default identity hash but has a
    str name, like SimpleOption in msdm's tests; obj_seed renders it as ClassName:name).  An option
    with identity hash and no str name is not a reproducible input by construction of the user's
    class and is outside the statement: no such case is generated."""
    from msdm.core.semimdp.option import Option, PlanToSubgoalOption
    from msdm.core.mdp.policy import FunctionalPolicy
    from msdm.core.distributions import DictDistribution
    from msdm.algorithms import ValueIteration
    mdp = problem(prob)
    states = list(mdp.state_list)
    absorbing = [s for s in states if mdp.is_absorbing(s)]
    na = [s for s in states if not mdp.is_absorbing(s)]
    s0 = sorted(mdp.initial_state_dist().support, key=lambda s: json.dumps(canon(s), sort_keys=True))[0]
    subgoal = na[-1] if na[-1] != s0 else na[-2]

    class Wander(Option):
        """act uniformly at random until a terminal state of the option"""
        def __init__(self, name, terminal):
            self.name = name
            self.terminal = terminal
            self.max_steps = 20000
            self.policy = FunctionalPolicy(lambda s: DictDistribution.uniform(list(mdp.actions(s))))

        def is_initial(self, s):
            return True

        def is_terminal(self, s):
            return s in self.terminal

    class NamedWander(Wander):
        def __hash__(self):
            return hash(self.name)

        def __eq__(self, other):
            return isinstance(other, Wander) and self.name == other.name

    if kind == "named":
        opts = [NamedWander("wander-to-subgoal", [subgoal] + absorbing),
                PlanToSubgoalOption(mdp=mdp, initial_states=states, subgoals=[subgoal] + absorbing,
                                    planner=ValueIteration(max_iterations=200), name="plan-to-subgoal",
                                    include_mdp_absorbing_states=True, max_steps=500)]
    elif kind == "unnamed":
        class UnnamedWander(PlanToSubgoalOption):       # name None, hash = hash(None); random walk
            policy = FunctionalPolicy(lambda s: DictDistribution.uniform(list(mdp.actions(s))))
        kw = dict(mdp=mdp, initial_states=states, subgoals=[subgoal] + absorbing,
                  planner=ValueIteration(max_iterations=200), include_mdp_absorbing_states=True, max_steps=20000)
        opts = [PlanToSubgoalOption(**kw), UnnamedWander(**kw)]
    elif kind == "intname":
        opts = [NamedWander(7, [subgoal] + absorbing)]
    else:
        opts = [Wander("wander", [subgoal] + absorbing)]
        _KEEP.append(opts)      # never freed: a recycled address would hide the identity hash
    return mdp, s0, opts


def c_semimdp(prob, par, seed, obj=None):
    from msdm.core.semimdp.semimdp import SemiMarkovDecisionProcess
    if obj is None:
        mdp, s0, opts = _options(prob, par["options"])
        smdp = SemiMarkovDecisionProcess(mdp=mdp, options=opts, n_option_simulations=par.get("n", 6), seed=seed)
        obj = (smdp, s0, opts)
        reused = False
    else:
        reused = True
    smdp, s0, opts = obj[:3]

    def query(sm, keep):
        out = {}
        for i, o in enumerate(opts):
            d = sm.next_state_transit_time_reward_dist(s0, o)
            keep.append(d)
            out[i] = {"nstr": dict(d.items()), "ns": dict(sm.next_state_dist(s0, o).items()),
                      "ecr": sm.expected_cumulative_reward(s0, o)}
        return out
    if not reused:
        returned = []
        out = query(smdp, returned)
        return {"main": out, "aux": {}, "obj": (smdp, s0, opts, returned)}
    # reuse = two object histories that must end in the result of a fresh object with these
    # parameters and this seed:
    # (a) the same semi-MDP and option objects are queried again after the caller has emptied the
    #     distributions that the first query returned (the caller owns what it was handed);
    for d in obj[3]:
        try:
            d.clear()
        except Exception:                               # noqa: BLE001
            pass
    same_object = query(smdp, [])
    # (b) a long-lived semi-MDP that was first used with another seed and number of simulations
    #     and whose (public, non-frozen dataclass) fields are then set to this key's values
    other = SemiMarkovDecisionProcess(mdp=smdp.mdp, options=opts, n_option_simulations=par.get("n", 6) + 3,
                                      seed=(seed + 12345) % 2 ** 32)
    query(other, [])
    other.seed, other.n_option_simulations = seed, par.get("n", 6)
    reseeded = query(other, [])
    out = same_object if canon(same_object) == canon(reseeded) else {"same-object": same_object, "re-seeded-object": reseeded}
    return {"main": out, "aux": {}, "obj": obj}


def c_implicit(prob, par, seed, obj=None):
    from msdm.core.distributions.distributions import ImplicitDistribution
    labels = ["alpha", "beta", "gamma", "delta"]

    def fn(rng):
        return (rng.choice(labels), rng.randint(0, 2))

    if par.get("mode") == "derived":
        # a marginalised / conditioned distribution is a new seeded distribution: its tables are a
        # function of (function, sample size, seed) only.  Fresh run: derived from a parent that
        # has not been used; reuse: derived again from the same parent after the parent's own
        # private stream has been used (items, sample, expectation) - must give the same tables.
        if obj is None:
            obj = ImplicitDistribution(fn, n_samples=par.get("n", 40), _seed=seed)
        else:
            dict(obj.items())
            obj.sample()
            obj.expectation(lambda e: e[1])
        out = {"marginal": dict(obj.marginalize(lambda e: e[0]).items()),
               "marginal_expectation": obj.marginalize(lambda e: e[1]).expectation(),
               "marginal_stream": (lambda d: [d.sample() for _ in range(5)])(obj.marginalize(lambda e: e[0])),
               "conditioned": dict(obj.condition(lambda e: e[1] > 0).items())}
        return {"main": out, "aux": {}, "obj": obj}
    if par.get("mode") == "explicit":
        # "equally seeded generator": the distribution (own seed par["pseed"], None = unseeded), its
        # conditioned and its marginalised versions are sampled with an explicit random.Random(seed);
        # the draws are a function of that generator only.  Reuse: the same three objects again,
        # after the parent and a sibling have been used in between (their private stream moves,
        # which must not matter to draws made with an explicit generator).
        if obj is None:
            parent = ImplicitDistribution(fn, n_samples=par.get("n", 40), _seed=par.get("pseed"))
            obj = (parent, parent.condition(lambda e: e[1] > 0), parent.marginalize(lambda e: e[0]))
        else:
            parent = obj[0]
            for _ in range(5):
                parent.sample()
            sibling = parent.condition(lambda e: e[0] in ("alpha", "beta"))
            g = random.Random(99)
            for _ in range(7):
                sibling.sample(rng=g)
        draws = lambda d: (lambda g: [d.sample(rng=g) for _ in range(12)])(random.Random(seed))
        out = {"parent": draws(obj[0]), "conditioned": draws(obj[1]), "marginal": draws(obj[2])}
        return {"main": out, "aux": {}, "obj": obj}

    def mk():
        return ImplicitDistribution(fn, n_samples=par.get("n", 40), _seed=seed)
    out = {"items": dict(mk().items()),
           "sample": [mk().sample() for _ in range(2)],
           "stream": (lambda d: [d.sample() for _ in range(5)])(mk()),
           "expectation": mk().expectation(lambda e: e[1] + 0.1 * len(e[0])),
           "marginal": dict(mk().marginalize(lambda e: e[0]).items()),
           "conditioned": dict(mk().condition(lambda e: e[1] > 0).items())}
    return {"main": out, "aux": {}}


def _mdp_policy(mdp, kind):
    from msdm.core.mdp.policy import FunctionalPolicy
    from msdm.core.distributions import DictDistribution
    if kind == "uniform":
        return FunctionalPolicy(lambda s: DictDistribution.uniform(list(mdp.actions(s))))
    if kind == "skewed":
        def f(s):
            aa = list(mdp.actions(s))
            w = [i + 1 for i in range(len(aa))]
            return DictDistribution({a: x / sum(w) for a, x in zip(aa, w)})
        return FunctionalPolicy(f)
    if kind == "epsgreedy":     # mixture built with the `|` operator: greedy * (1 - eps) | uniform * eps
        def g(s):
            aa = list(mdp.actions(s))
            return DictDistribution.deterministic(aa[-1]) * 0.6 | DictDistribution.uniform(aa) * 0.4
        return FunctionalPolicy(g)
    from msdm.algorithms import ValueIteration
    key = ("vi", id(mdp))
    if key not in _PCACHE:
        _PCACHE[key] = ValueIteration(max_iterations=300).plan_on(mdp).policy
    return _PCACHE[key]


def c_rollout(prob, par, seed):
    mdp = problem(prob)
    pol = _mdp_policy(mdp, par.get("policy", "uniform"))
    traj = pol.run_on(mdp, rng=random.Random(seed), max_steps=par.get("max_steps", 30))
    return {"main": {"steps": [dict(s) for s in traj.steps]}, "aux": {}}


def c_evaluate(prob, par, seed):
    mdp = problem(prob)
    pol = _mdp_policy(mdp, par.get("policy", "uniform"))
    r = pol.evaluate_on(mdp, n_simulations=par.get("n", 6), max_steps=30, rng=random.Random(seed))
    return {"main": {"state_value": dict(r.state_value.items()), "initial_value": r.initial_value,
                     "occupancy": dict(r.state_occupancy.items()),
                     "action_value": {s: dict(av.items()) for s, av in r.action_value.items()}},
            "aux": {}}


def _pomdp_policy(pomdp, kind):
    import numpy as np
    key = (kind, id(pomdp))
    if key in _PCACHE:
        return _PCACHE[key]
    if kind == "fsc":
        from msdm.core.pomdp.finitestatecontroller import StochasticFiniteStateController
        nA, nS, nO = pomdp.observation_matrix.shape
        g = np.random.default_rng(5)
        a = g.uniform(1, 2, size=(2, nA))
        o = g.uniform(1, 2, size=(2, nA, nO, 2))
        pol = StochasticFiniteStateController(pomdp, a / a.sum(-1, keepdims=True), o / o.sum(-1, keepdims=True),
                                              np.array([0.5, 0.5]))
    else:
        from msdm.algorithms import QMDP
        pol = QMDP().plan_on(pomdp).policy
    _PCACHE[key] = pol
    return pol


def c_pomdp_rollout(prob, par, seed):
    pomdp = problem(prob)
    pol = _pomdp_policy(pomdp, par.get("policy", "fsc"))
    kw = {}
    if par.get("given"):
        kw["initial_state"] = sorted(pomdp.initial_state_dist().support,
                                     key=lambda s: json.dumps(canon(s), sort_keys=True))[0]
    traj = pol.run_on(pomdp, rng=random.Random(seed), max_steps=par.get("max_steps", 12), **kw)
    return {"main": {"steps": [list(s) for s in traj]}, "aux": {}}


COMPONENTS = {
    # component: (function, call site named in signatures, seeding idiom in spec/C13_Seeding.tla)
    # A function that returns "obj" (the planner / learner / semi-MDP object, which re-seeds from its
    # seed parameter on every call in the code as it stands) is also run a second time on that same
    # object (reuse=1); for the semi-MDP the second call also covers object histories (returned
    # distributions emptied by the caller, fields re-assigned), see c_semimdp.  Not reused, because
    # they continue a stream by design: ImplicitDistribution used through its own cached _rng (but
    # its draws with an explicit generator are reused, mode="explicit"), roll-outs and evaluate_on (the caller owns the generator passed
    # as rng=; "equally seeded generator" means a fresh one).
    "LAOStar": (c_laostar, "LAOStar.plan_on", "private", True),
    "LRTDP": (c_lrtdp, "LRTDP.plan_on", "private", True),
    "AStarSearch": (c_astar, "AStarSearch.plan_on", "private", True),
    "BreadthFirstSearch": (c_bfs, "BreadthFirstSearch.plan_on", "private", True),
    "TD": (c_td, "TemporalDifferenceLearning.train_on", "private", True),
    "RMAX": (c_rmax, "RMAX.train_on", "private", True),
    "BPI": (c_bpi, "FSCBoundedPolicyIteration", "private", True),
    "GA": (c_ga, "FSCGradientAscent", "private", True),
    "SemiMDP": (c_semimdp, "semimdp.obj_seed", "stable_obj_seed", True),
    "Implicit": (c_implicit, "ImplicitDistribution", "private", False),
    "Rollout": (c_rollout, "Policy.run_on", "threaded", False),
    "Evaluate": (c_evaluate, "Policy.evaluate_on", "threaded", False),
    "POMDPRollout": (c_pomdp_rollout, "POMDPPolicy.run_on", "threaded", False),
}


# =============================================================================================
# worker process: runs the plan under this interpreter's hash seed and logs events
# =============================================================================================

def is_reusable(case):
    """Second call on the same object (reuse = 1) is logged and judged for this case."""
    if case["comp"] == "Implicit":
        return case["par"].get("mode") in ("explicit", "derived")
    return COMPONENTS[case["comp"]][3]


def run_case(case, seeds, perts):
    fn = COMPONENTS[case["comp"]][0]
    evs = []
    t0 = time.time()
    reusable = is_reusable(case)
    for seed in seeds:
        obj = None
        # fresh object per slot; then (reuse=1) the object of the last slot is called once more
        # under the prior state of the globals that its first call started from
        for slot, p in list(enumerate(perts)) + ([(len(perts), perts[-1])] if reusable else []):
            reuse = 1 if slot == len(perts) else 0
            perturb(p)
            evs.append({"k": "P", "pert": p, "g": gstate()})
            pre = gstate()
            err = ""
            try:
                # (if the fresh run raised there is no object to reuse: the run is repeated fresh)
                r = fn(case["prob"], case["par"], seed, obj=obj) if reuse and obj is not None \
                    else fn(case["prob"], case["par"], seed)
                obj = r.get("obj")
                d, c, a = dig(r["main"]), dig(r["main"], coarse=True), dig(r["aux"])
            except Exception as e:                      # noqa: BLE001 - the exception type is the result
                d, c, a = "error:" + type(e).__name__, "error", ""
                err = f"{type(e).__name__}: {e}"[:200]
                if not reuse:
                    obj = None
            post = gstate()
            evs.append({"k": "R", "seed": str(seed), "pert": p, "slot": slot, "reuse": reuse, "pre": pre,
                        "post": post, "dig": d, "cdig": c, "adig": a, "err": err})
    try:
        lo = list_order(case["prob"])
    except Exception:                                   # noqa: BLE001
        lo = "?"
    return {"ev": evs, "lo": lo, "wall": round(time.time() - t0, 3)}


def worker_main(plan_path, out_path):
    import warnings
    warnings.filterwarnings("ignore")
    plan = json.load(open(plan_path))
    out = {"hashseed": os.environ.get("PYTHONHASHSEED", ""), "cases": []}
    for case in plan["cases"]:
        out["cases"].append(run_case(case, plan["seeds"], plan["perts"]))
    with open(out_path, "w") as f:
        json.dump(out, f)


# =============================================================================================
# plan
# =============================================================================================

def case_id(c):
    return f"{c['comp']}|{c['prob']}|{json.dumps(c['par'], sort_keys=True)}"


def case_meta(c):
    """(site, idiom, lk, shape, multi) of a case; lk / multi are the inputs of Breaks in the spec."""
    _, site, idiom, _ = COMPONENTS[c["comp"]]
    m = meta(c["prob"])
    lk, shape, multi = m["lk"], m["shape"], m["multi"]
    if c["comp"] == "SemiMDP":
        kind = c["par"]["options"]
        if kind == "plain":         # identity hash, but a str name: covered by the stable rendering
            shape = shape + "+identity-hash-named-option"
        elif kind == "named":
            lk, shape = "str", shape + "+str-option-name"
        elif kind == "intname":
            shape = shape + "+int-option-name"
        else:
            shape = shape + "+unnamed-option"
    if c["comp"] == "POMDPRollout":
        if c["par"].get("given"):
            multi, shape = 0, shape + "+given-initial-state"
        else:
            shape = shape + ("+sampled-initial-state" if multi else "+single-initial-state")
    return site, idiom, lk, shape, multi


def C(comp, prob, **par):
    return {"comp": comp, "prob": prob, "par": par}


def make_plan(tier, seed):
    cases = []
    # members 0..5 of every random problem family were run clean of exceptions when the check was built
    ks = [seed % 6] if tier == "quick" else [0, 1, 2, 3, 4, 5]
    for k in ks:
        s = (lambda name: name if k == 0 else f"{name}@{k}")
        cases += [
            C("LAOStar", s("mdp_str")), C("LAOStar", s("mdp_str_g1")), C("LAOStar", s("gridworld")),
            C("LAOStar", s("mdp_int")), C("LAOStar", s("mdp_tuple"), rao=False), C("LAOStar", s("mdp_str2"), rno=False),
            C("LAOStar", s("mdp_str"), rao=False, rno=False), C("LAOStar", s("mdp_int"), rao=False, rno=False),
            C("LRTDP", s("mdp_str")), C("LRTDP", s("gridworld")), C("LRTDP", s("mdp_int"), rao=False),
            C("LRTDP", s("mdp_str_g1")), C("LRTDP", s("mdp_str_single"), rao=False),
            C("AStarSearch", s("graph_str")), C("AStarSearch", s("graph_tuple")),
            C("AStarSearch", s("graph_str"), tie="lifo"), C("AStarSearch", s("graph_tuple"), tie="fifo"),
            C("AStarSearch", s("graph_str"), rao=False),
            C("AStarSearch", s("gridworld_single")),
            C("AStarSearch", s("graph_stored")), C("AStarSearch", s("graph_stored"), tie="lifo"),
            C("BreadthFirstSearch", s("graph_stored")),
            C("BreadthFirstSearch", s("graph_str")), C("BreadthFirstSearch", s("graph_tuple")),
            C("BreadthFirstSearch", s("gridworld_single")),
            C("TD", s("mdp_str"), cls="QLearning"), C("TD", s("gridworld"), cls="QLearning", episodes=8),
            C("TD", s("mdp_int"), cls="QLearning", temp=0.5),
            C("TD", s("mdp_str"), cls="SARSA", temp=0.5), C("TD", s("mdp_tuple"), cls="SARSA"),
            C("TD", s("mdp_str"), cls="ExpectedSARSA"), C("TD", s("gridworld"), cls="ExpectedSARSA", episodes=8),
            C("TD", s("mdp_str"), cls="DoubleQLearning"), C("TD", s("mdp_tuple"), cls="DoubleQLearning", temp=0.5),
            C("TD", s("mdp_str_single"), cls="DoubleQLearning", eps=0.0),
            C("RMAX", s("mdp_str")), C("RMAX", s("mdp_int")), C("RMAX", s("gridworld"), episodes=6),
            C("BPI", s("pomdp_str")), C("GA", s("pomdp_str")),
            C("SemiMDP", s("mdp_str"), options="named"), C("SemiMDP", s("mdp_int"), options="named"),
            C("SemiMDP", s("mdp_int"), options="intname"), C("SemiMDP", s("mdp_int"), options="unnamed"),
            C("SemiMDP", s("gridworld"), options="unnamed"), C("SemiMDP", s("mdp_int"), options="plain"),
            C("SemiMDP", s("mdp_fset"), options="named"), C("SemiMDP", s("mdp_fset"), options="unnamed"),
            C("SemiMDP", s("mdp_fset"), options="plain"),
            C("Rollout", s("mdp_str")), C("Rollout", s("mdp_str"), policy="skewed"),
            C("Rollout", s("gridworld"), policy="vi"), C("Rollout", s("mdp_int")),
            C("Rollout", s("mdp_tuple"), policy="vi"), C("Rollout", s("mdp_str_single"), policy="skewed"),
            C("Evaluate", s("mdp_str")), C("Evaluate", s("gridworld")), C("Evaluate", s("mdp_int"), policy="skewed"),
            C("Rollout", s("mdp_str"), policy="epsgreedy"), C("Rollout", s("mdp_tuple"), policy="epsgreedy"),
            C("Evaluate", s("mdp_str2"), policy="epsgreedy"), C("Rollout", s("gridworld"), policy="epsgreedy"),
            C("Rollout", s("mdp_mixdyn")), C("Rollout", s("mdp_mixdyn"), policy="epsgreedy"),
            C("LRTDP", s("mdp_mixdyn")), C("TD", s("mdp_mixdyn"), cls="QLearning"),
            C("TD", s("mdp_mixdyn"), cls="ExpectedSARSA", eps=0.3),
            C("POMDPRollout", s("pomdp_str")), C("POMDPRollout", s("pomdp_str"), policy="qmdp"),
            C("POMDPRollout", s("pomdp_str"), given=1),
        ]
        if k == ks[0]:
            cases += [
                C("AStarSearch", "romania"), C("BreadthFirstSearch", "romania"),
                C("BPI", "tiger"), C("BPI", "loadunload"), C("GA", "tiger"), C("GA", "loadunload"),
                C("SemiMDP", "lineworld", options="named"), C("SemiMDP", "lineworld", options="unnamed"),
                C("Implicit", "-"), C("Implicit", "-", n=7),
                C("Implicit", "-", mode="explicit"), C("Implicit", "-", mode="explicit", pseed=11),
                C("Implicit", "-", mode="derived"), C("Implicit", "-", mode="derived", n=9),
                C("POMDPRollout", "tiger"), C("POMDPRollout", "tiger", policy="qmdp"),
                C("POMDPRollout", "tiger", given=1), C("POMDPRollout", "loadunload"),
            ]
    if tier == "quick":
        seeds = [0, 1, 7, 2 ** 31]
        p1, p2 = 1 + 3 * seed, 2 + 3 * seed
        perts = [p1, p2, p1]                     # third run = rerun under the first prior state
        hashseeds = ["0", "1", str(4242 + 17 * seed)]
    else:
        seeds = [0, 1, 7, 2 ** 31, 99991 + seed]
        p1, p2, p3 = 1 + 3 * seed, 2 + 3 * seed, 3 + 3 * seed
        perts = [p1, p2, p3, p1]
        hashseeds = ["0", "1", "2", "3", str(4242 + 17 * seed), str(977 + seed), str(2 ** 31 + seed), str(65537 + seed)]
    return {"cases": cases, "seeds": seeds, "perts": perts, "hashseeds": hashseeds}


# =============================================================================================
# driver side: processes, merge, TLC, verdicts
# =============================================================================================

def spawn_workers(ctx, plan, tag):
    wd = ctx.workdir / tag
    wd.mkdir(parents=True, exist_ok=True)
    plan_path = wd / "plan.json"
    plan_path.write_text(json.dumps({k: plan[k] for k in ("cases", "seeds", "perts")}))
    procs = []
    for i, hs in enumerate(plan["hashseeds"]):
        env = dict(os.environ)
        env.update(PYTHONHASHSEED=hs, OMP_NUM_THREADS="1", MKL_NUM_THREADS="1", OPENBLAS_NUM_THREADS="1",
                   MSDM_VERIF="1")
        out = wd / f"out{i}.json"
        log = open(wd / f"log{i}.txt", "w")
        p = subprocess.Popen(["/venv/bin/python", "-m", "harness.drivers.C13", "worker", str(plan_path), str(out)],
                             cwd=str(VERIF), env=env, stdout=log, stderr=subprocess.STDOUT)
        procs.append((p, out, log, hs))
    return procs


def collect_workers(procs, timeout):
    outs = []
    t0 = time.time()
    for p, out, log, hs in procs:
        try:
            p.wait(timeout=max(1, timeout - (time.time() - t0)))
        except subprocess.TimeoutExpired:
            for q, *_ in procs:
                q.kill()
            raise TLCFailure(f"C13 worker (PYTHONHASHSEED={hs}) timed out after {timeout}s")
        log.close()
        if p.returncode != 0 or not out.exists():
            tail = Path(log.name).read_text()[-2000:]
            raise TLCFailure(f"C13 worker (PYTHONHASHSEED={hs}) failed with exit {p.returncode}:\n{tail}")
        outs.append(json.load(open(out)))
    return outs


def merge(plan, outs):
    """One trace per case: events of all processes interleaved run by run."""
    traces = []
    seeds = [str(s) for s in plan["seeds"]]
    for ci, case in enumerate(plan["cases"]):
        site, idiom, lk, shape, multi = case_meta(case)
        evs = []
        per = [o["cases"][ci]["ev"] for o in outs]
        n = len(per[0])
        for j in range(0, n, 2):
            for pi, pe in enumerate(per):
                for e in pe[j:j + 2]:
                    e = dict(e)
                    e["proc"] = pi + 1
                    evs.append(e)
        traces.append({"case": case_id(case), "comp": case["comp"], "idiom": idiom, "lk": lk, "multi": multi,
                       "seeds": seeds, "perts": plan["perts"], "reuse": 1 if is_reusable(case) else 0,
                       "procs": [{"hs": str(o["hashseed"]), "lo": o["cases"][ci]["lo"]} for o in outs],
                       "ev": evs})
    return traces


TRACE_CFG = """INIT Init
NEXT Next
CHECK_DEADLOCK FALSE
INVARIANT Emit
INVARIANT TraceClean
INVARIANT TraceWellFormed
"""

CLAUSE_NAME = {"rerun": "not-repeatable", "global": "depends-on-global-generators",
               "hash": "depends-on-hash-seed", "reuse": "differs-on-object-reuse"}
CLAUSE_TEXT = {"rerun": "two runs in the same process under the same prior state of the global generators returned different results",
               "global": "the result changes with the prior state of the process-global generators",
               "hash": "the result differs between processes started with different PYTHONHASHSEED",
               "isolated": "the seeded run changed the state of a process-global generator",
               "reuse": "a second use of the same planner / learner / semi-MDP / distribution object - or of a long-lived object "
                        "with a call history that ends in the same parameters and seed - (same problem, same prior state of the "
                        "global generators) returned a different result than a fresh object"}


def validate(ctx, plan, traces, tag, *, strict=True):
    """TLC trace validation of the merged logs. Returns {trace index (0-based): summary}."""
    chunk = 120
    summaries = {}
    for k in range(0, len(traces), chunk):
        part = traces[k:k + chunk]
        res = run_tlc(ctx.workdir / f"{tag}-tlc{k}", MODULE, TRACE_CFG, files={"batch.json": part},
                      env={"BATCH_FILE": "batch.json", "MODE": "trace", "IDIOM": "all"}, workers=6, timeout=1500)
        ctx.add_tlc(res, f"trace validation of {len(part)} merged multi-process logs")
        got = {}
        for r in res.records:
            if r.get("kind") == "summary":
                got[r["tid"] - 1 + k] = r
        if len(got) != len(part):
            raise TLCFailure(f"trace validation emitted {len(got)} summaries for {len(part)} traces")
        dirty = any(any(v for v in s["observed"].values()) for s in got.values())
        if dirty != ("TraceClean" in res.violated):
            raise TLCFailure("TraceClean verdict of TLC and the emitted summaries disagree")
        summaries.update(got)
    return summaries


def judge(ctx, plan, traces, summaries):
    """Turns the verdicts decided by the spec into VIOLATION / DRIFT lines and evidence numbers."""
    nfail = 0
    for i, tr in enumerate(traces):
        s = summaries[i]
        case = plan["cases"][i]
        site, idiom, lk, shape, multi = case_meta(case)
        if s["malformed"] or not s["covered"]:
            if ctx.selftest == "quiet":
                ctx.violations.append(("C13:malformed-log", tr["case"], None))
                print(f"  (selftest) detected: malformed / incomplete log of {tr['case']}", flush=True)
                nfail += 1
                continue
            raise TLCFailure(f"log of {tr['case']} is not explained by the model "
                             f"(malformed={s['malformed']} covered={s['covered']})")
        ctx.evaluations += s["nruns"]
        if s["errors"]:
            ctx.skip(f"component raised the same exception in every run ({case['comp']})", len(s["errors"]))
            err = next((e["err"] for e in tr["ev"] if e["k"] == "R" and e.get("err")), "")
            print(f"NOTE property=C13 {tr['case']} raised in every run of seeds {sorted(s['errors'])}: {err}"[:300], flush=True)
        seeds = sorted(s["observed"].keys())
        clauses = sorted({c for v in s["observed"].values() for c in v})
        replay = {"case": case, "seeds": plan["seeds"], "perts": plan["perts"], "hashseeds": plan["hashseeds"]}
        for c in clauses:
            bad = [x for x in seeds if c in s["observed"][x]]
            ulp = all(c in s["ulponly"][x] for x in bad)
            gens = sorted({g for x in bad for g in s["gens"][x]})
            # the label kind is part of the input shape only where hashing matters
            sh = shape if c == "hash" else "+".join(shape.split("+")[1:])
            # only seed 0 breaks isolation / independence of the globals: falsy-seed handling
            if bad == ["0"] and len(seeds) > 1 and c != "hash":
                sh += ":seed=0"
            if c == "hash" and s["listorder"]:
                sh += ":list-order"
            if ulp:
                sh += ":ulp-only"
            name = ("disturbs-" + "+".join(gens)) if c == "isolated" else CLAUSE_NAME[c]
            predicted = all(c in s["predicted"][x] for x in bad)
            what = (f"{tr['case']}: {CLAUSE_TEXT[c]}"
                    + (f" ({', '.join(gens)})" if c == "isolated" else "")
                    + f"; seeds {bad} of {seeds}; processes PYTHONHASHSEED={[p['hs'] for p in tr['procs']]}"
                    + ("; floats differ in the last bits only" if ulp else "")
                    + ("; the order of the problem's state/action/observation lists differs between the processes" if c == "hash" and s["listorder"] else "")
                    + (f"; seeding idiom '{idiom}' of spec/C13_Seeding.tla predicts this" if predicted else ""))
            if ctx.violation(f"C13:{site}:{name}:{sh.strip(':')}".rstrip(":"), what, replay):
                nfail += 1
        # the idiom of the model predicts a break for this input shape but the code shows none of
        # the predicted clauses: the model no longer describes the code (e.g. after a repair)
        pred = {x: set(s["predicted"][x]) for x in seeds if s["predicted"][x] and x not in s["errors"]}
        if pred and not any(pred[x] & set(s["observed"][x]) for x in pred):
            ctx.drift("idiom-prediction", {"case": tr["case"], "idiom": idiom,
                                           "predicted_not_observed": {x: sorted(v) for x, v in pred.items()}})
        if s["aux"]:
            ctx.drift("by-products", {"case": tr["case"], "seeds": sorted(s["aux"]),
                                      "detail": "same principal result, different implementation-shaped by-products"})
        if not clauses:
            ctx.validated += 1
        if s["seedsensitive"] and not s["errors"]:
            ctx.nontrivial(tr["case"])
        else:
            ctx.count("cases_whose_result_does_not_depend_on_the_seed")
            ctx.extra.setdefault("seed_insensitive_cases", []).append(tr["case"])
        ctx.sample({"case": tr["case"], "idiom": idiom, "processes": [p["hs"] for p in tr["procs"]],
                    "first_run": next(e for e in tr["ev"] if e["k"] == "R"),
                    "observed": s["observed"], "predicted": s["predicted"]})
    return nfail


# ---------------------------------------------------------------------------------------------
# MC of the seeding idioms
# ---------------------------------------------------------------------------------------------
IDIOMS = ["private", "threaded", "stable_obj_seed", "seed_or_draw_numpy", "seed_or_draw_torch", "unthreaded_first_draw",
          "obj_hash", "obj_identity", "generator_in_init", "memo_per_object"]
REUSE_IDIOMS = ["private", "threaded", "stable_obj_seed", "generator_in_init", "memo_per_object"]
MC_CFG = "INIT Init\nNEXT Next\nCHECK_DEADLOCK FALSE\nINVARIANT Emit\nINVARIANT PredictionSound\n"
PROP_CFG = ("INIT Init\nNEXT Next\nCHECK_DEADLOCK FALSE\nINVARIANT Isolated\nINVARIANT Repeatable\n"
            "INVARIANT GlobalIndependent\nINVARIANT HashIndependent\nINVARIANT Reusable\n")


def py_idiom_table():
    """Independent enumeration (plain Python) of which clauses each idiom can break."""
    import itertools
    priors = [dict(zip(GENS, v)) for v in itertools.product((0, 1), repeat=3)]

    def execute(idiom, seed, lk, multi, proc, pre, addr):
        post = dict(pre)
        if idiom in ("private", "threaded", "generator_in_init", "memo_per_object"):
            return ("seed", seed), post
        if idiom == "stable_obj_seed":
            return ("derived from text", seed), post
        if idiom.startswith("seed_or_draw"):
            g = idiom.rsplit("_", 1)[1]
            used = seed or None
            if used is None:
                post[g] = 1 - pre[g]
                return ("drawn", pre[g]), post
            return ("seed", used), post
        if idiom == "unthreaded_first_draw":
            if multi:
                post["random"] = 1 - pre["random"]
                return ("seed", seed, "first draw", pre["random"]), post
            return ("seed", seed), post
        if idiom == "obj_hash":
            return ("derived", seed, proc if lk == "str" else "stable"), post
        if idiom == "obj_identity":
            return ("address", addr), post
        raise ValueError(idiom)

    table = {}
    for idiom in IDIOMS:
        addrs = (0, 1) if idiom == "obj_identity" else (0,)
        for seed in (0, 1, 2):
            for lk in ("int", "str"):
                for multi in (0, 1):
                    fails = set()
                    runs = [(p, pre, a) for p in (1, 2) for pre in priors for a in addrs]
                    for (p1, pre1, a1), (p2, pre2, a2) in itertools.product(runs, repeat=2):
                        r1, _ = execute(idiom, seed, lk, multi, p1, pre1, a1)
                        r2, post2 = execute(idiom, seed, lk, multi, p2, pre2, a2)
                        if post2 != pre2:
                            fails.add("isolated")
                        if r1 != r2:
                            if p1 == p2 and pre1 == pre2:
                                fails.add("rerun")
                            elif p1 == p2:
                                fails.add("global")
                            elif pre1 == pre2:
                                fails.add("hash")
                    if idiom in REUSE_IDIOMS:       # second call on the object of a fresh run
                        for p1, pre1, a1 in runs:
                            first, _ = execute(idiom, seed, lk, multi, p1, pre1, a1)
                            second = first + ("stream continued",) if idiom == "generator_in_init" else \
                                ("result memoised under other parameters",) if idiom == "memo_per_object" else first
                            if second != first:
                                fails.add("reuse")
                    key = (idiom, 1 if seed == 0 else 0, lk, multi)
                    table[key] = table.get(key, set()) | fails
    return table


def model_check(ctx):
    """MC of the idioms; returns the model-checked table {(idiom, z, lk, multi): clauses}."""
    res = run_tlc(ctx.workdir / "mc-all", MODULE, MC_CFG, env={"MODE": "mc", "IDIOM": "all", "BATCH_FILE": "none"},
                  workers=4, coverage=(ctx.tier == "thorough"))
    if res.violated:
        raise TLCFailure("design invariant PredictionSound violated in C13_Seeding:\n" + (res.traces[0][:3000] if res.traces else ""))
    table = {}
    for r in res.records:
        if "idiom" in r:
            k = (r["idiom"], r["z"], r["lk"], r["multi"])
            table[k] = table.get(k, set()) | set(r["fail"])
    py = py_idiom_table()
    for k, v in py.items():
        if table.get(k, set()) != v:
            raise TLCFailure(f"TLA+ idiom model and the independent Python enumeration disagree on {k}: "
                             f"{sorted(table.get(k, set()))} vs {sorted(v)}")
    ctx.count("idiom_table_crosschecks", len(py))
    runs = [(res, "mc: all seeding idioms x seeds x label kinds x initial supports x 2 processes x prior global states")]
    cex = {}
    expected = {"good": None, "seed_or_draw_numpy": "Isolated", "seed_or_draw_torch": "Isolated",
                "unthreaded_first_draw": "Isolated", "obj_hash": "HashIndependent", "obj_identity": "Repeatable",
                "generator_in_init": "Reusable", "memo_per_object": "Reusable"}
    from concurrent.futures import ThreadPoolExecutor
    with ThreadPoolExecutor(max_workers=3) as ex:
        futs = {sel: ex.submit(run_tlc, ctx.workdir / f"mc-{sel}", MODULE, PROP_CFG,
                               env={"MODE": "mc", "IDIOM": sel, "BATCH_FILE": "none"}, workers=1, continue_=False)
                for sel in expected}
        results = {sel: f.result() for sel, f in futs.items()}
    for sel, exp in expected.items():
        r = results[sel]
        runs.append((r, f"mc: property invariants on idiom(s) '{sel}'"))
        if exp is None:
            if r.violated:
                raise TLCFailure("the sound idioms (private generator, threaded generator) violate the property in the model:\n"
                                 + (r.traces[0][:3000] if r.traces else ""))
        else:
            if not r.violated:
                raise TLCFailure(f"idiom {sel}: TLC found no counterexample although Breaks predicts one")
            cex[sel] = {"violated": r.violated[0], "trace": (r.traces[0][:2500] if r.traces else "")}
    ctx.extra["model_counterexamples"] = cex
    return table, runs


def check_predictions(table, summaries, traces):
    """The predictions used in the trace summaries (operator Breaks) equal the model-checked table."""
    for i, tr in enumerate(traces):
        for s, pred in summaries[i]["predicted"].items():
            raw = table.get((tr["idiom"], 1 if s == "0" else 0, tr["lk"], tr["multi"]), set())
            masked = raw - {"global", "hash", "reuse"} if "rerun" in raw else raw
            if set(pred) != masked:
                raise TLCFailure(f"Breaks disagrees with the model-checked table on {tr['case']} seed {s}: "
                                 f"{sorted(pred)} vs {sorted(masked)}")


# ---------------------------------------------------------------------------------------------
def execute(ctx, plan, tag, *, with_mc=True, timeout=None):
    from concurrent.futures import ThreadPoolExecutor
    timeout = timeout or (240 if ctx.tier == "quick" else 1500)
    procs = spawn_workers(ctx, plan, tag)
    table = None
    if with_mc:
        with ThreadPoolExecutor(max_workers=1) as ex:
            fut = ex.submit(model_check, ctx)
            outs = collect_workers(procs, timeout)
            table, runs = fut.result()
        for r, what in runs:
            ctx.add_tlc(r, what)
    else:
        outs = collect_workers(procs, timeout)
    traces = merge(plan, outs)
    return traces, table


def run(ctx):
    ctx.rule = ("one case = (component, problem, parameters) run for every seed x prior state of the global generators "
                "(two states + one rerun) x worker process (different PYTHONHASHSEED); non-trivial = the principal result "
                "of the case differs between at least two seeds (so the digest is sensitive to the random stream) and no run raised")
    ctx.assumptions = [
        "digests render results canonically: dict / set / distribution order-free, sequences ordered, floats by float.hex",
        "policies are compared through their action distributions on the states the result mentions",
        "worker processes differ only in PYTHONHASHSEED (same machine, libraries, single-threaded BLAS/torch)",
        "the MC table of idioms is cross-checked against an independent Python enumeration; "
        "the operator Breaks used in trace summaries is cross-checked against that table",
    ]
    plan = make_plan(ctx.tier, ctx.seed)
    traces, table = execute(ctx, plan, "main")
    summaries = validate(ctx, plan, traces, "main")
    check_predictions(table, summaries, traces)
    judge(ctx, plan, traces, summaries)
    ctx.extra["processes"] = plan["hashseeds"]
    ctx.extra["seeds"] = plan["seeds"]
    ctx.extra["components"] = sorted({c["comp"] + ("/" + c["par"]["cls"] if "cls" in c["par"] else "") for c in plan["cases"]})


def replay(ctx, case):
    plan = {"cases": [case["case"]], "seeds": case["seeds"], "perts": case["perts"], "hashseeds": case["hashseeds"]}
    traces, _ = execute(ctx, plan, "replay", with_mc=False)
    summaries = validate(ctx, plan, traces, "replay")
    judge(ctx, plan, traces, summaries)


def selftest(ctx):
    """Binding demonstration on recorded logs of sound components: (1) one digest returned by the
    real code is altered, (2) one recorded generator state after a run is altered, (3) one Run
    event is dropped, (4) the digest of a second call on the same planner object is altered.  Each must be reported for exactly that case; the untouched logs must be clean."""
    import copy
    cases = [C("LRTDP", "mdp_str"), C("TD", "mdp_str", cls="QLearning"), C("Rollout", "mdp_str"),
             C("AStarSearch", "graph_str"), C("Implicit", "-")]
    plan = {"cases": cases, "seeds": [0, 1, 7], "perts": [1, 2, 1], "hashseeds": ["0", "1"]}
    traces, _ = execute(ctx, plan, "selftest", with_mc=False)
    base = validate(ctx, plan, traces, "st-base")
    clean = all(not any(v for v in s["observed"].values()) and s["covered"] and not s["malformed"] for s in base.values())
    bad = copy.deepcopy(traces)
    runs = lambda t: [e for e in t["ev"] if e["k"] == "R"]
    fresh = lambda t: [e for e in runs(t) if not e["reuse"]]
    fresh(bad[0])[-1].update(dig="0" * 16, cdig="1" * 16)   # (1) a different result in the last process
    r = fresh(bad[1])[3]
    r["post"] = dict(r["post"], numpy="f" * 12)             # (2) numpy's global generator moved during a run
    idx = next(i for i, e in enumerate(bad[2]["ev"]) if e["k"] == "R" and e["proc"] == 2)
    del bad[2]["ev"][idx]                                   # (3) dropped event
    next(e for e in runs(bad[3]) if e["reuse"]).update(dig="2" * 16, cdig="3" * 16)   # (4) second call on the same object differs
    summ = validate(ctx, plan, bad, "st-bad")
    ok1 = any("hash" in v or "rerun" in v or "global" in v for v in summ[0]["observed"].values())
    ok2 = any("isolated" in v for v in summ[1]["observed"].values()) or bool(summ[1]["malformed"])
    ok3 = not summ[2]["covered"]
    ok4 = any("reuse" in v for v in summ[3]["observed"].values())
    untouched = all(not any(v for v in summ[i]["observed"].values()) and summ[i]["covered"] for i in (4,))
    before = len(ctx.violations)
    judge(ctx, plan, bad, summ)
    reported = len(ctx.violations) - before
    print(f"  (selftest) baseline clean={clean} digest-corruption={ok1} state-corruption={ok2} dropped-event={ok3} reuse-corruption={ok4} "
          f"untouched-clean={untouched} reported={reported}", flush=True)
    return clean and ok1 and ok2 and ok3 and ok4 and untouched and reported >= 4


if __name__ == "__main__":
    if len(sys.argv) == 4 and sys.argv[1] == "worker":
        worker_main(sys.argv[2], sys.argv[3])
    else:
        sys.exit("usage: python -m harness.drivers.C13 worker <plan.json> <out.json>")
