"""C11 - finite distributions obey the probability calculus.

Pipeline A (spec -> code): instances (an initial distribution of some concrete kind + menus of
operand distributions, projections, kernels, likelihoods, real functions, mixture weights, softmax
shifts) -> TLC explores every chain of DEPTH operations of spec/C11_Dist.tla, checks the laws of the
statement as invariants in every state and prints the exact measure expected after every step ->
the driver builds the same objects in msdm in every concrete kind that denotes the same measure
(DictDistribution with zero entries / from_pairs / Uniform over list, tuple / Deterministic /
Softmax / TableDistribution / row of a ProbabilityTable), runs the real operations step by step and
compares items()/prob() with the exact expectation after every step.

Pipeline B (code -> spec): seeded draws of the real sample() on initial objects of every kind and
on results of chains are recorded as traces; TLC (MODE=trace) re-plays the chain with the same
operators and accepts a trace iff every draw is an enabled Sample action of the model and the two
equally seeded runs are identical.
"""
import math
import random
from fractions import Fraction as F

import numpy as np

from ..core import digest
from ..tlc import run_tlc, TLCFailure

MODULE = "C11_Dist"
LAWS = ["LawMarg", "LawChain", "LawCond", "LawJoint", "LawMix", "LawAnd", "LawNorm", "LawExpect",
        "LawSoftmax", "LawSample", "WellFormed"]
CFG = "INIT Init\nNEXT Next\nCHECK_DEADLOCK FALSE\nINVARIANT Emit\n" + "".join(f"INVARIANT {x}\n" for x in LAWS)
CFG_TRACE = "INIT Init\nNEXT Next\nCHECK_DEADLOCK FALSE\nINVARIANT Emit\nINVARIANT WellFormed\n"

# Direct algebraic results (DESIGN 5.1): every compared number is the result of <= 3 chained
# operations, each a sum of <= 12 products of numbers in [0, 16] (one exp/log round trip for `&`):
# relative error <= ~100 ulp = 1e-14.  1e-9 leaves five orders of magnitude of head room.
TOL = 1e-9
# normalize: p_i / total with total = fl(sum of <= 9 non-negative floats): relative error of the sum <= 8u,
# of the correctly rounded quotient <= u, of the inputs (<= 2 earlier operations on correctly rounded
# w/d) <= ~10u, u = 1.1e-16 -> < 3e-15 relative per entry, total of the result within 10u of 1.
# 1e-12 (relative, per entry and for the total) leaves more than two orders of magnitude of head room and
# still resolves a total that differs from 1 by 1e-6.
TOL_NORM = 1e-12
# absolute floor of the relative test: an event of the `tiny` class (abstract weight 0, real weight
# <= 2^-64 of the mass) can be amplified by the totals of the <= 2 earlier steps (each >= 2^-15 by the
# magnitude bound of the family): 2^-64 * 2^15 = 2^-49 = 1.8e-15; every tracked non-zero probability of the
# families is >= 1e-8, so 1e-13 hides nothing
ABS_FLOOR = 1e-13
LN2 = math.log(2.0)
NA = 4
MAXN = 6
# bound on lcm(denominators) * (1 + mass) of every measure of a chain, so that no intermediate
# product of spec/lib/Num.tla exceeds 2^30 (see magnitude())
MAGLIM = 2 ** 15

POOLS = {
    "str": ["a", "b", "c", "d"],
    "int": [0, 1, 2, 3],
    "tuple": [("x", 0, 0), ("x", 0, 1), ("y", 1, 0), ("y", 1, 1)],
    "mixed": ["a", 3, ("x", 1), frozenset({2})],
    "mixed2": [None, 2.5, ("q",), "None"],
    "negzero": [-1, "1", (1,), 1.5],
    "falsy": [(), 0, "", None],          # every label is falsy in Python; () is also numpy's "select all"
}
ROT_POOLS = sorted(POOLS)       # rotated over the instances of the 4-atom families
# 6-label pools of the fibre family (supports of up to 6 events)
POOLS.update({
    "str6": ["a", "b", "c", "d", "e", "f"],
    "int6": [0, 1, 2, 3, 4, 5],
    "mixed6": ["a", 3, ("x", 1), frozenset({2}), None, 2.5],
    "falsy6": [(), 0, "", None, 0.5, "x"],
})
POOLS6 = ["falsy6", "int6", "mixed6", "str6"]


# --------------------------------------------------------------------------------------------
# abstract events: atom = (i,), pair = (x, y) with x, y events
# --------------------------------------------------------------------------------------------
def ev_of(j):
    """JSON event ([i] or [x, y]) -> nested tuple."""
    if len(j) == 1 and isinstance(j[0], int):
        return (j[0],)
    return tuple(ev_of(x) for x in j)


def ev_json(e):
    if len(e) == 1 and isinstance(e[0], int):
        return [e[0]]
    return [ev_json(x) for x in e]


def conc(e, labels):
    if len(e) == 1 and isinstance(e[0], int):
        return labels[e[0] - 1]
    return tuple(conc(x, labels) for x in e)


def abstr(c, inv):
    """concrete event -> abstract event, None if the model cannot name it."""
    try:
        if c in inv:
            return inv[c]
    except TypeError:
        return None
    if isinstance(c, tuple) and len(c) == 2:
        a, b = abstr(c[0], inv), abstr(c[1], inv)
        if a is not None and b is not None:
            return (a, b)
    return None


def frac(x):
    return F(x[0], x[1])


def at(tab, i):          # cyclic menu lookup, i 0-based
    return tab[i % len(tab)]


# --------------------------------------------------------------------------------------------
# instance generation
# --------------------------------------------------------------------------------------------
KINDS = ["dict", "softmax", "table", "uniform", "det", "softmax", "pairs", "table"]
# likelihood scale 2^-1027: the evidence sum p(x) l(x) 2^-1027 is below 2^-1024 = 1/DBL_MAX (for sums < 8), yet
# every term >= 2^-7 * 2^-1027 = 2^-1034 keeps 40 of its 52 mantissa bits (subnormals end at 2^-1074), i.e. a
# relative error <= 2^-40 = 1e-12 per term, three orders below the comparison tolerance 1e-9
LSCALE = 1027
LS_MIN_TERM = F(1, 2 ** 7)
TINYGAP = 64          # as in the spec: a finite score more than 64 ln 2 below the maximum is `tiny`
TINY_REAL = 1e-18     # what the real code may report for such an event (2^-64 = 5.4e-20)
WIDE_GAPS = [70, 200, 1100, 1500, 3000]


def fix_rec(r):
    r.setdefault("ni", [0] * len(r["ev"]))
    return r


def fix_inst(inst):
    inst.setdefault("OPS", list(OPS))
    inst.setdefault("FIBK", [])
    inst.setdefault("LS", [0] * len(inst["L"]))
    fix_rec(inst["init"])
    for r in inst["O"]:
        fix_rec(r)
    for row in inst["K"]:
        for r in row:
            fix_rec(r)
    return inst


def softmax_corner(rng, rec, style):
    """Softmax corner inputs: very wide score spreads and / or -infinity scores (>= 1 near-max finite score)."""
    n = len(rec["ev"])
    if n == 1:
        return rec
    order = rng.sample(range(n), n)
    keep = order[0]                                   # stays the (near-)maximum
    for i in order[1:]:
        r = rng.random()
        if style in ("wide", "both") and r < 0.6:
            rec["k"][i] = rec["k"][keep] - rng.choice(WIDE_GAPS) - rng.randint(0, 3)
        elif style in ("ninf", "both") and r < (0.95 if style == "both" else 0.6):
            rec["ni"][i] = 1
    if style in ("wide", "both") and not any(rec["k"][keep] - rec["k"][i] > TINYGAP for i in range(n)):
        rec["k"][order[1]] = rec["k"][keep] - rng.choice(WIDE_GAPS)
        rec["ni"][order[1]] = 0
    if style in ("ninf", "both") and not any(rec["ni"]):
        rec["ni"][order[-1]] = 1
    # every finite score within 8 of the maximum or more than 64 below (filter SoftmaxOK of the spec)
    mx = max(k for k, f in zip(rec["k"], rec["ni"]) if not f)
    for i in range(n):
        if not rec["ni"][i] and 8 < mx - rec["k"][i] <= TINYGAP:
            rec["k"][i] = mx - 2
    return rec


def rand_rec(rng, kind=None, size=None, allow_zero_mass=False):
    """A concrete-representation record (fields uniform over kinds for TLC)."""
    kind = kind or rng.choice(KINDS)
    size = size or rng.choice([1, 2, 2, 3, 3])
    atoms = rng.sample(range(1, NA + 1), size)
    ev = [[a] for a in atoms]
    rec = {"kind": kind, "ev": ev, "w": [1] * size, "d": 1, "k": [0] * size}
    if kind == "det":
        rec["ev"] = ev[:1]
        rec["w"], rec["k"] = [1], [0]
    elif kind == "uniform":
        pass
    elif kind == "softmax":
        rec["k"] = [rng.randint(-2, 2) for _ in range(size)]
    elif kind == "pairs":
        # duplicates: from_pairs sums them
        extra = [rng.choice(atoms) for _ in range(rng.choice([1, 2]))]
        rec["ev"] = [[a] for a in atoms + extra]
        rng.shuffle(rec["ev"])
        rec["w"] = [rng.choice([0, 1, 1, 2]) for _ in rec["ev"]]
        if sum(rec["w"]) == 0:
            rec["w"][0] = 1
        rec["d"] = rng.choice([sum(rec["w"]), 4])
        rec["k"] = [0] * len(rec["ev"])
    else:   # dict / table: weights 0..3 with zero entries, normalised or not
        w = [rng.choice([0, 1, 1, 2, 3]) for _ in range(size)]
        if sum(w) == 0 and not (allow_zero_mass and rng.random() < 0.3):
            w[rng.randrange(size)] = rng.choice([1, 2])
        rec["w"] = w
        rec["d"] = rng.choice([sum(w), sum(w), 4, 2, 1]) if sum(w) > 0 else rng.choice([1, 2])
    rec["ni"] = [0] * len(rec["ev"])
    return rec


def make_instance(rng, depth):
    init = rand_rec(rng, allow_zero_mass=True)
    O = [rand_rec(rng) for _ in range(rng.choice([2, 3]))]
    # one operand shares the support of the initial distribution (conjunction / mixture overlap)
    if rng.random() < 0.7:
        atoms = sorted({e[0] for e in init["ev"]})
        r = rand_rec(rng, kind=rng.choice(["dict", "table", "uniform", "pairs"]), size=len(atoms))
        if r["kind"] != "pairs":
            r["ev"] = [[a] for a in rng.sample(atoms, len(atoms))]
            O[0] = r
    Ftab = [[rng.randint(1, NA) for _ in range(rng.choice([4, 5, 6]))] for _ in range(2)]
    if rng.random() < 0.3:
        Ftab[0] = [rng.randint(1, NA)] * 4                       # merge everything
    if rng.random() < 0.3:
        Ftab[1] = rng.sample(range(1, NA + 1), NA)               # injective on short supports
    K = [[rand_rec(rng, size=rng.choice([1, 2, 2])) for _ in range(3)] for _ in range(2)]
    lvals = [[0, 1], [1, 1], [1, 2], [1, 4], [3, 4], [2, 1]]
    L = [[rng.choice([[0, 1], [1, 1]]) for _ in range(4)],        # a predicate
         [rng.choice(lvals) for _ in range(5)],
         [rng.choice(lvals[1:]) for _ in range(3)]]
    if rng.random() < 0.5:
        L = L[:2]
    # likelihood scale exponents: menu j is handed to the code as l(x) * 2^-LS[j] (evidence below 2^-1024)
    LS = [0] * len(L)
    if rng.random() < 0.6:
        LS[1] = LSCALE
    if len(L) == 3 and rng.random() < 0.5:
        LS[2] = LSCALE
    G = [[rng.randint(-3, 5) for _ in range(5)], [rng.randint(-3, 5)] * 2 if rng.random() < 0.4
         else [rng.randint(-3, 5) for _ in range(4)]]
    scal = [(1, 2), (1, 2), (1, 4), (3, 4), (1, 1), (2, 1), (0, 1), (1, 3)]
    MX = []
    for _ in range(rng.choice([2, 3])):
        a, b = rng.choice(scal), rng.choice(scal)
        MX.append({"o": rng.randrange(len(O)) + 1, "an": a[0], "ad": a[1], "bn": b[0], "bd": b[1]})
    if rng.random() < 0.6:        # an unscaled left (and sometimes right) operand: a | b*w, a | b
        MX[0]["an"], MX[0]["ad"] = 1, 1
        if rng.random() < 0.4:
            MX[0]["bn"], MX[0]["bd"] = 1, 1
    C = rng.sample([-2000, -3, 1, 7, 2000, 40], 2)
    return {"NA": NA, "MAXN": MAXN, "DEPTH": depth, "init": init, "O": O, "F": Ftab, "K": K, "L": L,
            "G": G, "MX": MX, "C": C, "LS": LS}


# --------------------------------------------------------------------------------------------
# independent exact oracle (fractions.Fraction, insertion-ordered dicts; shares no code with msdm
# and none with the TLA+ text) - cross-checks what TLC emits and pre-screens magnitudes
# --------------------------------------------------------------------------------------------
def o_distof(r):
    ev = [ev_of(e) for e in r["ev"]]
    k = r["kind"]
    if k == "uniform":
        return {e: F(1, len(ev)) for e in ev}
    if k == "det":
        return {ev[0]: F(1)}
    if k == "softmax":
        ni = r.get("ni") or [0] * len(ev)
        mx = max(s for s, f in zip(r["k"], ni) if not f)
        u = [F(0) if (f or mx - s > TINYGAP) else F(1, 2 ** (mx - s)) for s, f in zip(r["k"], ni)]
        return {e: x / sum(u) for e, x in zip(ev, u)}
    d = {}
    for e, w in zip(ev, r["w"]):
        d[e] = d.get(e, F(0)) + F(w, r["d"])
    return d


def o_tiny0(r, scores=None):
    """Events of a softmax record whose weight is not tracked (spec: SoftmaxTiny)."""
    if r["kind"] != "softmax":
        return set()
    k = scores if scores is not None else r["k"]
    ni = r.get("ni") or [0] * len(k)
    mx = max(s for s, f in zip(k, ni) if not f)
    return {ev_of(e) for e, s, f in zip(r["ev"], k, ni) if not f and mx - s > TINYGAP}


def o_tiny_after(inst, D, tn, sc2, op, j, a, post):
    if op == "shift":
        return o_tiny0(inst["init"], sc2)
    if not tn:
        return set()
    evs = list(D)
    if op == "marg":
        return {a[i] for i, e in enumerate(evs) if e in tn}
    if op == "chain":
        return {y for i, e in enumerate(evs) if e in tn for y in a[i]}
    if op == "joint":
        return {(x, y) for x in tn for y in a}
    return {e for e in tn if e in post}


def o_args(inst, D, op, j):
    n = len(D)
    if op == "marg":
        if isinstance(j, tuple):                     # fibre family: the menu entry is the projection table
            return [(j[i],) for i in range(n)]
        return [(at(inst["F"][j], i),) for i in range(n)]
    if op == "chain":
        return [o_distof(at(inst["K"][j], i)) for i in range(n)]
    if op == "cond":
        return [frac(at(inst["L"][j], i)) for i in range(n)]
    if op == "expect":
        return [at(inst["G"][j], i) for i in range(n)]
    if op in ("joint", "and"):
        return o_distof(inst["O"][j])
    if op == "mix":
        mx = inst["MX"][j]
        return (F(mx["an"], mx["ad"]), o_distof(inst["O"][mx["o"] - 1]), F(mx["bn"], mx["bd"]))
    return None


def o_step(inst, D, sc, n, op, j):
    """-> None if not enabled, else (post, obs, new scores)."""
    evs, ps = list(D), list(D.values())
    a = o_args(inst, D, op, j)
    if op == "marg":
        out = {}
        for y, p in zip(a, ps):
            out[y] = out.get(y, F(0)) + p
        return out, F(0), sc
    if op == "chain":
        out = {}
        for kd, p in zip(a, ps):
            for y, q in kd.items():
                out[y] = out.get(y, F(0)) + p * q
        return out, F(0), sc
    if op == "cond":
        z = sum(p * w for p, w in zip(ps, a))
        if z <= 0:
            return None
        return {e: p * w / z for e, p, w in zip(evs, ps, a) if w > 0}, F(0), sc
    if op == "joint":
        if not (len(D) > 0 and len(D) * len(a) <= inst["MAXN"]):
            return None
        return {(x, y): p * q for x, p in D.items() for y, q in a.items()}, F(0), sc
    if op == "mix":
        ca, E, cb = a
        out = {e: ca * p for e, p in D.items()}
        for e, q in E.items():
            out[e] = out.get(e, F(0)) + cb * q
        return out, F(0), sc
    if op == "and":
        z = sum(p * a[e] for e, p in D.items() if e in a)
        if z <= 0:
            return None
        return {e: p * a[e] / z for e, p in D.items() if e in a}, F(0), sc
    if op == "norm":
        t = sum(ps)
        if t <= 0:
            return None
        return {e: p / t for e, p in D.items()}, F(0), sc
    if op == "expect":
        return D, sum(F(g) * p for g, p in zip(a, ps)), sc
    if op == "shift":
        if n != 0 or inst["init"]["kind"] != "softmax":
            return None
        c = inst["C"][j]
        sc2 = [s + c for s in sc]
        return o_distof(dict(inst["init"], k=sc2)), F(0), sc2
    raise ValueError(op)


OPS = ["marg", "chain", "cond", "joint", "mix", "and", "norm", "expect", "shift"]


def menu(inst, op):
    return {"marg": len(inst["F"]), "chain": len(inst["K"]), "cond": len(inst["L"]), "joint": len(inst["O"]),
            "mix": len(inst["MX"]), "and": len(inst["O"]), "norm": 1, "expect": len(inst["G"]),
            "shift": len(inst["C"])}[op]


def menu_keys(inst, D, op):
    """Menu entries of an operation in the state D: 1-based indices, or (fibre family, marg) every
    surjection of the support positions onto 1..k for the image sizes k the instance lists."""
    if op == "marg" and inst.get("FIBK"):
        import itertools
        n = len(D)
        return [f for k in sorted(set(inst["FIBK"])) if 1 <= k <= n
                for f in itertools.product(range(1, k + 1), repeat=n) if len(set(f)) == k]
    return list(range(1, menu(inst, op) + 1))


def magnitude(*dists):
    L, tot = 1, F(0)
    for D in dists:
        vals = D.values() if isinstance(D, dict) else D
        for p in vals:
            p = F(p)
            L = L * p.denominator // math.gcd(L, p.denominator)
            tot += abs(p)
    return L * (1 + math.ceil(tot))


def o_tree(inst):
    """All chains of DEPTH enabled operations: {chain: [(post, obs), ...]}, worst magnitude."""
    out, worst = {}, [0]

    def rec(D, sc, n, chain, posts, tn):
        if n == inst["DEPTH"]:
            out[chain] = posts
            return
        for op in OPS:
            if op not in inst.get("OPS", OPS):
                continue
            for key in menu_keys(inst, D, op):
                j = key if isinstance(key, tuple) else key - 1
                a = o_args(inst, D, op, j)
                r = o_step(inst, D, sc, n, op, j)
                if r is None:
                    continue
                post, obs, sc2 = r
                extra = []
                if isinstance(a, dict):
                    extra = [a]
                elif isinstance(a, tuple):
                    extra = [a[1], [a[0], a[2]]]
                elif a and isinstance(a[0], dict):
                    extra = list(a)
                elif a and isinstance(a[0], (F, int)):
                    extra = [a]
                if "MAGLIM" in inst:
                    # near-normalised family: the spec multiplies with cross-cancellation, sums within one
                    # measure: bound every measure on its own (the family is additionally model checked
                    # in bulk for overflow-guard trips, see make_near_cases)
                    worst[0] = max([worst[0]] + [magnitude(x) for x in (D, post, [obs], *extra)])
                    if op == "and":      # the raw products p(e) q(e) and their sum, before normalising
                        raw = [D[e] * a[e] for e in D if e in a]
                        worst[0] = max(worst[0], magnitude(raw),
                                       max([D[e].denominator * a[e].denominator for e in D if e in a] + [0]))
                else:
                    worst[0] = max(worst[0], magnitude(D, post, [obs], *extra))
                tn2 = o_tiny_after(inst, D, tn, sc2, op, j, a, post)
                rec(post, sc2, n + 1, chain + ((op, key),), posts + [(post, obs, tn2)], tn2)

    D0 = o_distof(inst["init"])
    worst[0] = magnitude(D0)
    rec(D0, list(inst["init"]["k"]), 0, (), [], o_tiny0(inst["init"]))
    return out, worst[0]


# --------------------------------------------------------------------------------------------
# concrete msdm objects
# --------------------------------------------------------------------------------------------
def build(rec, labels, variant):
    """The msdm object of the given variant for a representation record."""
    from msdm.core.distributions import (DictDistribution, UniformDistribution, DeterministicDistribution,
                                         SoftmaxDistribution)
    from msdm.core.table import ProbabilityTable, TableIndex
    from msdm.core.table.table import TableDistribution
    D = o_distof(rec)
    evs = [conc(e, labels) for e in D]
    ps = [float(p.numerator) / float(p.denominator) for p in D.values()]
    if variant == "dict":
        return DictDistribution(dict(zip(evs, ps)))
    if variant == "pairs":
        if rec["kind"] == "pairs":
            return DictDistribution.from_pairs([(conc(ev_of(e), labels), w / rec["d"]) for e, w in zip(rec["ev"], rec["w"])])
        # split every weight in two pairs
        prs = [(e, p * 0.25) for e, p in zip(evs, ps)] + [(e, p * 0.75) for e, p in zip(reversed(evs), reversed(ps))]
        return DictDistribution.from_pairs(prs)
    if variant == "table":
        return TableDistribution(data=np.array(ps, dtype=float),
                                 table_index=TableIndex(field_names=("event",), field_domains=(tuple(evs),)))
    if variant == "ptrow":
        other = [1.0 / len(ps)] * len(ps)
        pt = ProbabilityTable(data=np.array([other, ps, other], dtype=float),
                              table_index=TableIndex(field_names=("row", "event"),
                                                     field_domains=(("r0", "r1", "r2"), tuple(evs))))
        return pt["r1"]
    if variant == "ptsel":
        # a ProbabilityTable row restricted to a list of its columns, listed in an order that differs from
        # the table's own column order (the table also has a column that is not selected)
        cols = list(reversed(evs)) + ["~unselected column~"]
        if len(evs) >= 3:
            cols = [evs[1], "~unselected column~", evs[0]] + list(reversed(evs[2:]))
        val = dict(zip(evs, ps))
        rows = [[val.get(c, 0.125) for c in cols], [0.0625] * len(cols)]
        pt = ProbabilityTable(data=np.array(rows, dtype=float),
                              table_index=TableIndex(field_names=("row", "event"), field_domains=(("r0", "r1"), tuple(cols))))
        return pt["r0", list(evs)]
    if variant == "dict_kw":
        return DictDistribution(**dict(zip(evs, ps)))
    if variant == "uniform_range":
        lo, step = min(evs), (sorted(evs)[1] - sorted(evs)[0] if len(evs) > 1 else 1)
        return UniformDistribution(range(lo, max(evs) + 1, step))
    if variant == "uniform_range_cls":
        lo, step = min(evs), (sorted(evs)[1] - sorted(evs)[0] if len(evs) > 1 else 1)
        return DictDistribution.uniform(range(lo, max(evs) + 1, step))
    if variant == "uniform_str":
        return UniformDistribution("".join(evs))
    if variant == "softmax_kw":
        return SoftmaxDistribution(**dict(zip(evs, real_scores(rec, rec["k"]))))
    if variant == "softmax_part":
        sc = dict(zip(evs, real_scores(rec, rec["k"])))
        return SoftmaxDistribution({e: x for e, x in sc.items() if not isinstance(e, str)},
                                   **{e: x for e, x in sc.items() if isinstance(e, str)})
    if variant == "softmax_pairs":
        return SoftmaxDistribution(list(zip(evs, real_scores(rec, rec["k"]))))
    if variant == "uniform_nocheck":
        return UniformDistribution(list(evs), check_unique=False)
    if variant == "uniform_list":
        return UniformDistribution(list(evs))
    if variant == "uniform_tuple":
        return UniformDistribution(tuple(evs))
    if variant == "uniform_cls":
        return DictDistribution.uniform(list(evs))
    if variant == "uniform_set":          # DRIFT level only (DESIGN 6/C11): a set is not a sequence
        return UniformDistribution(set(evs))
    if variant == "uniform_keys":         # DRIFT level only
        return UniformDistribution(dict.fromkeys(evs).keys())
    if variant == "det":
        return DeterministicDistribution(evs[0])
    if variant == "det_cls":
        return DictDistribution.deterministic(evs[0])
    if variant == "softmax":
        return SoftmaxDistribution(dict(zip(evs, real_scores(rec, rec["k"]))))
    raise ValueError(variant)


def real_scores(rec, k, shift=0.0):
    """The float scores handed to the real SoftmaxDistribution: k ln 2 (+ shift), -inf where flagged."""
    ni = rec.get("ni") or [0] * len(k)
    return [float("-inf") if f else s * LN2 + shift for s, f in zip(k, ni)]


DRIFT_VARIANTS = {"uniform_set", "uniform_keys"}


NBATCH = 24


def batch_ok(obj):
    """sample() of this class has the optional batch argument k."""
    import inspect
    try:
        return "k" in inspect.signature(obj.sample).parameters
    except (TypeError, ValueError):
        return False


def raw_object(prefix):
    """True while the object at this chain prefix is still the initial object (only observations /
    softmax re-constructions so far); after any other operation it is an ordinary DictDistribution."""
    return all(o in ("shift", "expect") for o, _ in prefix)
CLASS_OF = {"uniform_nocheck": "UniformDistribution(check_unique=False)", "ptsel": "ProbabilityTable-row[column list]", "dict_kw": "DictDistribution(**kw)",
            "uniform_range": "UniformDistribution[range]", "uniform_range_cls": "UniformDistribution[range]",
            "uniform_str": "UniformDistribution[str]", "softmax_kw": "SoftmaxDistribution(**kw)",
            "softmax_part": "SoftmaxDistribution(mapping, **kw)", "softmax_pairs": "SoftmaxDistribution(pairs)",
            "dict": "DictDistribution", "pairs": "DictDistribution.from_pairs", "table": "TableDistribution",
            "ptrow": "ProbabilityTable-row", "uniform_list": "UniformDistribution", "uniform_tuple": "UniformDistribution",
            "uniform_cls": "UniformDistribution", "uniform_set": "UniformDistribution[set]",
            "uniform_keys": "UniformDistribution[keys]", "det": "DeterministicDistribution",
            "det_cls": "DeterministicDistribution", "softmax": "SoftmaxDistribution"}


def variants_for(rec, labels=None):
    """Every concrete kind that denotes the measure of the record (first = the record's own kind).
    With `labels`: also the ways of writing it down that depend on the event labels (keyword arguments for
    str events, a range for integer events in arithmetic progression, a str for one-character events)."""
    D = o_distof(rec)
    ps = list(D.values())
    evs = [conc(e, labels) for e in D] if labels is not None else None
    own = {"dict": "dict", "table": "table", "uniform": "uniform_list", "det": "det", "softmax": "softmax",
           "pairs": "pairs"}[rec["kind"]]
    vs = [own]
    for v in ("dict", "table", "ptrow", "pairs", "ptsel"):
        if v not in vs and (v != "pairs" or rec["kind"] != "softmax"):
            vs.append(v)
    all_str = evs is not None and all(isinstance(e, str) for e in evs)
    if all_str:
        vs.append("dict_kw")
    if rec["kind"] == "softmax" and evs is not None:
        vs.append("softmax_pairs")
        if all_str:
            vs.append("softmax_kw")
        elif any(isinstance(e, str) for e in evs):
            vs.append("softmax_part")
    if len(set(ps)) == 1 and ps[0] == F(1, len(ps)):
        vs += [v for v in ("uniform_list", "uniform_nocheck", "uniform_tuple", "uniform_cls", "uniform_set", "uniform_keys") if v not in vs]
        if evs is not None and all(type(e) is int for e in evs):
            srt = sorted(evs)
            if len(srt) == 1 or (len({b - a for a, b in zip(srt, srt[1:])}) == 1 and srt[1] > srt[0]):
                vs += ["uniform_range", "uniform_range_cls"]
        if evs is not None and all(isinstance(e, str) and len(e) == 1 for e in evs):
            vs.append("uniform_str")
    if len(ps) == 1 and ps[0] == 1:
        vs += [v for v in ("det", "det_cls") if v not in vs]
    return vs


def operand_variant(rec, salt):
    vs = [v for v in variants_for(rec) if v not in DRIFT_VARIANTS]
    return vs[salt % len(vs)]


class Case:
    """One instance bound to concrete labels."""

    def __init__(self, inst, pool, perm):
        self.inst = fix_inst(inst)
        self.pool = pool
        self.perm = perm
        base = POOLS[pool]
        self.labels = [base[i] for i in perm]
        self.inv = {l: (i + 1,) for i, l in enumerate(self.labels)}

    def json(self):
        return {"inst": self.inst, "pool": self.pool, "perm": self.perm}


def real_step(case, obj, pre, op, j, salt, scores):
    """Run the real operation `op` with menu entry j (0-based) on obj.  `pre` = expected pre-state
    (ordered dict abstract event -> Fraction): functions over the support are tables aligned with it."""
    inst, labels = case.inst, case.labels
    pos = {conc(e, labels): i for i, e in enumerate(pre)}
    if op == "marg":
        tab = j if isinstance(j, tuple) else inst["F"][j]
        return obj.marginalize(lambda x: labels[at(tab, pos[x]) - 1])
    if op == "chain":
        tab = inst["K"][j]
        return obj.chain(lambda x: build(at(tab, pos[x]), labels, operand_variant(at(tab, pos[x]), salt + pos[x])))
    if op == "cond":
        tab = inst["L"][j]
        boolean = all(v in ([0, 1], [1, 1]) for v in tab)

        e = inst.get("LS", [0] * len(inst["L"]))[j]
        if e and not boolean:
            # scale only if every positive term of the evidence stays precise in the subnormal range
            terms = [p * frac(at(tab, i)) for i, p in enumerate(pre.values())]
            terms = [t for t in terms if t > 0]
            if not terms or min(terms) < LS_MIN_TERM or sum(terms) >= 8:
                e = 0
        scale = 2.0 ** -e if e and not boolean else 1.0

        def lk(x):
            v = at(tab, pos[x])
            return (v[0] == 1) if boolean else (v[0] / v[1]) * scale
        return obj.condition(lk)
    if op == "joint":
        return obj.joint(build(inst["O"][j], labels, operand_variant(inst["O"][j], salt)))
    if op == "and":
        return obj & build(inst["O"][j], labels, operand_variant(inst["O"][j], salt))
    if op == "mix":
        mx = inst["MX"][j]
        other = build(inst["O"][mx["o"] - 1], labels, operand_variant(inst["O"][mx["o"] - 1], salt))
        a = mx["an"] if mx["ad"] == 1 else mx["an"] / mx["ad"]      # ints stay ints
        b = mx["bn"] if mx["bd"] == 1 else mx["bn"] / mx["bd"]
        left = obj if (mx["an"], mx["ad"]) == (1, 1) else None       # weight 1: the object itself is the operand
        right = other if (mx["bn"], mx["bd"]) == (1, 1) and salt % 3 == 0 else None
        if salt % 2:
            return (left if left is not None else a * obj) | (right if right is not None else other * b)   # __rmul__
        return (left if left is not None else obj * a) | (right if right is not None else b * other)
    if op == "norm":
        return obj.normalize()
    if op == "expect":
        tab = inst["G"][j]
        return obj.expectation(lambda x: at(tab, pos[x]))
    if op == "shift":
        from msdm.core.distributions import SoftmaxDistribution
        evs = [conc(ev_of(e), labels) for e in inst["init"]["ev"]]
        return SoftmaxDistribution(dict(zip(evs, real_scores(inst["init"], scores))))
    raise ValueError(op)


METHOD = {"marg": "marginalize", "chain": "chain", "cond": "condition", "joint": "joint", "and": "__and__",
          "mix": "__mul__|__or__", "norm": "normalize", "expect": "expectation", "shift": "__init__"}


def clsname(obj):
    return type(obj).__name__


def observed(ctx, what):
    """Behaviour of the unchanged tree that the reference model expects and the statement does not
    cover (sample() of a UniformDistribution over a set / keys view raises TypeError; TableDistribution
    .prob of a tuple / list outside its domain raises or returns the table): counted in the evidence."""
    ctx.count(f"observed:{what}")


def drift_once(ctx, step, key, detail):
    """Report a DRIFT once per (step, key); further occurrences are only counted."""
    seen = ctx.__dict__.setdefault("_c11_seen", set())
    ctx.count(f"drift:{step}:{key}")
    if (step, key) not in seen:
        seen.add((step, key))
        ctx.drift(step, detail)


def compare(case, obj, exp, *, ordered=True, outside=True, tol=None):
    """Compare a real distribution with the exact expected measure.
    -> (violations [(clause, text)], drifts [(step, text)])"""
    viol, drift = [], []
    tol = TOL if tol is None else tol
    labels, inv = case.labels, case.inv
    try:
        items = list(obj.items())
    except Exception as e:                                  # noqa: BLE001
        return [("items", f"items() raised {type(e).__name__}: {e}")], []
    real = {}
    for c, p in items:
        if not isinstance(p, (int, float, np.floating, np.integer)) or isinstance(p, bool):
            return [("items", f"items() lists {c!r} with a {type(p).__name__} instead of a probability")], drift
        a = abstr(c, inv)
        if a is None:
            if p != 0:
                viol.append(("items", f"event {c!r} with mass {p} that no operation can produce"))
            else:
                drift.append(("support-shape", f"unknown zero-mass event {c!r}"))
            continue
        if a in real:
            viol.append(("items", f"event {c!r} listed twice"))
        real[a] = real.get(a, 0.0) + float(p)
    for e in list(exp) + [e for e in real if e not in exp]:
        x, r = exp.get(e, F(0)), real.get(e, 0.0)
        if not (abs(r - float(x)) <= tol * max(1.0, abs(float(x))) if tol == TOL else abs(r - float(x)) <= tol * abs(float(x)) + ABS_FLOOR):
            viol.append(("value", f"P({conc(e, labels)!r}) = {r!r}, exact {x} = {float(x)!r}"))
            return viol, drift
    # prob() agrees with items() on the support, is 0 outside
    for e in exp:
        try:
            q = float(obj.prob(conc(e, labels)))
        except BaseException as ex:                         # noqa: BLE001  (DomainError is a BaseException)
            if isinstance(ex, (KeyboardInterrupt, SystemExit)):
                raise
            viol.append(("prob", f"prob({conc(e, labels)!r}) raised {type(ex).__name__}: {ex}"))
            break
        if not (abs(q - float(exp[e])) <= TOL * max(1.0, abs(float(exp[e])))):
            viol.append(("prob", f"prob({conc(e, labels)!r}) = {q!r}, exact {exp[e]}"))
            break
    if outside:
        for i in range(1, len(labels) + 1):
            if (i,) not in exp:
                try:
                    q = obj.prob(labels[i - 1])
                    if not isinstance(q, (int, float, np.floating, np.integer)):
                        drift.append(("prob-outside-support", f"{clsname(obj)}.prob({labels[i - 1]!r}) returned a {type(q).__name__}"))
                    elif q != 0:
                        viol.append(("prob", f"prob({labels[i - 1]!r}) = {q!r} for an event outside the support"))
                except BaseException as ex:                 # noqa: BLE001
                    if isinstance(ex, (KeyboardInterrupt, SystemExit)):
                        raise
                    drift.append(("prob-outside-support", f"{clsname(obj)}.prob({labels[i - 1]!r}) raised {type(ex).__name__}"))
                break
    try:
        if len(obj) != len(items):
            drift.append(("len", f"len {len(obj)} vs {len(items)} items"))
    except Exception as ex:                                 # noqa: BLE001
        drift.append(("len", f"len raised {type(ex).__name__}"))
    if set(real) != set(exp):
        drift.append(("support-shape", f"listed events {sorted(map(str, real))} vs model {sorted(map(str, exp))}"))
    elif ordered and list(real) != list(exp):
        drift.append(("items-order", f"{[conc(e, labels) for e in real]} vs model {[conc(e, labels) for e in exp]}"))
    return viol, drift


def softmax_corner_checks(case, obj, rec, scores):
    """Clauses of the softmax corner inputs on the real floats: normalised, a -inf score is exactly 0 and
    still listed, a tiny event (score > 64 ln 2 below the maximum) has probability <= 1e-18."""
    out = []
    tot = sum(obj.values())
    if not (abs(tot - 1.0) <= TOL):
        out.append(("softmax-normalised", f"total {tot!r}"))
    tn = o_tiny0(rec, scores)
    ni = rec.get("ni") or [0] * len(rec["ev"])
    for e, f in zip(rec["ev"], ni):
        ce = conc(ev_of(e), case.labels)
        if ce not in obj:
            out.append(("softmax-support", f"event {ce!r} missing from the distribution"))
            continue
        p = obj[ce]
        if f and not (p == 0.0):
            out.append(("softmax-neg-inf", f"P({ce!r}) = {p!r} for a score of -inf (must be exactly 0)"))
        if ev_of(e) in tn and not (0.0 <= p <= TINY_REAL):
            out.append(("softmax-tiny", f"P({ce!r}) = {p!r} for a score more than 64 ln 2 below the maximum"))
    return out[:1]


def shape_of(D):
    ps = list(D.values())
    tags = []
    if any(p == 0 for p in ps):
        tags.append("zero-entries")
    if sum(ps) != 1:
        tags.append("near-normalised" if abs(sum(ps) - 1) < F(1, 100000) else "unnormalised")
    if any(len(e) == 2 for e in D):
        tags.append("pair-events")
    if len(ps) == 1:
        tags.append("one-point")
    return "+".join(tags) or "plain"


# --------------------------------------------------------------------------------------------
# judging
# --------------------------------------------------------------------------------------------
def judge(ctx, cases, *, corrupt=None, tamper=None, ndraws=None, corrupt_init=None):
    """cases: list of Case.  corrupt / tamper: self-test hooks (perturb a real value / a recorded trace)."""
    ndraws = ndraws or (60 if ctx.tier == "quick" else 200)
    batch = [c.inst for c in cases]
    trees = []
    for c in cases:
        tree, mag = o_tree(c.inst)
        if mag >= c.inst.get("MAGLIM", MAGLIM):
            raise TLCFailure(f"instance beyond the magnitude bound reached the batch ({mag})")
        trees.append(tree)
    res = run_tlc(ctx.workdir / "mc", MODULE, CFG, files={"batch.json": batch},
                  env={"BATCH_FILE": "batch.json", "MODE": "mc"}, coverage=(ctx.tier == "thorough"))
    ctx.add_tlc(res, "mc: every chain of DEPTH operations over the batch, laws as invariants, Sample actions")
    bad = [v for v in res.violated if v in LAWS]
    if bad:
        raise TLCFailure(f"design-level invariant violated in {MODULE}: {sorted(set(bad))}\n"
                         + (res.traces[0][:3000] if res.traces else ""))
    # ---- group the emitted behaviours per instance; cross-check against the independent oracle
    per = [dict() for _ in cases]
    for r in res.records:
        i = r["iid"] - 1
        chain = tuple((h["op"], tuple(h["j"]) if isinstance(h["j"], list) else h["j"]) for h in r["hist"])
        posts = []
        for h in r["hist"]:
            post = {ev_of(e): frac(p) for e, p in zip(h["post"]["ev"], h["post"]["p"])}
            posts.append((post, frac(h["obs"]), {ev_of(e) for e in h["tiny"]}))
        init = {ev_of(e): frac(p) for e, p in zip(r["init"]["ev"], r["init"]["p"])}
        per[i][chain] = (init, posts)
        if {ev_of(e) for e in r["tiny0"]} != o_tiny0(cases[i].inst["init"]):
            raise TLCFailure(f"TLA+ SoftmaxTiny and the Python oracle disagree on instance {i + 1}")
    for i, c in enumerate(cases):
        tree = trees[i]
        if set(tree) != set(per[i]):
            only_t = sorted(set(per[i]) - set(tree))[:3]
            only_p = sorted(set(tree) - set(per[i]))[:3]
            raise TLCFailure(f"TLC and the Python oracle enumerate different chains for instance {i + 1}: "
                             f"only TLC {only_t}, only Python {only_p}")
        D0 = o_distof(c.inst["init"])
        for chain, (init, posts) in per[i].items():
            if init != D0 or list(init) != list(D0):
                raise TLCFailure(f"TLA+ DistOf and Python oracle disagree on instance {i + 1}: {init} vs {D0}")
            for k, ((tp, tobs, ttn), (pp, pobs, ptn)) in enumerate(zip(posts, tree[chain])):
                if tp != pp or tobs != pobs or ttn != ptn or (chain[k][0] != "and" and list(tp) != list(pp)):
                    raise TLCFailure(f"TLA+ oracle and Python oracle disagree on instance {i + 1} chain {chain} "
                                     f"step {k + 1}: {tp} / {tobs} vs {pp} / {pobs}")
            ctx.count("oracle_crosschecks")
    # ---- pipeline A: replay on the real code, memoised per (variant, chain prefix)
    traces = []
    for i, c in enumerate(cases):
        replay_case(ctx, i, c, per[i], traces, ndraws, corrupt, corrupt_init)
    # ---- pipeline B: the recorded draws, validated by TLC
    if tamper is not None:
        tamper(traces)
    validate_traces(ctx, cases, traces)


def replay_case(ctx, i, c, chains, traces, ndraws, corrupt, corrupt_init=None):
    inst = c.inst
    D0 = o_distof(inst["init"])
    case_ok = True
    nodes = {}            # (variant, prefix) -> (obj | None, expected measure, scores)
    rngsalt = int(digest(c.json()), 16)
    variants = variants_for(inst["init"], c.labels)
    # the label dependent spellings right after the record's own kind, so that chains go on with them
    own_variant = variants[0]
    variants = sorted(variants, key=lambda v: 0 if v == own_variant else (
        1 if v in ("softmax_kw", "softmax_part", "uniform_range", "uniform_str") else 2))
    ops_seen = set()

    def report(variant, prefix, op, operand, clause, text, pre, j=0):
        nonlocal case_ok
        site = CLASS_OF[variant] if all(o in ("shift", "expect") for o, _ in prefix) else "DictDistribution"
        meth = METHOD.get(op, "construct") if op else "construct"
        shape = shape_of(pre)
        if inst["init"]["kind"] == "softmax" and variant == "softmax" and site == "SoftmaxDistribution":
            if any(inst["init"]["ni"]):
                shape += "+neg-inf-score"
            if o_tiny0(inst["init"]):
                shape += "+wide-scores"
        sig = f"C11:{site}.{meth}{operand}:{clause}:{shape}"
        what = f"{site}.{meth}{operand} [{clause}] after {list(prefix)}: {text}"
        if variant in DRIFT_VARIANTS and raw_object(prefix):
            observed(ctx, f"{site}.{meth}:{clause}")
            return
        case_ok = False
        ctx.violation(sig, what, {"case": c.json(), "variant": variant, "chain": [list(x) for x in prefix] + ([[op, j]] if op else []),
                                  "clause": clause})

    def drifts(variant, ds, where):
        for step, text in ds:
            if step in ("items-order",):
                ctx.count(f"drift:{step}")
                continue                               # counted only: order is never promised
            if step == "prob-outside-support":
                observed(ctx, text.split("(")[0][:60] + " outside the support does not return 0")
                continue
            drift_once(ctx, step, text.split("(")[0][:60], {"where": where, "detail": text[:200]})

    # initial objects of every kind
    for vi, v in enumerate(variants):
        try:
            obj = build(corrupt_init(i, v, inst["init"]) if corrupt_init else inst["init"], c.labels, v)
            ctx.evaluations += 1
        except Exception as e:                          # noqa: BLE001
            report(v, (), None, "", "error", f"constructor raised {type(e).__name__}: {e}", D0)
            nodes[(v, ())] = (None, D0, list(inst["init"]["k"]))
            continue
        viol, ds = compare(c, obj, D0, ordered=(v != "uniform_set"))
        for clause, text in viol:
            report(v, (), None, "", clause, text, D0)
        drifts(v, ds, f"{CLASS_OF[v]} construct")
        nodes[(v, ())] = (None if viol else obj, D0, list(inst["init"]["k"]))
        if v == "softmax" and not viol:
            # normalised, -inf scores exactly 0, tiny events <= 1e-18 (on the real floats)
            for clause, text in softmax_corner_checks(c, obj, inst["init"], inst["init"]["k"]):
                report(v, (), None, "", clause, text, D0)
            # shift by an arbitrary (non ln 2) real as well: log-ratios are score differences
            from msdm.core.distributions import SoftmaxDistribution
            evs = list(obj.keys())
            for sh in (0.3, -745.2, 710.4):
                try:
                    o2 = SoftmaxDistribution(dict(zip(evs, real_scores(inst["init"], inst["init"]["k"], sh))))
                    ctx.evaluations += 1
                    if not all(abs(o2[e] - obj[e]) <= TOL for e in evs) or not (abs(sum(o2.values()) - 1.0) <= TOL):
                        report(v, (), "shift", "", "softmax-shift", f"scores + {sh}: {dict(o2)} vs {dict(obj)}", D0)
                    for clause, text in softmax_corner_checks(c, o2, inst["init"], inst["init"]["k"]):
                        report(v, (), "shift", "", clause, f"scores + {sh}: {text}", D0)
                except Exception as e:                  # noqa: BLE001
                    report(v, (), "shift", "", "error", f"scores + {sh} raised {type(e).__name__}: {e}", D0)
    # chains
    for chain in sorted(chains):
        init, posts = chains[chain]
        for vi, v in enumerate(variants):
            # deeper than one operation every variant is a DictDistribution: two variants go on
            for k in range(1, len(chain) + 1):
                prefix = chain[:k]
                if (v, prefix) in nodes:
                    continue
                if k >= 2 and vi >= 2 and v not in ("softmax",):
                    break
                pobj, pre, scores = nodes[(v, chain[:k - 1])]
                op, j = prefix[-1]
                exp, eobs, _tn = posts[k - 1]
                if pobj is None:
                    nodes[(v, prefix)] = (None, exp, scores)
                    continue
                if op == "shift" and v != "softmax":
                    nodes[(v, prefix)] = (pobj, exp, scores)
                    continue
                sc2 = [s + inst["C"][j - 1] for s in scores] if op == "shift" else scores
                jj = j if isinstance(j, tuple) else j - 1
                salt = (rngsalt + 7 * vi + 13 * k + (sum(j) if isinstance(j, tuple) else j)) % 1000003
                operand = ""
                if op in ("joint", "and"):
                    operand = f"({CLASS_OF[operand_variant(inst['O'][j - 1], salt)]})"
                elif op == "mix":
                    o = inst["O"][inst["MX"][j - 1]["o"] - 1]
                    operand = f"({CLASS_OF[operand_variant(o, salt)]})"
                try:
                    snap = list(pobj.items())
                    out = real_step(c, pobj, pre, op, jj, salt, sc2)
                    ctx.evaluations += 1
                    after = list(pobj.items())
                    if after != snap:
                        # operations are functions of their operands (the branching of the model: every successor
                        # of a state is computed from the same measure): the receiver must still denote `pre`
                        report(v, chain[:k - 1], op, operand, "operand-mutated",
                               f"the receiver changed from {snap} to {after}", pre, j)
                        nodes[(v, chain[:k - 1])] = (None, pre, scores)
                        nodes[(v, prefix)] = (None, exp, sc2)
                        continue
                except Exception as e:                  # noqa: BLE001
                    report(v, chain[:k - 1], op, operand, "error", f"raised {type(e).__name__}: {e}", pre, j)
                    nodes[(v, prefix)] = (None, exp, sc2)
                    continue
                ops_seen.add(op)
                if corrupt is not None:
                    out = corrupt(i, v, prefix, out)
                if op == "expect":
                    ok = isinstance(out, (int, float, np.floating)) and abs(float(out) - float(eobs)) <= TOL * max(1.0, abs(float(eobs)))
                    if not ok:
                        report(v, chain[:k - 1], op, "", "value", f"expectation {out!r}, exact {eobs}", pre, j)
                    nodes[(v, prefix)] = (pobj if ok else None, exp, sc2)
                    continue
                viol, ds = compare(c, out, exp, ordered=(op != "and" and v != "uniform_set"),
                                   tol=(TOL_NORM if op == "norm" else None))
                if op == "norm" and not viol and not (abs(sum(out.values()) - 1.0) <= TOL_NORM):
                    viol = [("total", f"total after normalize {sum(out.values())!r}")]
                if op == "shift" and not viol:
                    viol = softmax_corner_checks(c, out, inst["init"], sc2)
                for clause, text in viol:
                    report(v, chain[:k - 1], op, operand, clause, text, pre, j)
                drifts(v, ds, f"{METHOD[op]} after {list(chain[:k - 1])}")
                if clsname(out) not in ("DictDistribution", "SoftmaxDistribution"):
                    ctx.count("drift:result-kind")
                nodes[(v, prefix)] = (None if viol else out, exp, sc2)
    # behaviours replayed with every compared state equal
    for chain in chains:
        for v in variants:
            if v in DRIFT_VARIANTS or (v, chain) not in nodes:
                continue
            if all(nodes.get((v, chain[:k]), (None,))[0] is not None for k in range(0, len(chain) + 1)):
                ctx.validated += 1
    # ---- record draws of the real sample(): every initial kind, and a sample of the chain results
    picked = [(v, ()) for v in variants]
    rest = sorted(k for k in nodes if k[1] and nodes[k][0] is not None and k[1][-1][0] not in ("expect",))
    r2 = random.Random(rngsalt)
    r2.shuffle(rest)
    # prefer results with zero entries / one point (the corner inputs of the clause)
    rest.sort(key=lambda k: 0 if any(p == 0 for p in nodes[k][1].values()) or len(nodes[k][1]) == 1 else 1)
    picked += rest[:10 if ctx.tier == "quick" else 15]
    for (v, prefix) in picked:
        obj, exp, _ = nodes[(v, prefix)]
        if obj is None:
            continue
        seed = (ctx.seed * 1000003 + rngsalt + len(traces)) % (2 ** 31)
        site = CLASS_OF[v] if all(o in ("shift", "expect") for o, _ in prefix) else "DictDistribution"
        positive = [e for e, p in exp.items() if p > 0]
        seqs = []
        err = None
        for rep in range(2):
            g = random.Random(seed)
            try:
                draws = [obj.sample(rng=g) for _ in range(ndraws)]
                if batch_ok(obj):
                    # the batch form sample(k=n) of the same generator (a one-point distribution returns its
                    # event instead of a list)
                    more = obj.sample(rng=g, k=NBATCH)
                    draws += list(more) if isinstance(more, list) else [more]
                seqs.append(draws)
                ctx.evaluations += 1
            except Exception as e:                      # noqa: BLE001
                err = e
                break
        if err is not None:
            if not positive and len(exp) != 1:
                ctx.skip("sampling undefined: no event of positive probability")
            elif v in DRIFT_VARIANTS and raw_object(prefix):
                observed(ctx, f"{site}.sample raised {type(err).__name__}")
            else:
                case_ok = False
                ctx.violation(f"C11:{site}.sample:error:{shape_of(exp)}", f"{site}.sample raised {type(err).__name__}: {err}",
                              {"case": c.json(), "variant": v, "chain": [list(x) for x in prefix], "clause": "sample"})
            continue
        if len(seqs[0]) != len(seqs[1]):
            case_ok = False
            ctx.violation(f"C11:{site}.sample:seeded-sequences-differ:{shape_of(exp)}",
                          f"{site}.sample: {len(seqs[0])} vs {len(seqs[1])} draws from equally seeded generators",
                          {"case": c.json(), "variant": v, "chain": [list(x) for x in prefix], "clause": "sample"})
            continue
        ab = [[abstr(x, c.inv) for x in s] for s in seqs]
        unknown = [x for s, a in zip(seqs, ab) for x, y in zip(s, a) if y is None]
        if unknown:
            case_ok = False
            ctx.violation(f"C11:{site}.sample:foreign-event:{shape_of(exp)}", f"{site}.sample returned {unknown[0]!r}, not an event of the distribution",
                          {"case": c.json(), "variant": v, "chain": [list(x) for x in prefix], "clause": "sample"})
            continue
        traces.append({"ci": i, "variant": v, "site": site, "shape": shape_of(exp), "prefix": prefix, "nsingle": ndraws,
                       "rec": {"inst": inst, "ops": [{"op": op, "j": j} for op, j in prefix],
                               "s1": [ev_json(e) for e in ab[0]], "s2": [ev_json(e) for e in ab[1]],
                               "tag": f"{i}:{v}:{len(traces)}"}})
        # DRIFT level only (not a clause): empirical frequencies within a Hoeffding band of 1e-12
        band = math.sqrt(math.log(2e12) / (2 * ndraws))
        for e, p in exp.items():
            if sum(exp.values()) > 0 and abs(ab[0][:ndraws].count(e) / ndraws - float(p / sum(exp.values()))) > band:
                drift_once(ctx, "sample-frequency", site, {"where": f"{site} {list(prefix)}", "event": str(e)})
    if case_ok and len(D0) >= 2 and any(p > 0 for p in D0.values()):
        for op in ops_seen:
            ctx.nontrivial(f"{digest(inst)}:{op}")
    ctx.sample({"init": inst["init"], "labels": [repr(x) for x in c.labels], "variants": variants,
                "chains": len(chains), "example_chain": [list(x) for x in sorted(chains)[len(chains) // 2]] if chains else None})


def validate_traces(ctx, cases, traces):
    if not traces:
        return
    res = run_tlc(ctx.workdir / "trace", MODULE, CFG_TRACE, files={"traces.json": [t["rec"] for t in traces]},
                  env={"BATCH_FILE": "traces.json", "MODE": "trace"})
    ctx.add_tlc(res, "trace: recorded draws of sample() validated as enabled Sample actions; seeded pairs equal")
    if res.violated:
        raise TLCFailure(f"design-level invariant violated in trace mode: {sorted(set(res.violated))}")
    verdicts = {r["tag"]: r for r in res.records}
    for t in traces:
        r = verdicts.get(t["rec"]["tag"])
        if r is None:
            raise TLCFailure(f"no verdict for trace {t['rec']['tag']}")
        c = cases[t["ci"]]
        case = {"case": c.json(), "variant": t["variant"], "chain": [list(x) for x in t["prefix"]], "clause": "sample"}
        if r["verdict"] == "accepted":
            ctx.validated += 1
            if len({tuple(map(str, e)) for e in t["rec"]["s1"]}) >= 2:
                ctx.nontrivial(f"{digest(c.inst)}:sample:{t['variant']}:{t['prefix']}")
        elif r["verdict"] == "rejected-event":
            e = ev_of(r["event"])
            kind = "one-point" if len(r["dist"]["ev"]) == 1 else ("zero-probability-event" if any(
                ev_of(x) == e for x in r["dist"]["ev"]) else "event-outside-support")
            if t["variant"] in DRIFT_VARIANTS and raw_object(t["prefix"]):
                observed(ctx, f"{t['site']}.sample:{kind}")
                continue
            form = "sample(k=n)" if r["at"] > t.get("nsingle", 10 ** 9) else "sample"
            ctx.violation(f"C11:{t['site']}.{form}:{kind}:{t['shape']}",
                          f"{t['site']}.{form} returned {conc(e, c.labels)!r} at draw {r['at']}: not an enabled Sample of the model "
                          f"(distribution {r['dist']})", case)
        elif r["verdict"] == "rejected-seed":
            if t["variant"] in DRIFT_VARIANTS and raw_object(t["prefix"]):
                observed(ctx, f"{t['site']}.sample:seeded sequences differ")
                continue
            ctx.violation(f"C11:{t['site']}.sample:seeded-sequences-differ:{t['shape']}",
                          f"two generators seeded equally gave different sample sequences (first difference at draw {r['at']})", case)
        else:
            raise TLCFailure(f"trace {t['rec']['tag']}: the recorded chain is not a behaviour of the model ({r['verdict']})")


# --------------------------------------------------------------------------------------------
NEAR_WEIGHTS = [
    ([500000, 500004], 1000000), ([500000, 499997], 1000000), ([250000, 250000, 500003], 1000000),
    ([500000, 0, 500004], 1000000), ([999996], 1000000), ([333333, 333333, 333333], 1000000),
    ([65536, 65537], 131072), ([65536, 32768, 32767], 131072), ([131071], 131072), ([65536, 0, 65535], 131072),
    ([32768, 32768, 32768, 32769], 131072),
]
NEAR_OPS = ["marg", "mix", "norm", "expect"]
NEAR_MAGLIM = 2 ** 28


def make_near_cases(rng, n, ctx=None):
    """Near-normalised inputs: total within 1e-5 of 1 but not 1 (dict / table / from_pairs backed).
    Chains of 2 operations among marginalize, scaled mixture, normalize, expectation; operands and
    mixture weights dyadic so that the exact arithmetic of the spec stays inside 30 bits."""
    cases = []
    pools = ROT_POOLS
    while len(cases) < n:
        w, d = NEAR_WEIGHTS[len(cases) % len(NEAR_WEIGHTS)]
        inst = make_instance(rng, 2)
        atoms = rng.sample(range(1, NA + 1), len(w))
        ww = list(w)
        rng.shuffle(ww)
        inst["init"] = {"kind": ["dict", "table", "dict", "pairs"][len(cases) % 4], "ev": [[a] for a in atoms], "w": ww, "d": d,
                        "k": [0] * len(w), "ni": [0] * len(w)}
        O = []
        for _ in range(2):
            r = rand_rec(rng, kind=rng.choice(["dict", "table", "uniform", "det"]), size=rng.choice([1, 2, 2, 4]))
            if r["kind"] in ("dict", "table"):
                r["d"] = rng.choice([1, 2, 4])
            O.append(r)
        inst["O"] = O
        dy = [(1, 2), (1, 4), (3, 4), (1, 1), (2, 1), (0, 1)]
        inst["MX"] = []
        for _ in range(3):
            a, b = rng.choice(dy[:5]), rng.choice(dy)
            inst["MX"].append({"o": rng.randrange(2) + 1, "an": a[0], "ad": a[1], "bn": b[0], "bd": b[1]})
        inst["G"] = [[rng.randint(-2, 3) for _ in range(4)], [rng.randint(0, 2) for _ in range(3)]]
        inst["OPS"] = list(NEAR_OPS)
        inst["MAGLIM"] = NEAR_MAGLIM
        fix_inst(inst)
        _, mag = o_tree(inst)
        if mag >= NEAR_MAGLIM:
            if ctx is not None:
                ctx.skip("near-normalised instance beyond the magnitude bound")
            continue
        pool = pools[len(cases) % len(pools)]
        cases.append(Case(inst, pool, rng.sample(range(len(POOLS[pool])), NA)))
    return cases


RARE_D = 2 ** 27          # 1 / 2^27 = 7.5e-9: positive, below every "close to zero" tolerance of msdm (1e-8)
RARE_WEIGHTS = [[1, 128, 2 ** 27 - 129], [1, 2 ** 27 - 1], [1, 1, 2 ** 27 - 2], [128, 1, 0, 2 ** 27 - 129],
                [1, 2], [2 ** 27 - 64, 64], [1, 2 ** 20, 2 ** 27 - 2 ** 20 - 1]]
RARE_OPS = ["and", "norm", "marg"]
RARE_MAGLIM = 2 ** 30


def make_rare_cases(rng, n, ctx=None):
    """Unlikely but possible events: weights 1/2^27 .. 128/2^27 next to ordinary ones, in the receiver or in
    the operand of a conjunction (also normalize / marginalize), incl. measures all of whose events are rare.
    The exact products stay inside 30 bits through the cross-cancelling product of the spec."""
    cases = []
    pools = ROT_POOLS
    tries = 0
    while len(cases) < n and tries < 20 * n:
        tries += 1
        w = list(RARE_WEIGHTS[tries % len(RARE_WEIGHTS)])
        rng.shuffle(w)
        atoms = rng.sample(range(1, NA + 1), len(w))
        rare = {"kind": ["dict", "table", "pairs"][len(cases) % 3], "ev": [[a] for a in atoms], "w": w, "d": RARE_D,
                "k": [0] * len(w), "ni": [0] * len(w)}
        plain = rand_rec(rng, kind=rng.choice(["dict", "table", "uniform"]), size=len(w))
        plain["ev"] = [[a] for a in rng.sample(atoms, len(atoms))]
        if plain["kind"] != "uniform":
            plain["w"] = [rng.choice([1, 1, 2, 3]) for _ in atoms]
            plain["d"] = rng.choice([1, 2, 4])
        elif len(atoms) == 3:
            plain["kind"], plain["w"], plain["d"] = "dict", [1, 1, 2], 4
        other = rand_rec(rng, kind=rng.choice(["dict", "table", "det"]), size=rng.choice([1, 2]))
        if other["kind"] != "det":
            other["d"] = rng.choice([2, 4])
        # one operation: a second conjunction with 2^-27 weights squares the denominators out of 30 bits
        inst = make_instance(rng, 1)
        if len(cases) % 2 == 0:
            inst["init"], inst["O"] = rare, [plain, other]
        else:
            inst["init"], inst["O"] = plain, [rare, other]
        inst["OPS"] = list(RARE_OPS)
        inst["MAGLIM"] = RARE_MAGLIM
        fix_inst(inst)
        _, mag = o_tree(inst)
        if mag >= RARE_MAGLIM:
            if ctx is not None:
                ctx.skip("rare-probability instance beyond the magnitude bound")
            continue
        pool = pools[len(cases) % len(pools)]
        cases.append(Case(inst, pool, rng.sample(range(len(POOLS[pool])), NA)))
    return cases


# --------------------------------------------------------------------------------------------
# softmax over integer (exact) scores, shifts beyond 2^53 (spec/C11_SoftmaxInt.tla)
# --------------------------------------------------------------------------------------------
BIGS = [2 ** 53, 2 ** 53 + 1, 2 ** 64 + 1, 10 ** 30, -(2 ** 70), -(2 ** 53) - 2, 3 * 10 ** 18]
CFG_INT = "INIT Init\nNEXT Next\nCHECK_DEADLOCK FALSE\nINVARIANT Emit\nINVARIANT ShiftInvariant\nINVARIANT Normalisable\nINVARIANT InstancesWellFormed\n"


def make_int_softmax_cases(rng, n):
    cases = []
    pools = ROT_POOLS
    for i in range(n):
        size = rng.choice([2, 3, 3, 4])
        k = [rng.randint(-3, 3) for _ in range(size)]
        if i % 3 == 0:
            k = rng.sample([0, 1, 3, -2, 2], size)
        bigs = rng.sample(BIGS, 2)
        C = [{"small": rng.choice([-7, 1, 5, 10000]), "big": 0}, {"small": 0, "big": 1},
             {"small": rng.choice([-1, 0, 2]), "big": 2}]
        pool = pools[i % len(pools)]
        cases.append({"k": k, "C": C, "BIG": [str(b) for b in bigs], "DEPTH": 2, "pool": pool,
                      "atoms": rng.sample(range(NA), size)})
    return cases


def judge_int_softmax(ctx, cases):
    """Pipeline A for integer-score softmax: TLC explores every chain of 2 shifts (small and symbolic big
    parts), checks ShiftInvariant in every state and emits the score gaps; the real SoftmaxDistribution is
    built from the exact Python ints after every shift and must be normalised, have log-ratios equal to the
    gaps and equal the unshifted distribution."""
    from msdm.core.distributions import SoftmaxDistribution
    batch = [{"k": c["k"], "C": c["C"], "BIG": c["BIG"], "DEPTH": c["DEPTH"]} for c in cases]
    res = run_tlc(ctx.workdir / "smint", "C11_SoftmaxInt", CFG_INT, files={"batch.json": batch},
                  env={"BATCH_FILE": "batch.json"})
    ctx.add_tlc(res, "softmax over integer scores: every chain of 2 shifts (incl. symbolic shifts beyond 2^53)")
    if res.violated:
        raise TLCFailure(f"design-level invariant violated in C11_SoftmaxInt: {sorted(set(res.violated))}")
    per = {}
    for r in res.records:
        per.setdefault(r["iid"] - 1, []).append(r)
    for i, c in enumerate(cases):
        labels = [POOLS[c["pool"]][a] for a in c["atoms"]]
        recs = per.get(i, [])
        if len(recs) != len(c["C"]) ** c["DEPTH"]:
            raise TLCFailure(f"C11_SoftmaxInt: {len(recs)} chains for instance {i + 1}")
        done = set()
        ok_case = True

        def fail(clause, what, chain):
            nonlocal ok_case
            ok_case = False
            ctx.violation(f"C11:SoftmaxDistribution.__init__:{clause}:int-scores", f"integer scores {what}",
                          {"intsoftmax": c, "chain": chain, "clause": clause})

        def check(scores, gaps, chain, base):
            """scores: exact Python ints.  -> the real distribution or None"""
            # machinery cross-check of the symbolic model with unbounded integers
            if [max(scores) - x for x in scores] != list(gaps):
                raise TLCFailure(f"C11_SoftmaxInt gaps {gaps} disagree with exact integers {scores}")
            try:
                d = SoftmaxDistribution(dict(zip(labels, scores)))
                ctx.evaluations += 1
            except Exception as e:                      # noqa: BLE001
                fail("error", f"{scores} raised {type(e).__name__}: {e}", chain)
                return None
            ps = [d[l] for l in labels]
            if not (abs(sum(ps) - 1.0) <= TOL_NORM):
                fail("softmax-normalised", f"{scores}: total {sum(ps)!r}", chain)
                return None
            pm = max(ps)
            for l, p, g in zip(labels, ps, gaps):
                # log(p_max / p_i) = gap: exp/log are accurate to ~1 ulp, gaps <= 30 -> 1e-9 absolute is ample
                if not (p > 0 and abs(math.log(pm / p) - g) <= TOL):
                    fail("softmax-ratio", f"{scores}: P({l!r}) = {p!r}, log(p_max/p) must be {g}", chain)
                    return None
            if base is not None and not all(abs(d[l] - base[l]) <= TOL_NORM * base[l] for l in labels):
                fail("softmax-shift", f"{scores}: {dict(d)} differs from the unshifted {dict(base)}", chain)
                return None
            return d

        base = check(list(c["k"]), recs[0]["gap0"], [], None)
        for r in recs:
            chain = []
            for h in r["hist"]:
                chain.append(h["j"])
                key = tuple(chain)
                if key in done or base is None:
                    continue
                done.add(key)
                bigsum = sum(int(c["BIG"][b - 1]) for b in h["off"])
                check([x + bigsum for x in h["sc"]], h["gap"], list(chain), base)
        if ok_case and base is not None:
            ctx.validated += len(recs)
            if len(set(c["k"])) > 1:
                ctx.nontrivial(f"intsoftmax:{digest(c)}")


def make_fibre_cases(rng, tier):
    """Marginalising with every way of merging the support: for each support size n every surjection onto
    1..k is enumerated by TLC (all k for n <= 5; k | n for n = 6, the sizes at which equal fibres exist), on
    initial distributions of every kind: uniform (list / tuple / classmethod / dict / table variants),
    dict / table / from_pairs with arbitrary weights incl. zeros, deterministic.  One operation per chain."""
    cases = []
    plan = [("uniform", 2), ("uniform", 3), ("uniform", 4), ("uniform", 5), ("uniform", 6), ("dict", 3), ("table", 4),
            ("dict", 5), ("pairs", 4), ("det", 1), ("softmax", 4)]
    if tier != "quick":
        plan = plan * 3 + [("dict", 6), ("table", 6)]
    for idx, (kind, n) in enumerate(plan):
        inst = make_instance(rng, 1)
        atoms = rng.sample(range(1, 7), n)
        rec = {"kind": kind, "ev": [[a] for a in atoms], "w": [1] * n, "d": 1, "k": [0] * n, "ni": [0] * n}
        if kind in ("dict", "table", "pairs"):
            rec["w"] = [rng.choice([0, 1, 1, 2, 3]) for _ in range(n)]
            if sum(rec["w"]) == 0:
                rec["w"][0] = 1
            rec["d"] = rng.choice([sum(rec["w"]), 4])
        elif kind == "softmax":
            rec["k"] = [rng.randint(-1, 1) for _ in range(n)]
        inst["init"] = rec
        inst["NA"] = 6
        inst["OPS"] = ["marg"]
        inst["FIBK"] = list(range(1, n + 1)) if n <= 5 else [k for k in range(1, n + 1) if n % k == 0]
        fix_inst(inst)
        _, mag = o_tree(inst)
        if mag >= MAGLIM:
            raise TLCFailure("fibre family member beyond the magnitude bound")
        pool = POOLS6[idx % len(POOLS6)]
        cases.append(Case(inst, pool, rng.sample(range(6), 6)))
    return cases


def make_cases(rng, n, depth, ctx=None):
    cases = []
    pools = ROT_POOLS
    while len(cases) < n:
        inst = make_instance(rng, depth)
        # cycle the initial kinds so that every kind is present in every tier
        inst["init"] = rand_rec(rng, kind=KINDS[len(cases) % len(KINDS)], allow_zero_mass=True)
        if len(cases) % 24 == 8:      # corner: a one-point support whose only entry has weight zero
            inst["init"] = {"kind": rng.choice(["dict", "table"]), "ev": [[rng.randint(1, NA)]], "w": [0], "d": 1, "k": [0], "ni": [0]}
        if inst["init"]["kind"] == "softmax":
            # softmax corners: plain / very wide spread / -inf scores / both, in turn
            style = ["plain", "wide", "ninf", "both", "wide", "ninf"][(len(cases) // len(KINDS)) % 6 if len(cases) % len(KINDS) == 1
                                                                       else (len(cases) // len(KINDS) + 3) % 6]
            if style != "plain":
                if len(inst["init"]["ev"]) == 1:
                    inst["init"] = rand_rec(rng, kind="softmax", size=rng.choice([2, 3, 3]))
                softmax_corner(rng, inst["init"], style)
        pool = pools[len(cases) % len(pools)]
        perm = rng.sample(range(len(POOLS[pool])), NA)
        turn = (len(cases) // len(KINDS)) % 2
        if inst["init"]["kind"] == "uniform":
            # uniform supports written as a range (integer events in arithmetic progression) or as a str of
            # one-character events: sequences, like lists and tuples
            if turn == 0:
                size = len(inst["init"]["ev"])
                start = rng.randint(1, NA - size + 1)
                atoms = rng.sample(range(1, NA + 1), 2) if size == 2 else rng.sample(range(start, start + size), size)
                inst["init"]["ev"] = [[a] for a in atoms]
                pool, perm = "int", [0, 1, 2, 3]
            else:
                pool = "str"
                perm = rng.sample(range(len(POOLS[pool])), NA)
        elif inst["init"]["kind"] == "softmax" and len(cases) % len(KINDS) == 5 and turn == 0:
            pool = "str"                      # scores can then be given as keyword arguments
            perm = rng.sample(range(len(POOLS[pool])), NA)
        _, mag = o_tree(inst)
        if mag >= MAGLIM:
            if ctx is not None:
                ctx.skip("instance beyond the 32-bit magnitude bound of the exact arithmetic")
            continue
        cases.append(Case(inst, pool, perm))
    return cases


def make_exhaustive(rng, ctx=None):
    """Every dict/table initial measure with <= 3 events and weights 0..3 (DESIGN 6/C11), denominators
    `total` (normalised) and 4 (not normalised), each with one random set of menus, DEPTH 2."""
    import itertools
    cases = []
    pools = ROT_POOLS
    for size in (1, 2, 3):
        for w in itertools.product(range(4), repeat=size):
            for d in sorted({sum(w) or 1, 4}):
                for _ in range(20):
                    inst = make_instance(rng, 2)
                    inst["init"] = {"kind": "dict" if (len(cases) % 2) else "table", "ev": [[a] for a in rng.sample(range(1, NA + 1), size)],
                                    "w": list(w), "d": d, "k": [0] * size, "ni": [0] * size}
                    if o_tree(inst)[1] < MAGLIM:
                        break
                else:
                    if ctx is not None:
                        ctx.skip("exhaustive family member beyond the magnitude bound with 20 menu draws")
                    continue
                pool = pools[len(cases) % len(pools)]
                cases.append(Case(inst, pool, rng.sample(range(len(POOLS[pool])), NA)))
    return cases


def run(ctx):
    rng = random.Random(ctx.seed * 7919 + 11)
    ctx.rule = ("random instances: initial distribution of each kind (dict / table incl. zero and unnormalised entries, "
                "from_pairs with duplicates, uniform, deterministic, softmax) x menus of operands, projections, kernels, "
                "likelihoods, real functions, mixture weights, shifts x every chain of DEPTH operations x every concrete "
                "kind denoting the same measure x 6 label pools (str, int, tuples, mixed unsortable); non-trivial = "
                "(instance, operation) with >= 2 initial events, positive mass and every clause compared equal, and "
                "(instance, object) sample traces with >= 2 distinct events drawn")
    ctx.assumptions = [
        "TLC evaluates the TLA+ operators correctly (every emitted measure is cross-checked against an independent Fraction oracle)",
        "float results are compared with 1e-9 relative slack (DESIGN 5.1, direct algebraic results); results of normalize with 1e-12 relative per entry and for the total (derivation at TOL_NORM)",
        "is_normalized / isclose are tolerance predicates by design and are never called or judged",
        "softmax scores are integer multiples of ln 2 (exact rational probabilities) plus three arbitrary real shifts",
        "sampling clauses are judged on the recorded draws only (60 / 200 per object and seed)"]
    if ctx.tier == "quick":
        plan = [(2, 96)]
    else:
        plan = [(2, 500), (3, 40)]
    if ctx.tier == "thorough":
        cases = make_exhaustive(rng, ctx)
        ctx.count("exhaustive_initial_measures", len(cases))
        for k in range(0, len(cases), 150):
            judge(ctx, cases[k:k + 150])
    fib = make_fibre_cases(rng, ctx.tier)
    ctx.count("fibre_family_instances", len(fib))
    judge(ctx, fib)
    ints = make_int_softmax_cases(rng, 14 if ctx.tier == "quick" else 150)
    ctx.count("integer_score_softmax_instances", len(ints))
    judge_int_softmax(ctx, ints)
    rare = make_rare_cases(rng, 14 if ctx.tier == "quick" else 70, ctx)
    ctx.count("rare_probability_instances", len(rare))
    judge(ctx, rare)
    near = make_near_cases(rng, 22 if ctx.tier == "quick" else 110, ctx)
    ctx.count("near_normalised_instances", len(near))
    judge(ctx, near)
    for depth, n in plan:
        cases = make_cases(rng, n, depth, ctx)
        chunk = 150 if depth == 2 else 20
        for k in range(0, len(cases), chunk):
            judge(ctx, cases[k:k + chunk])


def replay(ctx, case):
    if "intsoftmax" in case:
        judge_int_softmax(ctx, [case["intsoftmax"]])
        return
    c = case["case"]
    judge(ctx, [Case(c["inst"], c["pool"], c["perm"])])


def selftest(ctx):
    """Binding demonstration: (A) perturb one probability returned by the real code; (B) put an event of
    probability zero into a recorded sample trace, and drop one draw of the second seeded run.  Each must
    be reported."""
    rng = random.Random(5)
    cases = make_cases(rng, 16, 2)
    ok = True
    # (A)
    state = {"done": False}

    def corrupt(i, v, prefix, out):
        from msdm.core.distributions import DictDistribution
        if not state["done"] and isinstance(out, dict) and len(out) >= 2 and len(prefix) == 2:
            state["done"] = True
            d = dict(out)
            k0 = next(iter(d))
            d[k0] = d[k0] + 1e-6
            return DictDistribution(d)
        return out
    before = len(ctx.violations)
    judge(ctx, cases, corrupt=corrupt)
    a_ok = state["done"] and len(ctx.violations) > before
    print(f"  (selftest A) corrupted one probability by 1e-6: {'detected' if a_ok else 'NOT detected'}")
    ok &= a_ok
    # (A') one field of the instance handed to msdm differs from the one TLC saw
    st2 = {"done": False}

    def corrupt_init(i, v, rec):
        if not st2["done"] and v in ("dict", "table") and rec["kind"] in ("dict", "table") and len(rec["ev"]) >= 2 and sum(rec["w"]) > 0:
            st2["done"] = True
            w = list(rec["w"])
            w[0] += 1
            return dict(rec, w=w)
        return rec
    before = len(ctx.violations)
    judge(ctx, cases, corrupt_init=corrupt_init)
    a2_ok = st2["done"] and len(ctx.violations) > before
    print(f"  (selftest A') one weight of the instance handed to msdm changed: {'detected' if a2_ok else 'NOT detected'}")
    ok &= a2_ok
    # (B)
    info = {}

    def tamper(traces):
        for t in traces:
            D = nodes_dist(cases[t["ci"]], t["prefix"])
            zero = [e for e, p in D.items() if p == 0]
            if zero and len(D) > 1 and "bad" not in info:
                t["rec"]["s1"][3] = ev_json(zero[0])
                t["rec"]["s2"][3] = ev_json(zero[0])
                info["bad"] = t["rec"]["tag"]
            elif "drop" not in info and len({str(x) for x in t["rec"]["s1"]}) > 1:
                del t["rec"]["s2"][5]
                info["drop"] = t["rec"]["tag"]
    before = len(ctx.violations)
    judge(ctx, cases, tamper=tamper)
    sigs = [s for s, _, _ in ctx.violations[before:]]
    b_ok = ("bad" in info and "drop" in info and len(sigs) == 2
            and any("zero-probability-event" in s for s in sigs) and any("seeded-sequences-differ" in s for s in sigs))
    print(f"  (selftest B) zero-probability draw injected / one draw dropped: {'detected' if b_ok else 'NOT detected'} {sigs}")
    ok &= b_ok
    return bool(ok)


def nodes_dist(case, prefix):
    D = o_distof(case.inst["init"])
    sc = list(case.inst["init"]["k"])
    for n, (op, j) in enumerate(prefix):
        D, _, sc = o_step(case.inst, D, sc, n, op, j - 1)
    return D
