"""C16 - multichain policy iteration, when it reports convergence, is gain/value optimal.

Pipeline (per chunk of cases):
  1. case = abstract MDP instance (gen.rand_mdp family) x representation x max_iterations; the msdm
     object is built first and the instance is re-indexed in the planner's own order (state i = i-th
     entry of mdp.state_list, action j = j-th entry of mdp.action_list) - that is the record TLC gets;
  2. TLC "mc" run of spec/C16_Multichain.tla: exact oracle (optimal discounted values / optimal gain
     by class analysis, spec/lib/Chain.tla) + the reference machine of the code's loop from the default
     and from several other initial decision rules (all of them on a quarter of the thorough cases and on
     the exhaustive 2-state family of the thorough tier); where the code's argmax rests on exactly tied
     floating-point maximisers the machine branches, and a real run must be explained by one of the
     behaviours; design invariants (incl. the property itself at the model level) checked on every state;
  3. the TLA+ oracle is cross-checked against independent Python implementations (Fractions: policy
     enumeration + exact Gaussian elimination of the evaluation equations; multichain linear program
     via scipy) - a disagreement is a machinery failure;
  4. the real code runs: MultichainPolicyIteration(max_iterations).plan_on(mdp), the array function
     multichain_policy_iteration_vectorized(policy=rule, ...) from every initial rule TLC explored,
     and one-iteration calls from every rule on every TLC behaviour (step replay);
  5. TLC "judge" run: the policies the real planner returned are evaluated exactly by the spec
     (one Plan event each) and compared with the oracle values inside TLC;
  6. verdicts: VIOLATION only for the clauses of the statement on converged runs (values / gains equal
     the optimum, policy support available, exact evaluation attains the optimum, initial aggregates);
     everything implementation shaped (iteration counts, visited rules, relative values, action tables)
     that the machine does not explain is DRIFT.
"""
import itertools
import math
import random
import warnings
from fractions import Fraction as F

import numpy as np

from .. import gen, build, pyoracle
from ..build import frac
from ..core import digest
from ..tlc import run_tlc, TLCFailure

MODULE = "C16_Multichain"
DESIGN_INVS = ["InstancesWellFormed", "OracleSound", "RuleAvailable", "EvalEquations", "StoppedOptimal",
               "StoppedPolicyAttains", "Terminates", "NeverAboveOptimum", "Monotone"]
CFG_MC = ("INIT Init\nNEXT Next\nCHECK_DEADLOCK FALSE\nINVARIANT Emit\n"
          + "".join(f"INVARIANT {x}\n" for x in DESIGN_INVS if x != "Monotone") + "PROPERTY Monotone\n")
CFG_JUDGE = "INIT Init\nNEXT Next\nCHECK_DEADLOCK FALSE\nINVARIANT Emit\n"

BIG_CAP = 80          # "no cap" configuration: exact runs that do not cycle need far fewer iterations (invariant Terminates)
TOL = 1e-9            # DESIGN 5.1: direct linear-algebra outputs
NEAR_RD = 2500        # reward denominator of the near-tie family: rewards differ by 1/2500 = 4e-4 or 2/2500 = 8e-4
LARGE_RM = 900        # reward multiplier of the large-magnitude family: costs of -900, -1800, ... per step
HUGE_RM = 10 ** 7     # huge-magnitude family: rewards of 1e7 .. 3e7 with transition probabilities in thirds / sevenths
SMALL_RD, SMALL_BASE = 2 ** 18, 256     # small near-tie profile: rewards ~ +-0.001, +-0.002, gaps 2**-18, 2**-17
# real probability of the rare transition; 1e-3, 5e-4, 2e-4 are controls: the unchanged code copes with them (its rank
# test fails below ~7e-5, the known finding RARE_SIGNATURE), a cruder rank test does not
RARE_EPS = [1e-3, 5e-4, 5e-4, 2e-4, 2e-4, 1e-4, 1e-5, 1e-5, 1e-6, 1e-7, 1e-9]
MIXED_SM = [10 ** 8, 10 ** 9]         # mixed-magnitude family: per-state multiplier of the "big" component
SWEEPS = [(1, 2), (3, 4), (1, 1), (0, 1)]     # discounts a call-history case switches to (mdp.discount_rate changed in place)
ISCLOSE_ATOL, ISCLOSE_RTOL = 1e-8, 1e-5     # np.isclose defaults = the tie window of msdm's improvement steps

REPS = [
    dict(rep="quick", labels="int", alabels="int", explicit_list=False, dist="dict"),
    dict(rep="subclass", labels="str", alabels="str", explicit_list=True, dist="dict_zeros"),
    dict(rep="quick", labels="tuple", alabels="str", explicit_list=False, dist="det"),
    dict(rep="matrices", labels="frozendict", alabels="int", explicit_list=True, dist="dict"),
    dict(rep="subclass", labels="mixed", alabels="mixed", explicit_list=False, dist="uniform"),
    dict(rep="quick", labels="str", alabels="tuple", explicit_list=True, dist="dict_zeros"),
]

FAMS = [
    dict(GN=1, GD=1, PD=2, rewards=(-2, -1, 0, 1, 2, 3)),
    dict(GN=1, GD=2, PD=2, rewards=(-2, -1, 0, 1, 2)),
    dict(GN=1, GD=1, PD=4, rewards=(-3, -1, 0, 1, 2)),
    dict(GN=3, GD=4, PD=2, rewards=(-2, -1, 0, 1, 2)),
    dict(GN=1, GD=1, PD=2, rewards=(-1, 0, 0, 1, 2)),
    dict(GN=9, GD=10, PD=2, rewards=(-2, -1, 0, 1, 2)),
    dict(GN=1, GD=1, PD=2, rewards=(-2, -1, 0, 1, 2, 3)),
    dict(GN=1, GD=2, PD=4, rewards=(-2, -1, 0, 1, 3)),
    dict(GN=0, GD=1, PD=2, rewards=(-2, -1, 0, 1, 2)),       # discount 0: a legal (fully myopic) discount rate, falsy in Python
    dict(GN=1, GD=1, PD=4, rewards=(-2, -1, 0, 1, 2, 3)),
    dict(GN=0, GD=1, PD=4, rewards=(-3, -1, 0, 1, 2)),
]


# --------------------------------------------------------------------------------------------
# cases
# --------------------------------------------------------------------------------------------
def near_tie_case(rng):
    """Near-tie reward family (rewards = integers over RD = 2500): some non-absorbing state has two actions whose
    one-step values differ by 4e-4 or 8e-4 - far outside np.isclose's default window (1e-8 + 1e-5 |q|), so the
    planner must switch to the better one - and initial rules that start on the slightly worse action.
      twin  (discounted 1/2, 3/4 and undiscounted): same successor row, every reward of `hi` = that of `lo` + d/RD
            -> the bias-step action values differ by exactly d/RD;
      gain  (undiscounted): `lo` leads to a recurrent state paying r, `hi` to one paying r + d/RD
            -> the gain-step action values differ by d/RD (times the transition probability)."""
    # profile "unit": rewards of order 1 over RD = 2500 (gaps 4e-4 / 8e-4, caught by a loose IMPROVEMENT tie test);
    # profile "small": rewards of order 1e-3 over RD = 2**18 (gaps 2**-18 = 3.8e-6 / 2**-17: below 1e-5 in absolute
    # terms but 50 times msdm's np.isclose window at that magnitude, caught by a loose policy-EXTRACTION tolerance)
    RD, B = rng.choice([(NEAR_RD, NEAR_RD), (SMALL_RD, SMALL_BASE)])
    d = rng.choice([1, 1, 2])
    kind = rng.choice(["twin-disc", "twin-disc", "twin-undisc", "gain"])
    if kind == "gain":
        n_abs = rng.choice([0, 0, 1])
        N, K = 3 + n_abs, rng.choice([2, 3])
        lo, hi = rng.sample(range(K), 2)
        base = rng.choice([-2, -1, 1, 2]) * B
        P = [[[0] * N for _ in range(K)] for _ in range(N)]
        R = [[[0] * N for _ in range(K)] for _ in range(N)]
        for a in range(K):                      # states 1, 2: recurrent singletons paying base, base + d
            P[1][a][1] = 2; R[1][a][1] = base
            P[2][a][2] = 2; R[2][a][2] = base + d
        half = rng.random() < 0.5               # state 0 moves on with probability 1 or 1/2
        for a in range(K):
            tgt = 1 if a == lo else 2 if a == hi else rng.choice([1] + ([3] if n_abs else []))
            if half:
                P[0][a][0] = 1; P[0][a][tgt] = 1
            else:
                P[0][a][tgt] = 2
            for t in range(N):
                R[0][a][t] = rng.choice([-1, 0, 1]) * B
        if n_abs:                               # ghost dynamics of the absorbing state
            for a in range(K):
                P[3][a][rng.randrange(N)] = 2
                R[3][a] = [rng.choice([-1, 0, 1]) * B for _ in range(N)]
        m = {"N": N, "K": K, "PD": 2, "GN": 1, "GD": 1, "ID": 2, "abs": [0, 0, 0] + [1] * n_abs,
             "avail": [[1] * K for _ in range(N)], "P": P, "R": R, "p0": [2] + [0] * (N - 1)}
        s = 0
    else:
        GN, GD = rng.choice([(1, 2), (3, 4)]) if kind == "twin-disc" else (1, 1)
        while True:
            m = gen.rand_mdp(rng, n_na=rng.choice([1, 2, 2]), n_abs=rng.choice([0, 1, 1, 2]) if GN < GD else rng.choice([0, 0, 1]),
                             K=rng.choice([2, 3]), PD=2, GN=GN, GD=GD, rewards=(-2, -1, 0, 1, 2), ID=2, p_implicit=0.0)
            if gen.ghost_closed(m):
                break
        m["R"] = [[[x * B for x in row] for row in act] for act in m["R"]]
        s = rng.choice([x for x in range(m["N"]) if not m["abs"][x]])
        lo, hi = rng.sample(range(m["K"]), 2)
        m["avail"][s][lo] = m["avail"][s][hi] = 1
        m["P"][s][hi] = list(m["P"][s][lo])
        m["R"][s][hi] = [x + d for x in m["R"][s][lo]]
        m["p0"] = [m["ID"] if x == s else 0 for x in range(m["N"])]
    m["RD"] = RD
    m["CAP"] = BIG_CAP
    return m, {"s": s, "lo": lo, "hi": hi, "kind": kind, "d": d, "profile": "unit" if RD == NEAR_RD else "small"}


def lacking_action_case(rng):
    """Large-magnitude sub-family built around one state that lacks an action: state 0 (initial, no self-loop) has an
    unavailable action and its available ones lead into {1, 2}, a closed set in which every action is available and every
    step costs 900 .. 2700; optionally an absorbing state reachable from state 0 only.  Every available choice at state 0
    is therefore worth less than about -900 per step (gain) resp. -900/(1-discount): nothing may make the unavailable
    action look better than that."""
    n_abs = rng.choice([0, 0, 1])
    N, K = 3 + n_abs, rng.choice([2, 3])
    GN, GD = rng.choice([(1, 1), (1, 1), (1, 1), (1, 2), (3, 4)])
    avail = [[1] * K for _ in range(N)]
    while all(avail[0]) or not any(avail[0]):
        avail[0] = [rng.choice([0, 1]) for _ in range(K)]
    P = [[[0] * N for _ in range(K)] for _ in range(N)]
    R = [[[0] * N for _ in range(K)] for _ in range(N)]
    for a in range(K):
        if avail[0][a]:
            row = rng.choice([(2, 0, 0), (0, 2, 0), (1, 1, 0)] + ([(1, 0, 1), (0, 1, 1)] if n_abs and rng.random() < 0.3 else []))
            P[0][a][1], P[0][a][2] = row[0], row[1]
            if n_abs:
                P[0][a][3] = row[2]
        for st in (1, 2):
            x = rng.choice([0, 1, 2])
            P[st][a][1], P[st][a][2] = x, 2 - x
        for st in range(3):
            R[st][a] = [rng.choice([-3, -2, -1, -1]) for _ in range(N)]
        if n_abs:
            P[3][a][3] = 2
    m = {"N": N, "K": K, "PD": 2, "GN": GN, "GD": GD, "ID": 2, "abs": [0, 0, 0] + [1] * n_abs,
         "avail": avail, "P": P, "R": R, "p0": [2] + [0] * (N - 1), "RM": LARGE_RM, "CAP": BIG_CAP}
    return m


def rare_case(rng):
    """Rare-transition family (undiscounted): a nearly closed set T of 1-2 states, from which exactly one row - (s0, a0):
    to x in T with probability 1 - eps, to t outside T with probability eps - leads out, into a recurrent state B with
    its own reward or into an absorbing state.  The model (TLC, Python oracles) carries the rare row as 3/4 : 1/4; only
    instances whose optimal gain is the same for 3/4 : 1/4, 2/4 : 2/4 and 999/1000 : 1/1000 are kept, so the exact
    answer does not depend on eps > 0; msdm gets the real eps (1e-3 .. 1e-9)."""
    PD = 4
    nT = rng.choice([1, 2])
    to_abs = rng.random() < 0.4
    N = nT + 1
    K = rng.choice([1, 2, 2])
    t = nT
    P = [[[0] * N for _ in range(K)] for _ in range(N)]
    R = [[[0] * N for _ in range(K)] for _ in range(N)]
    avail = [[1] * K for _ in range(N)]
    for st in range(nT):
        for a in range(K):
            row = [0] * N
            if nT == 1 or rng.random() < 0.4:
                row[rng.randrange(nT)] = PD
            else:
                y = rng.choice([1, 2, 3])
                row[0], row[1] = y, PD - y
            P[st][a] = row
            r = rng.choice([-2, -1, 0, 1, 2, 3])
            R[st][a] = [r] * N
    s0, a0, x = rng.randrange(nT), rng.randrange(K), rng.randrange(nT)
    P[s0][a0] = [0] * N
    P[s0][a0][x] = PD - 1
    P[s0][a0][t] = 1
    rb = rng.choice([-2, -1, 1, 2, 3])
    for a in range(K):
        P[t][a][t] = PD
        R[t][a] = [0 if to_abs else rb] * N
    m = {"N": N, "K": K, "PD": PD, "GN": 1, "GD": 1, "ID": 2, "abs": [0] * nT + [1 if to_abs else 0], "avail": avail,
         "P": P, "R": R, "p0": [0] * N, "CAP": BIG_CAP, "rare": [s0, a0, x, t],
         # the controls 1e-3 / 5e-4 / 2e-4 only for a single nearly closed state: with two such states the unchanged
         # code's rank test already misjudges at 1e-3 (same known defect: the Gram determinant is ~ eps^2 times a small
         # factor; gains off by 1-4% at 1e-3), so those get the probabilities of the known-finding regime only
         "eps": rng.choice(RARE_EPS if nT == 1 else [e for e in RARE_EPS if e <= 1e-4])}
    m["p0"][rng.randrange(nT)] = 2
    return m


def rarecost_case(rng):
    """Rare-but-costly branch (discounted 1/2, 3/4): some action of a non-absorbing state leads to an absorbing state g
    with probability 1 - 2**-30 (reward r1) and to another absorbing state t with probability 2**-30, paying -c * 2**40:
    an expected loss of 1024 c that must not be ignored.  The model carries the row as one transition to g with the
    expected one-step reward r1 - 1024 c (exact up to a relative 2**-30)."""
    GN, GD = rng.choice([(1, 2), (3, 4)])
    m = gen.rand_mdp(rng, n_na=rng.choice([1, 2, 2, 3]), n_abs=2, K=rng.choice([2, 3]), PD=2, GN=GN, GD=GD,
                     rewards=(-2, -1, 0, 1, 2), ID=2, init_on_abs=0.0)
    na = [x for x in range(m["N"]) if not m["abs"][x]]
    g, t = rng.sample([x for x in range(m["N"]) if m["abs"][x]], 2)
    s0 = rng.choice(na)
    a0, other = rng.sample(range(m["K"]), 2)
    m["avail"][s0][a0] = m["avail"][s0][other] = 1
    c, r1 = rng.choice([1, 1, 2]), rng.choice([1, 2, 3, 5])
    m["P"][s0][a0] = [m["PD"] if x == g else 0 for x in range(m["N"])]
    m["R"][s0][a0] = [r1 - 1024 * c] * m["N"]
    m["p0"] = [2 if x == s0 else 0 for x in range(m["N"])]
    m["CAP"] = BIG_CAP
    m["rarecost"] = {"s": s0, "a": a0, "g": g, "t": t, "c": c, "r1": r1}
    return m


def rare_insensitive(m):
    """The optimal gain is the same for three different values of the rare probability."""
    s0, a0, x, t = m["rare"]
    outs = []
    for num, den in ((1, 4), (2, 4), (1, 1000)):
        f = den // m["PD"]
        v = dict(m, PD=den, P=[[[q * f for q in row] for row in act] for act in m["P"]])
        v["P"][s0][a0] = [0] * m["N"]
        v["P"][s0][a0][x], v["P"][s0][a0][t] = den - num, num
        outs.append(py_optimum(v))
    return outs[0] == outs[1] == outs[2]


def mixed_case(rng):
    """Mixed-magnitude family: a small component (near-tie twin of profile "unit": rewards of order 1, two actions of one
    state 4e-4 or 8e-4 apart, discounted 1/2, 3/4 or undiscounted, <= 2 non-absorbing states) next to a decoupled big
    component (1-2 states whose rewards carry the per-state multiplier SM = 1e8 or 1e9); the two only share absorbing
    states and the initial distribution.  A tie tolerance that is relative to the largest entry of a whole table
    (msdm c58857c) ties the two near-tied actions of the small state; one relative to the row does not."""
    while True:
        m, tie = near_tie_case(rng)
        n_na = sum(1 for x in m["abs"] if not x)
        if tie["profile"] == "unit" and tie["kind"] != "gain" and n_na <= 2:
            break
    N, K, RD = m["N"], m["K"], m["RD"]
    nb = 1 if n_na == 2 else rng.choice([1, 2])
    big = list(range(N, N + nb))
    absorbing = [x for x in range(N) if m["abs"][x]]
    for x in range(N):
        for a in range(K):
            m["P"][x][a] += [0] * nb
            m["R"][x][a] += [0] * nb
    for b in big:
        Pb, Rb = [], []
        for a in range(K):
            row = [0] * (N + nb)
            targets = big + (absorbing if rng.random() < 0.4 else [])
            if rng.random() < 0.5 or len(targets) == 1:
                row[rng.choice(targets)] = 2
            else:
                t1, t2 = rng.sample(targets, 2)
                row[t1], row[t2] = 1, 1
            Pb.append(row)
            Rb.append([rng.choice([-2, -1, 1, 2, 3]) * RD] * (N + nb))
        m["P"].append(Pb)
        m["R"].append(Rb)
        m["avail"].append([1] * K)
        m["abs"].append(0)
    m["N"] = N + nb
    m["SM"] = [1] * N + [rng.choice(MIXED_SM)] * nb
    m["ID"] = 2
    m["p0"] = [0] * (N + nb)
    m["p0"][tie["s"]] += 1
    m["p0"][rng.choice(big)] += 1
    return m, tie


def huge_case(rng):
    """Huge-magnitude family: undiscounted, rewards multiplied by RM = 1e7, transition rows with at least two
    successors and probabilities in thirds (3 states) or sevenths (2 states) - so every computed gain carries ordinary
    round-off (the spacing of doubles near 1e7 is 2e-9) - mostly without absorbing states (every policy keeps moving
    for ever), state-action rewards that differ strongly between the actions: the optimum is only reached by
    improving actions INSIDE the recurrent classes (bias step among exactly gain-tied actions)."""
    PD = rng.choice([3, 3, 7])
    n_na = 3 if PD == 3 else 2
    n_abs = rng.choice([0, 0, 0, 1])
    N, K = n_na + n_abs, rng.choice([2, 2, 3])
    P = [[[0] * N for _ in range(K)] for _ in range(N)]
    R = [[[0] * N for _ in range(K)] for _ in range(N)]
    avail = [[1] * K for _ in range(N)]
    for st in range(N):
        if rng.random() < 0.25:
            drop = rng.randrange(K)
            avail[st][drop] = 0 if K > 1 else 1
        for a in range(K):
            tg = rng.sample(range(n_na), 2)
            x = rng.randint(1, PD - 1)
            P[st][a][tg[0]], P[st][a][tg[1]] = x, PD - x
            if n_abs and st < n_na and rng.random() < 0.15:       # a small leak into the absorbing state
                P[st][a][tg[0]] -= 1 if P[st][a][tg[0]] > 1 else 0
                P[st][a][N - 1] = PD - P[st][a][tg[0]] - P[st][a][tg[1]]
            r = rng.choice([-1, 0, 1, 2, 3])
            R[st][a] = [r] * N
    m = {"N": N, "K": K, "PD": PD, "GN": 1, "GD": 1, "ID": 2, "abs": [0] * n_na + [1] * n_abs, "avail": avail,
         "P": P, "R": R, "p0": [2] + [0] * (N - 1), "RM": HUGE_RM, "CAP": BIG_CAP}
    return m


def make_cases(rng, n, tier):
    cases = []
    while len(cases) < n:
        if len(cases) % 16 == 9:                # every 16th case: large costs around a state that lacks an action
            m = lacking_action_case(rng)
            rep = dict(REPS[rng.randrange(len(REPS))])
            if not rep["explicit_list"] and not gen.ghost_closed(m):
                rep["explicit_list"] = True
            cases.append({"m": m, "rep": rep, "n_inits": 1, "all_rules": False})
            continue
        if len(cases) % 4 == 3:                 # every 4th case: near-tie reward family
            m, tie = near_tie_case(rng)
            if not gen.magnitude_ok(m, QD=3):
                continue
            rep = dict(REPS[rng.randrange(len(REPS))])
            if not rep["explicit_list"] and not gen.ghost_closed(m):
                rep["explicit_list"] = True
            cases.append({"m": m, "rep": rep, "n_inits": 1, "all_rules": False, "tie": tie})
            continue
        if len(cases) % 16 == 2:                # every 16th case: a rare transition (probability 1e-3 .. 1e-9) out of a nearly closed set
            m = rare_case(rng)
            if not rare_insensitive(m):
                continue
            rep = dict(REPS[rng.choice([0, 1, 2, 4, 5])])      # not the from_matrices representation
            rep["explicit_list"] = True                          # the rare row's state need not be reachable from the start
            cases.append({"m": m, "rep": rep, "n_inits": 1, "all_rules": False, "rare": True})
            continue
        if len(cases) % 16 == 10:               # every 16th case: a 2**-30 branch with a 2**40 penalty (discounted)
            m = rarecost_case(rng)
            if not gen.magnitude_ok(m, QD=3):
                continue
            rep = dict(REPS[rng.choice([0, 1, 2, 4, 5])])      # not the from_matrices representation
            rep["explicit_list"] = True
            cases.append({"m": m, "rep": rep, "n_inits": 2, "all_rules": False, "rarecost": True})
            continue
        if len(cases) % 16 == 13:               # every 16th case: mixed magnitudes (small near-tie component + 1e8..1e9 component)
            m, tie = mixed_case(rng)
            if not gen.magnitude_ok(m, QD=3):
                continue
            rep = dict(REPS[rng.randrange(len(REPS))])
            if not rep["explicit_list"] and not gen.ghost_closed(m):
                rep["explicit_list"] = True
            cases.append({"m": m, "rep": rep, "n_inits": 1, "all_rules": False, "tie": tie, "mixed": True})
            continue
        if len(cases) % 16 == 5:                # every 16th case: huge rewards (x 1e7), probabilities in thirds / sevenths
            m = huge_case(rng)
            if not gen.magnitude_ok(m, QD=3):
                continue
            rep = dict(REPS[rng.randrange(len(REPS))])
            if not rep["explicit_list"] and not gen.ghost_closed(m):
                rep["explicit_list"] = True
            cases.append({"m": m, "rep": rep, "n_inits": 2, "all_rules": False})
            continue
        f = FAMS[len(cases) % len(FAMS)]
        large = len(cases) % 8 == 1             # every 8th case: large-magnitude rewards (multiplier RM = 900)
        if large:                               # undiscounted (PD 2 / 4) twice as often as discounted
            f = dict(FAMS[rng.choice([0, 0, 2, 4, 1, 3, 7])],
                     rewards=rng.choice([(-3, -2, -1, -1), (-2, -1, -1), (-2, -1, 0, 1, 2)]))
        undisc = f["GN"] == f["GD"]
        n_na = rng.choice([0, 1, 2, 2, 3, 3, 3, 3])
        n_abs = rng.choice([0, 0, 0, 1, 1, 2]) if undisc else rng.choice([0, 0, 1, 1, 2])
        if n_na + n_abs == 0:
            continue
        K = rng.choice([1, 2, 2, 3, 3])
        m = gen.rand_mdp(rng, n_na=n_na, n_abs=n_abs, K=K, PD=f["PD"], GN=f["GN"], GD=f["GD"],
                         rewards=f["rewards"], ID=rng.choice([2, 4]), init_on_abs=0.2)
        if not gen.magnitude_ok(m, QD=3):
            continue
        if large:
            # state-dependent action sets are the point: some non-absorbing state must lack an action
            if all(all(m["avail"][s]) for s in range(m["N"]) if not m["abs"][s]):
                continue
            m["RM"] = LARGE_RM
        m["CAP"] = BIG_CAP if (large or rng.random() < 0.7) else rng.randint(1, 4)
        rep = dict(REPS[rng.randrange(len(REPS))])
        if not rep["explicit_list"] and not gen.ghost_closed(m) and rng.random() < 0.5:
            # ghost successors of an absorbing state outside the inferred list: msdm leaves them unexpanded (rows cut);
            # kept on half of these cases, the other half gets the explicit list
            rep["explicit_list"] = True
        all_rules = tier == "thorough" and len(cases) % 4 == 0
        case = {"m": m, "rep": rep, "n_inits": 2, "all_rules": all_rules}
        # call history: the same planner object plans the same MDP object again after mdp.discount_rate was
        # changed in place (a discount sweep); the second result is judged like a fresh one
        if rng.random() < 0.3:
            alts = [g for g in SWEEPS if g != (m["GN"], m["GD"]) and gen.magnitude_ok(dict(m, GN=g[0], GD=g[1]), QD=3)]
            if alts:
                case["sweep"] = list(rng.choice(alts))
        # input representation: actions(s) lists one of its actions twice (a listing built as common + local actions)
        if rng.random() < 0.2:
            case["dup_actions"] = True
        # call history: the start distribution of the same MDP object is changed in place, then planned again
        if rng.random() < 0.2 and rep["rep"] != "matrices":
            case["start_sweep"] = rng.randrange(10 ** 6)
        # input representation: initial_state_dist() lists an UNREACHABLE state with probability 0 (inferred state list):
        # an isolated extra state nobody moves to, not in the state list, named by the start distribution with weight 0
        if rng.random() < 0.12 and not rep["explicit_list"] and "start_sweep" not in case:
            z = m["N"]
            for st in range(z):
                for a in range(m["K"]):
                    m["P"][st][a].append(0)
                    m["R"][st][a].append(0)
            m["P"].append([[0] * z + [m["PD"]] for _ in range(m["K"])])
            m["R"].append([[0] * (z + 1) for _ in range(m["K"])])
            m["avail"].append([1] * m["K"])
            m["abs"].append(0)
            m["p0"].append(0)
            m["N"] = z + 1
            case["zinit"] = z
        # input shape: a reachable explicitly absorbing state whose own action set is smaller than the action list and whose
        # ghost rows all lead to a state outside the (inferred) state list - msdm leaves those successors unexpanded, so
        # all its transition rows are empty.  Nothing may depend on that: its policy row stays within its own actions.
        reach_abs = [x for x in gen.reach(m) if m["abs"][x]]
        if ("zinit" not in case and "start_sweep" not in case and not rep["explicit_list"] and reach_abs and m["K"] >= 2
                and rng.random() < 0.35):
            zz, u = rng.choice(reach_abs), m["N"]
            keep = rng.sample(range(m["K"]), rng.randint(1, m["K"] - 1))
            for st in range(u):
                for a in range(m["K"]):
                    m["P"][st][a].append(0)
                    m["R"][st][a].append(0)
            m["P"].append([[0] * u + [m["PD"]] for _ in range(m["K"])])
            m["R"].append([[0] * (u + 1) for _ in range(m["K"])])
            m["avail"].append([1] * m["K"])
            m["abs"].append(0)
            m["p0"].append(0)
            m["N"] = u + 1
            m["avail"][zz] = [1 if a in keep else 0 for a in range(m["K"])]
            for a in range(m["K"]):
                m["P"][zz][a] = [0] * u + [m["PD"]]
            case["cutghost"] = zz
        cases.append(case)
    return cases


def exhaustive_cases():
    """The complete family of undiscounted 2-state / 2-action MDPs over the row menu {(1,0),(1/2,1/2),(0,1)} and
    state-action rewards in {-1, 0, 2}: 3^4 x 3^4 = 6561 instances (unichain, multichain, periodic), explored from
    every initial decision rule."""
    rows = [[2, 0], [1, 1], [0, 2]]
    rews = [-1, 0, 2]
    rep = dict(rep="quick", labels="int", alabels="int", explicit_list=True, dist="dict")
    for pr in itertools.product(range(3), repeat=4):
        for rr in itertools.product(range(3), repeat=4):
            P = [[rows[pr[2 * s + a]] for a in range(2)] for s in range(2)]
            R = [[[rews[rr[2 * s + a]]] * 2 for a in range(2)] for s in range(2)]
            m = {"N": 2, "K": 2, "PD": 2, "GN": 1, "GD": 1, "ID": 2, "abs": [0, 0], "avail": [[1, 1], [1, 1]],
                 "P": P, "R": R, "p0": [2, 0], "CAP": BIG_CAP}
            yield {"m": m, "rep": rep, "n_inits": 0, "all_rules": True}


def prepare(case, tamper_build=None):
    """Build the msdm object and the instance in the planner's own index order."""
    m, rep = case["m"], case["rep"]
    rng = random.Random(digest(case))
    mb = tamper_build(m) if tamper_build else m
    RD, RM = m.get("RD", 1), m.get("RM", 1)
    SM = m.get("SM") or [1] * m["N"]
    mb = dict(mb, p0=list(mb["p0"]))              # own list: the builder's initial_state_dist reads it at every call
    if RD != 1 or RM != 1 or any(x != 1 for x in SM):
        # msdm gets the real rewards R * SM[s] * RM / RD, TLC the integer numerators
        mb = dict(mb, R=[[[x * SM[st] * RM / RD for x in row] for row in act] for st, act in enumerate(mb["R"])])
    b = build.build_mdp(mb, rng=rng, **rep)
    if case.get("zinit") is not None:
        from msdm.core.distributions import DictDistribution
        zlab = b.slabel[case["zinit"]]
        orig_isd = b.mdp.initial_state_dist
        b.mdp.initial_state_dist = lambda _f=orig_isd: DictDistribution({**{e: pr for e, pr in _f().items()}, zlab: 0.0})
    if m.get("rarecost"):
        from msdm.core.distributions import DictDistribution
        rc = m["rarecost"]
        key = (b.slabel[rc["s"]], b.alabel[rc["a"]])
        glab, tlab = b.slabel[rc["g"]], b.slabel[rc["t"]]
        branch = DictDistribution({glab: 1.0 - 2.0 ** -30, tlab: 2.0 ** -30})
        orig_nsd, orig_rew = b.mdp.next_state_dist, b.mdp.reward
        b.mdp.next_state_dist = lambda st, a, _f=orig_nsd: branch if (st, a) == key else _f(st, a)
        b.mdp.reward = lambda st, a, ns, _f=orig_rew: ((-rc["c"] * 2.0 ** 40 if ns == tlab else float(rc["r1"]))
                                                       if (st, a) == key else _f(st, a, ns))
    if m.get("rare"):
        from msdm.core.distributions import DictDistribution
        s0, a0, x, t = m["rare"]
        key = (b.slabel[s0], b.alabel[a0])
        rare_dist = DictDistribution({b.slabel[x]: 1.0 - m["eps"], b.slabel[t]: m["eps"]})
        orig_nsd = b.mdp.next_state_dist
        b.mdp.next_state_dist = lambda st, a, _f=orig_nsd: rare_dist if (st, a) == key else _f(st, a)
    if case.get("dup_actions"):
        orig_actions = b.mdp.actions
        b.mdp.actions = lambda st, _f=orig_actions: tuple(_f(st)) + tuple(_f(st))[:1]
    sl, al = list(b.mdp.state_list), list(b.mdp.action_list)
    si = [b.sidx(x) for x in sl]
    ai = [b.aidx(x) for x in al]
    N, K = len(si), len(ai)
    pos = {s: i for i, s in enumerate(si)}
    P = [[[0] * N for _ in range(K)] for _ in range(N)]
    R = [[[0] * N for _ in range(K)] for _ in range(N)]
    avail = [[0] * K for _ in range(N)]
    for i, s in enumerate(si):
        for j, a in enumerate(ai):
            if not m["avail"][s][a]:
                continue
            avail[i][j] = 1
            for t in range(m["N"]):
                if m["P"][s][a][t] > 0:
                    if t not in pos:
                        if m["abs"][s]:
                            continue                      # unexpanded ghost successor of an absorbing state: row cut
                        raise TLCFailure(f"generator: successor {t} of listed state {s} is not in the state list")
                    P[i][j][pos[t]] = m["P"][s][a][t]
                    R[i][j][pos[t]] = m["R"][s][a][t]
    mp = {"N": N, "K": K, "PD": m["PD"], "GN": m["GN"], "GD": m["GD"], "ID": m["ID"],
          "abs": [m["abs"][s] for s in si], "avail": avail, "P": P, "R": R,
          "p0": [m["p0"][s] for s in si], "CAP": m["CAP"], "RD": RD, "RM": RM, "SM": [SM[x] for x in si]}
    if m.get("rare"):
        s0, a0, x, t = m["rare"]
        mp["rare"] = [pos[s0] + 1, ai.index(a0) + 1, pos[x] + 1, pos[t] + 1]      # 1-based, planner order
    if sum(mp["p0"]) != m["ID"]:
        raise TLCFailure("generator: initial support outside the state list")
    # initial decision rules (1-based, list order): random available actions, at absorbing states too
    inits = []
    av = [[j + 1 for j in range(K) if avail[i][j]] for i in range(N)]
    if all(av):
        if case.get("all_rules"):
            free = [i for i in range(N) if not mp["abs"][i]]
            default = [a[0] for a in av]
            for combo in itertools.islice(itertools.product(*[av[i] for i in free]), 81):
                r = list(default)
                for i, a in zip(free, combo):
                    r[i] = a
                inits.append(r)
        for _ in range(case.get("n_inits", 2)):
            inits.append([rng.choice(a) for a in av])
        tie = case.get("tie")
        if tie and tie["s"] in pos and tie["lo"] in ai and tie["hi"] in ai:
            # start on the slightly worse action of the near-tie state (twice) and on the better one
            for act, reps_ in ((tie["lo"], 2), (tie["hi"], 1)):
                for _ in range(reps_):
                    r = [rng.choice(a) for a in av]
                    r[pos[tie["s"]]] = ai.index(act) + 1
                    inits.append(r)
    mp["inits"] = inits
    return b, mp


# --------------------------------------------------------------------------------------------
# independent Python oracles (Fractions) - used only to cross-check the TLA+ oracle
# --------------------------------------------------------------------------------------------
def _chain(mp, w, ab):
    """Rows and rewards (Fractions) of the chain of the stochastic rule w (dict s -> {a: weight})."""
    N, K, PD = mp["N"], mp["K"], mp["PD"]
    Pm, r = {}, {}
    for s in range(N):
        if s in ab:
            continue
        tot = sum(w[s].values())
        Pm[s] = [sum(F(w[s].get(a, 0), tot) * F(mp["P"][s][a][t], PD) for a in range(K)) for t in range(N)]
        r[s] = sum(F(w[s].get(a, 0), tot) * F(mp["P"][s][a][t], PD) * mp["R"][s][a][t]
                   for a in range(K) for t in range(N))
    return Pm, r


def py_gain(mp, w, ab):
    """Gain of a stationary rule from the evaluation equations  P g = g,  g + h = r + P h  (g = h = 0 on ab)
    by exact Gauss-Jordan elimination; the gain part of the solution set is unique."""
    N = mp["N"]
    Pm, r = _chain(mp, w, ab)
    rows = []
    for s in range(N):
        if s in ab:
            e = [F(0)] * (2 * N + 1); e[s] = F(1); rows.append(e)
            e = [F(0)] * (2 * N + 1); e[N + s] = F(1); rows.append(e)
            continue
        e = [F(0)] * (2 * N + 1)
        for t in range(N):
            e[t] -= Pm[s][t]
        e[s] += 1
        rows.append(e)
        e = [F(0)] * (2 * N + 1)
        e[s] += 1
        e[N + s] += 1
        for t in range(N):
            e[N + t] -= Pm[s][t]
        e[2 * N] = r[s]
        rows.append(e)
    piv = {}
    rr = 0
    for c in range(2 * N):
        p = next((i for i in range(rr, len(rows)) if rows[i][c] != 0), None)
        if p is None:
            continue
        rows[rr], rows[p] = rows[p], rows[rr]
        inv = 1 / rows[rr][c]
        rows[rr] = [x * inv for x in rows[rr]]
        for i in range(len(rows)):
            if i != rr and rows[i][c] != 0:
                f = rows[i][c]
                rows[i] = [x - f * y for x, y in zip(rows[i], rows[rr])]
        piv[c] = rr
        rr += 1
    for i in range(rr, len(rows)):
        if rows[i][2 * N] != 0:
            raise TLCFailure("python oracle: inconsistent evaluation equations")
    g = []
    for s in range(N):
        if s not in piv:
            raise TLCFailure("python oracle: gain not determined")
        row = rows[piv[s]]
        if any(row[c] != 0 for c in range(2 * N) if c != s and c not in piv):
            raise TLCFailure("python oracle: gain depends on a free variable")
        g.append(row[2 * N])
    return g


def py_disc(mp, w, ab):
    N = mp["N"]
    gm = F(mp["GN"], mp["GD"])
    Pm, r = _chain(mp, w, ab)
    xs = [s for s in range(N) if s not in ab]
    A = [[(1 if i == j else 0) - gm * Pm[i][j] for j in xs] for i in xs]
    x = pyoracle._solve(A, [r[i] for i in xs]) if xs else []
    V = [F(0)] * N
    for i, s in enumerate(xs):
        V[s] = x[i]
    return V


def py_optimum(mp):
    N, K = mp["N"], mp["K"]
    ab = {s for s in range(N) if mp["abs"][s]}
    na = [s for s in range(N) if s not in ab]
    ev = py_disc if mp["GN"] < mp["GD"] else py_gain
    best = None
    for combo in itertools.product(*[[a for a in range(K) if mp["avail"][s][a]] for s in na]):
        w = {s: {a: 1} for s, a in zip(na, combo)}
        v = ev(mp, w, ab)
        best = v if best is None else [max(x, y) for x, y in zip(best, v)]
    return best if best is not None else [F(0)] * N


def lp_gain(mp):
    """Optimal gain from the multichain linear program (Puterman 9.3), floating point (HiGHS)."""
    from scipy.optimize import linprog
    N, K, PD = mp["N"], mp["K"], mp["PD"]
    ab = {s for s in range(N) if mp["abs"][s]}
    # rewards are normalised to magnitude <= 1 so that the box on the relative values (needed to keep the LP
    # bounded) can never bind: |h| is at most the expected number of steps before a class is entered
    scale = float(max([1] + [abs(x) for act in mp["R"] for row in act for x in row]))
    A, b = [], []
    for s in range(N):
        if s in ab:
            continue
        for a in range(K):
            if not mp["avail"][s][a]:
                continue
            p = [mp["P"][s][a][t] / PD for t in range(N)]
            rs = sum(p[t] * mp["R"][s][a][t] for t in range(N)) / scale
            row = [0.0] * (2 * N)                 # sum_t p g(t) - g(s) <= 0
            for t in range(N):
                row[t] += p[t]
            row[s] -= 1
            A.append(row); b.append(0.0)
            row = [0.0] * (2 * N)                 # r + sum_t p h(t) - h(s) - g(s) <= 0
            for t in range(N):
                row[N + t] += p[t]
            row[N + s] -= 1
            row[s] -= 1
            A.append(row); b.append(-rs)
    bounds = [((0, 0) if s in ab else (None, None)) for s in range(N)] + \
             [((0, 0) if s in ab else (-1e4, 1e4)) for s in range(N)]
    if not A:
        return [0.0] * N
    res = linprog([1.0] * N + [0.0] * N, A_ub=np.array(A), b_ub=np.array(b), bounds=bounds, method="highs")
    if res.status != 0:
        return None
    return [float(x) * scale for x in res.x[:N]]


# --------------------------------------------------------------------------------------------
# running the real code
# --------------------------------------------------------------------------------------------
def _arrays(mdp, discount):
    return dict(transition_matrix=mdp.transition_matrix,
                absorbing_state_vec=mdp.absorbing_state_vec.astype(bool),
                discount_rate=discount,
                reward_matrix=mdp.reward_matrix,
                action_matrix=mdp.action_matrix.astype(bool))


def _fl(x):
    return [float(v) for v in x]


def gamma_of(mp):
    return float(F(mp["GN"], mp["GD"]))


def get_planner(planners, cap):
    """One planner object per max_iterations, reused across all MDP objects of a chunk (planners are stateless)."""
    from msdm.algorithms.multichainpolicyiteration import MultichainPolicyIteration
    if planners is None:
        return MultichainPolicyIteration(max_iterations=cap)
    if cap not in planners:
        planners[cap] = MultichainPolicyIteration(max_iterations=cap)
    return planners[cap]


def run_plan(b, cap, planner=None, set_discount=None, set_p0=None):
    """plan_on with the given planner object; set_discount: change mdp.discount_rate in place first; set_p0 (numerators
    in the planner's state order): change the start distribution of the SAME MDP object in place first (the builder's
    initial_state_dist() reads the list b.m["p0"] at every call)."""
    mdp = b.mdp
    if planner is None:
        planner = get_planner(None, cap)
    sl, al = list(mdp.state_list), list(mdp.action_list)
    try:
        if set_discount is not None:
            mdp.discount_rate = set_discount
        if set_p0 is not None:
            new = [0] * len(b.m["p0"])
            for lab, x in zip(sl, set_p0):
                new[b.sidx(lab)] = x
            b.m["p0"][:] = new
        with warnings.catch_warnings():
            warnings.simplefilter("ignore")
            with np.errstate(all="ignore"):
                r = planner.plan_on(mdp)
        pol = []
        for s in sl:
            pol.append([float(r.policy[s][a]) for a in al])
        return {"_obj": r,                           # kept: read again after later plan_on calls (aliasing histories)
                "its": int(r.iterations), "conv": bool(r.converged),
                "gain": [float(r.state_gain[s]) for s in sl],
                "val": [float(r.state_value[s]) for s in sl],
                "gq": [[float(r.action_gain[s][a]) for a in al] for s in sl],
                "bq": [[float(r.action_value[s][a]) for a in al] for s in sl],
                "polw": pol, "init_gain": float(r.initial_gain), "init_value": float(r.initial_value)}
    except Exception as e:                           # noqa: BLE001 - judged by the caller
        return {"error": type(e).__name__, "msg": str(e)[:200]}


def reread(b, r):
    """The tables of an EARLIER result object, read again now (after later plan_on calls on other MDPs)."""
    sl = list(b.mdp.state_list)
    return {"gain": [float(r.state_gain[s]) for s in sl], "val": [float(r.state_value[s]) for s in sl],
            "init_gain": float(r.initial_gain), "init_value": float(r.initial_value)}


def run_fn(b, rule, cap, discount):
    from msdm.algorithms.multichainpolicyiteration import multichain_policy_iteration_vectorized
    try:
        with warnings.catch_warnings():
            warnings.simplefilter("ignore")
            with np.errstate(all="ignore"):
                gain, gq, bias, bq, pol, i = multichain_policy_iteration_vectorized(
                    max_iterations=cap, policy=np.array([a - 1 for a in rule]), **_arrays(b.mdp, discount))
        return {"its": int(i), "conv": bool(i < cap - 1), "gain": _fl(gain), "val": _fl(bias),
                "gq": [_fl(x) for x in gq], "bq": [_fl(x) for x in bq], "pol": [int(a) + 1 for a in pol]}
    except Exception as e:                           # noqa: BLE001
        return {"error": type(e).__name__, "msg": str(e)[:200]}


# --------------------------------------------------------------------------------------------
# comparisons
# --------------------------------------------------------------------------------------------
def magnitude(mp):
    """Magnitude of the data the linear-algebra outputs are computed from: largest real reward times the horizon
    factor (1/(1-discount), resp. the number of states for relative values).  Round-off of a direct solve is
    relative to THIS, not to the individual output (an exact 0 among values of 1e7 is not computed to 1e-9)."""
    sm = mp.get("SM") or [1] * mp["N"]
    rmax = max([abs(x) * sm[st] for st, act in enumerate(mp["R"]) for row in act for x in row] + [0]) * mp.get("RM", 1) / mp.get("RD", 1)
    g = mp["GN"] / mp["GD"]
    return max(1.0, rmax * (1 / (1 - g) if g < 1 else mp["N"]))


def dev(x, exact, scale=1.0):
    """'ok' iff the float equals the exact value at 1e-9 relative to max(1, |exact|, magnitude of the data)
    (DESIGN 5.1: direct linear-algebra outputs), else 'bad'."""
    if exact is None:
        return "ok"
    if isinstance(exact, float):               # +-inf
        return "ok" if x == exact else "bad"
    if not math.isfinite(x):
        return "bad"
    return "ok" if abs(x - float(exact)) <= TOL * max(1.0, abs(float(exact)), scale) else "bad"


def same(x, exact, scale=1.0):
    if exact is None:                           # UNAV: -inf in the code's tables
        return x == float("-inf")
    return dev(x, exact, scale) == "ok"


def units_of(orc):
    """Per state: real quantity at s = TLC quantity / rds[s]  (= * SM[s] * RM / RD)."""
    rd = F(orc["rd"], orc["rm"])
    return [rd / x for x in orc["sm"]]


def fr(x, rd=1):
    """[n, d] from TLC in units of 1/rd -> Fraction / +-inf / None."""
    v = frac(x)
    return v / rd if isinstance(v, F) else v


# the two defects of the unmodified library found with the rare-transition / zero-probability-entry families
RARE_SIGNATURE = "C16:multichain_policy_iteration_vectorized:rare-transition<=1e-4:gain-evaluation-drops-nearly-dependent-row"
ZINIT_SIGNATURE = "C16:MultichainPolicyIteration.plan_on:raises-StateActionIndexError:zero-probability-initial-entry-for-unreachable-state"
NAN_ROW_SIGNATURE = "C16:MultichainPolicyIteration.plan_on:policy-nan-row:roundoff-above-absolute-1e-10"


def nan_rows_by_roundoff(o, mrec, scale):
    """Recognises the REGRESSION of a defect that msdm fixed (ca7fa02, c58857c, 6cc37cd; known_findings: status fixed,
    which suppresses nothing - a NaN or otherwise ill-formed row is always a VIOLATION, this only chooses the
    signature).  Originally plan_on intersected the maximisers of action_gain and of action_value at an ABSOLUTE
    tolerance 1e-10 (rtol = 0): with round-off above 1e-10 in those tables the intersection was empty and the row 0/0.
    Since 6cc37cd the tolerance is 1e-10 * max(1, |row maximum|) per table and a state where the intersection is empty
    keeps the action the iteration stopped with, so an empty intersection can no longer produce NaN.  Recognised from
    the reported tables: the NaN rows are precisely the rows where the OLD absolute test leaves nothing, and at a
    tolerance relative to the magnitude of the data the surviving actions are exactly the support of the exact
    machine.  Returns the rows or None (then the generic policy-support signature is used)."""
    if mrec["phase"] != "done" or not mrec.get("sup"):
        return None
    rows = []
    for s, row in enumerate(o["polw"]):
        isnan = [math.isnan(p) for p in row]
        if any(isnan) != all(isnan) or any(math.isinf(p) or p < 0 for p in row if not math.isnan(p)):
            return None
        gq, bq = o["gq"][s], o["bq"][s]
        gm, bm = max(gq), max(bq)

        def keep(tol):
            return {a for a in range(len(row)) if math.isfinite(gq[a]) and math.isfinite(bq[a])
                    and abs(gq[a] - gm) <= tol and abs(bq[a] - bm) <= tol}
        if all(isnan) != (not keep(1e-10)):
            return None
        if all(isnan):
            if keep(TOL * scale) != {a - 1 for a in mrec["sup"][s]}:
                return None
            rows.append(s)
    return rows or None


def inside_isclose_window(jr, got, rds, scale=1.0):
    """Is a converged run whose result differs from the optimum explained by msdm's OWN tie tolerance?
    Yes iff (a) the reported values are the exact evaluation of the returned policy (1e-9), and (b) the rule the
    policy rests on passes the code's stopping tests with exact numbers: every gain / bias gap computed by the
    spec (StopGaps) is within np.isclose's default window 1e-8 + 1e-5 |max|.  Anything else - in particular a
    kept action that is worse by more than that window - is not excused."""
    if jr is None or not jr.get("wellformed") or not jr.get("stop"):
        return False
    for s, x in enumerate(got):
        if dev(x, fr(jr["pv"][s], rds[s]), scale) != "ok":
            return False
    for s, st in enumerate(jr["stop"]):
        for gap, mx in (("ggap", "gmax"), ("bgap", "bmax")):
            if float(fr(st[gap], rds[s])) > ISCLOSE_ATOL + ISCLOSE_RTOL * abs(float(fr(st[mx], rds[s]))):
                return False
    return True


def int_weights(row):
    """Float policy row -> small integer weights (denominator <= 6) or None."""
    for q in range(1, 7):
        w = [round(p * q) for p in row]
        if all(abs(p * q - x) < 1e-7 for p, x in zip(row, w)) and sum(w) == q:
            return w
    return None


def shape_of(orc, mp):
    has_abs = any(mp["abs"])
    if orc["disc"]:
        base = "discounted"
    else:
        base = "multichain" if (orc["maxcls"] >= 2 or (orc["maxcls"] >= 1 and has_abs)) else "unichain"
    return base + ("+absorbing" if has_abs else "")


def machine_explains(mrec, o, plan, rds, scale=1.0, skip_support=False):
    """First difference between a machine record and a real run, or None (DRIFT level only)."""
    if "error" in o:
        if mrec["phase"] == "cap" and not mrec["bqdef"] and o["error"] == "UnboundLocalError":
            return None
        return f"raised {o['error']}"
    if mrec["phase"] == "cap" and not mrec["bqdef"]:
        return "machine predicts an unassigned bias table (UnboundLocalError), the code returned"
    if mrec["phase"] == "cycle":
        return None if (not o["conv"]) else "machine cycles, the code reports convergence"
    if mrec["its"] != o["its"] or mrec["conv"] != o["conv"]:
        return f"iterations/converged: machine {mrec['its']}/{mrec['conv']} code {o['its']}/{o['conv']}"
    N = len(mrec["g"])
    for s in range(N):
        if not same(o["gain"][s], fr(mrec["g"][s], rds[s]), scale):
            return f"gain[{s}]: machine {mrec['g'][s]} code {o['gain'][s]}"
        if not same(o["val"][s], fr(mrec["h"][s], rds[s]), scale):
            return f"bias[{s}]: machine {mrec['h'][s]} code {o['val'][s]}"
        for a in range(len(mrec["gq"][s])):
            if not same(o["gq"][s][a], fr(mrec["gq"][s][a], rds[s]), scale):
                return f"action_gain[{s}][{a}]: machine {mrec['gq'][s][a]} code {o['gq'][s][a]}"
            if mrec["bqdef"] and not same(o["bq"][s][a], fr(mrec["bq"][s][a], rds[s]), scale):
                return f"action_bias[{s}][{a}]: machine {mrec['bq'][s][a]} code {o['bq'][s][a]}"
    if plan:
        if mrec["phase"] == "done" and not skip_support:
            for s in range(N):
                sup = {a for a, p in enumerate(o["polw"][s]) if p > 0}
                msup = {a - 1 for a in mrec["sup"][s]}
                # the code tests ties at 1e-10 relative to the row maximum; once the data are of magnitude >= 1e3
                # (mixed magnitudes: a small row next to rows of 1e9) the round-off of the tables can exceed that, and
                # which of the exactly tied maximisers survive - or that only the iteration's final action is kept -
                # is noise: any non-empty subset of the exact support is then explained
                if sup != msup and not (scale >= 1e3 and sup and sup <= msup):
                    return f"policy support[{s}]: machine {mrec['sup'][s]} code {sorted(x + 1 for x in sup)}"
    elif mrec["pol"] != o["pol"]:
        return f"final rule: machine {mrec['pol']} code {o['pol']}"
    return None


def add_judge_entry(judge_batch, i, mp, orc, key, o):
    """Pipeline B record (one Plan event) for the policy a converged run returned."""
    if "error" in o or not o["conv"]:
        return
    base = {k: mp[k] for k in ("N", "K", "PD", "GN", "GD", "ID", "RD", "RM", "SM", "abs", "avail", "P", "R", "p0")}
    if "rare" in mp:
        base["rare"] = mp["rare"]
    if key in ("plan", "stream"):
        rows, okrows = [], True
        for s in range(mp["N"]):
            row = o["polw"][s]
            if mp["abs"][s]:
                # never executed; its support is still checked (weights only if representable)
                w = int_weights(row) if all(math.isfinite(p) and p >= 0 for p in row) else None
                rows.append(w if w is not None else list(mp["avail"][s]))
                continue
            if any((not math.isfinite(p)) or p < -1e-12 for p in row) or abs(sum(row) - 1) > 1e-9:
                okrows = False
                break
            w = int_weights([max(p, 0.0) for p in row])
            if w is None:
                okrows = None
                break
            rows.append(w)
        o["rows_ok"] = okrows
        if okrows:
            judge_batch.append(dict(base, w=rows, exp=orc["v"], tag=f"{i}:{key}"))
    else:
        rows = [[1 if o["pol"][s] == a + 1 else 0 for a in range(mp["K"])] for s in range(mp["N"])]
        if all(1 <= o["pol"][s] <= mp["K"] for s in range(mp["N"])):
            judge_batch.append(dict(base, w=rows, exp=orc["v"], tag=f"{i}:{','.join(map(str, key))}"))


# --------------------------------------------------------------------------------------------
# judging a chunk of cases
# --------------------------------------------------------------------------------------------
def judge_cases(ctx, cases, *, tamper_build=None, tamper_real=None, steps=True):
    # units: one per plan_on call; a call-history case contributes a second unit (same msdm object, same planner
    # object, mdp.discount_rate changed in place) whose TLC record is the same instance under the new discount
    units = []
    for k, c in enumerate(cases):
        b, mp = prepare(c, tamper_build if (tamper_build and k == 0) else None)
        units.append((c, b, mp, None))
        if c.get("sweep"):
            mp = dict(mp, GN=c["sweep"][0], GD=c["sweep"][1])
            units.append((c, b, mp, "sweep"))
        if c.get("start_sweep") is not None:
            # third kind of call history: the start distribution of the same MDP object changes in place (within the
            # same state list), then the same planner plans it again; per-state results and aggregates judged afresh
            r2 = random.Random(c["start_sweep"])
            for _ in range(20):
                p0 = [0] * mp["N"]
                for _u in range(mp["ID"]):
                    p0[r2.randrange(mp["N"])] += 1
                if p0 != mp["p0"]:
                    break
            units.append((c, b, dict(mp, p0=p0, inits=[]), "start"))
    batch = [mp for _, _, mp, _ in units]
    planners = {}
    res = run_tlc(ctx.workdir / "mc", MODULE, CFG_MC, files={"batch.json": batch},
                  env={"BATCH_FILE": "batch.json", "MODE": "mc"})     # (TLC's -coverage runs out of memory on this module;
    #                                                                     per-action counts are taken from the emitted behaviours)
    ctx.add_tlc(res, "mc: oracle (optimal values / optimal gain) + multichain policy-iteration machine from every initial rule")
    bad = [v for v in res.violated if v in DESIGN_INVS]
    if bad:
        raise TLCFailure(f"design-level invariant violated in {MODULE}: {sorted(set(bad))}\n"
                         + (res.traces[0][:3000] if res.traces else ""))
    orcs, runs = {}, {}
    for r in res.records:
        if r["kind"] == "oracle":
            orcs[r["iid"]] = r
        elif r["kind"] == "run":          # several behaviours per initial rule when exact ties branch
            runs.setdefault(r["iid"], {}).setdefault(tuple(r["pol0"]), []).append(r)
            # per-action coverage of the machine, from the behaviours TLC emitted
            cov = ctx.extra.setdefault("machine_action_coverage", {"Start": 0, "Evaluate": 0, "GainImprove:changed": 0,
                                                                    "GainImprove:kept": 0, "BiasImprove:changed": 0,
                                                                    "BiasImprove:stop": 0, "cut:cap": 0, "cut:cycle": 0})
            ng = sum(1 for e in r["hist"] if e["by"] == "gain")
            nb = sum(1 for e in r["hist"] if e["by"] == "bias")
            ev = len(r["hist"]) - (1 if r["phase"] in ("cap", "cycle") else 0)
            cov["Start"] += 1
            cov["Evaluate"] += ev
            cov["GainImprove:changed"] += ng
            cov["GainImprove:kept"] += ev - ng
            cov["BiasImprove:changed"] += nb
            cov["BiasImprove:stop"] += 1 if r["phase"] == "done" else 0
            cov["cut:" + r["phase"]] = cov.get("cut:" + r["phase"], 0) + (1 if r["phase"] != "done" else 0)
    judge_batch, pending = [], []
    for i, (c, b, mp, role) in enumerate(units, start=1):
        orc = orcs.get(i)
        if orc is None:
            raise TLCFailure(f"no oracle record for case {i}")
        rds = units_of(orc)                               # real quantity at s = TLC quantity / rds[s]
        if (orc["rd"], orc["rm"], orc["sm"]) != (mp["RD"], mp["RM"], mp["SM"]):
            raise TLCFailure(f"reward scaling of case {i}: spec {orc['rd']}/{orc['rm']}/{orc['sm']}, harness {mp['RD']}/{mp['RM']}/{mp['SM']}")
        raw = [frac(x) for x in orc["v"]]                 # in TLC's units, as the Python oracles compute too
        exact = [x / rds[s] for s, x in enumerate(raw)]
        # ---- machinery cross-checks of the TLA+ oracle
        if i % 3 == 0:
            pv = py_optimum(mp)
            if any(pv[s] != raw[s] for s in range(mp["N"])):
                raise TLCFailure(f"TLA+ oracle and Python oracle disagree on case {i}: {raw} vs {pv}")
            ctx.count("oracle_crosschecks_fraction")
        if i % 5 == 0 and not orc["disc"]:
            lg = lp_gain(mp)
            if lg is None:
                ctx.count("lp_unsolved")
            else:
                if any(abs(lg[s] - float(raw[s])) > 1e-6 * max(1.0, abs(float(raw[s]))) for s in range(mp["N"])):
                    raise TLCFailure(f"TLA+ gain oracle and the multichain LP disagree on case {i}: {exact} vs {lg}")
                ctx.count("oracle_crosschecks_multichain_lp")
        # ---- real executions
        default = [min(j + 1 for j in range(mp["K"]) if mp["avail"][s][j]) for s in range(mp["N"])]
        # every plan_on of a chunk goes through one planner object per max_iterations (reuse across MDP objects);
        # the second unit of a call-history case first changes mdp.discount_rate in place
        outs = {"plan": run_plan(b, mp["CAP"], planner=get_planner(planners, mp["CAP"]),
                                 set_discount=gamma_of(mp) if role == "sweep" else None,
                                 set_p0=mp["p0"] if role == "start" else None)}
        ctx.evaluations += 1
        myruns = runs.get(i, {})
        if tuple(default) not in myruns:
            raise TLCFailure(f"no machine record for the default rule of case {i}")
        for p0 in myruns:
            outs[p0] = run_fn(b, list(p0), mp["CAP"], gamma_of(mp))
            ctx.evaluations += 1
        if tamper_real is not None:
            tamper_real(i, outs, mp, orc)
        # ---- judge batch: policies returned by converged runs
        for key, o in outs.items():
            add_judge_entry(judge_batch, i, mp, orc, key, o)
        pending.append((i, c, b, mp, role, orc, exact, myruns, outs))
    # ---- call history, part 3: ONE planner object over a stream of short-lived MDP objects (build, plan, drop, build
    # the next - a parameter sweep in a helper function): every second unit, ordered so that equal (discount,
    # max_iterations) follow each other, is rebuilt as a fresh object, planned with the chunk's shared planner and
    # dropped before the next one is built (CPython then reuses the address).  Judged like any plan_on result.
    if tamper_real is None and tamper_build is None:
        def stream_one(c, mp, role):
            b2, _ = prepare(c)
            o = run_plan(b2, mp["CAP"], planner=get_planner(planners, mp["CAP"]),
                         set_discount=gamma_of(mp) if role == "sweep" else None)
            o.pop("_obj", None)
            return o
        order = sorted(range(len(pending)), key=lambda k: (pending[k][3]["GN"] / pending[k][3]["GD"], pending[k][3]["CAP"], k))
        for k in order[::2]:
            i, c, b, mp, role, orc, exact, myruns, outs = pending[k]
            if role == "start":
                continue
            outs["stream"] = stream_one(c, mp, role)
            add_judge_entry(judge_batch, i, mp, orc, "stream", outs["stream"])
            ctx.evaluations += 1
            ctx.count("call_history:stream_of_short_lived_mdp_objects")
    # ---- call history, part 2: every earlier result object is read again now that all later plan_on calls of the
    # chunk (same and other planner objects, many MDPs with the same number of states, other rewards) have run; a
    # result must be a value, not a view of something a later call overwrites.  What changed is judged again.
    for i, c, b, mp, role, orc, exact, myruns, outs in pending:
        o = outs["plan"]
        r = o.pop("_obj", None)
        if r is None or "error" in o:
            continue
        try:
            late = reread(b, r)
        except Exception as e:                       # noqa: BLE001
            late = {"error": type(e).__name__}
        first = {k: o[k] for k in ("gain", "val", "init_gain", "init_value")}
        if tamper_real is None and repr(late) != repr(first):
            o["late"] = late
        ctx.count("call_history:earlier_result_read_again_after_later_calls")
    jby = {}
    if judge_batch:
        jres = run_tlc(ctx.workdir / "judge", MODULE, CFG_JUDGE, files={"batch.json": judge_batch},
                       env={"BATCH_FILE": "batch.json", "MODE": "judge"})
        ctx.add_tlc(jres, "judge: exact evaluation of the returned policies against the oracle (one Plan event each)")
        for k, r in enumerate(jres.records):
            jby[r["tag"]] = r
        # machinery cross-check of the exact evaluation on a sample
        for k, jr in enumerate(judge_batch):
            if k % 7 == 0:
                r = jby.get(jr["tag"])
                if r is None or not r["wellformed"]:
                    continue
                ab = {s for s in range(jr["N"]) if jr["abs"][s]}
                w = {s: {a: x for a, x in enumerate(jr["w"][s]) if x} for s in range(jr["N"]) if s not in ab}
                pv = (py_disc if jr["GN"] < jr["GD"] else py_gain)(jr, w, ab)
                if any(pv[s] != frac(r["pv"][s]) for s in range(jr["N"])):
                    raise TLCFailure(f"TLA+ and Python exact policy evaluation disagree on {jr['tag']}")
                ctx.count("judge_crosschecks_fraction")
    for item in pending:
        judge_one(ctx, jby, steps, *item)


def judge_one(ctx, jby, steps, i, c, b, mp, role, orc, exact, myruns, outs):
    N, K = mp["N"], mp["K"]
    rds = units_of(orc)
    scale = magnitude(mp)
    # At magnitude >= 1e3 the ABSOLUTE tolerances inside msdm (np.isclose atol 1e-8 in the improvement steps) are
    # below the round-off of its own tables, so which exactly tied action it keeps / whether it ping-pongs on noise
    # is not a function of the exact model: the implementation-shaped comparisons (iterations, visited rules, step
    # replay, UnboundLocalError at an exhausted cap) are counted there, not reported; every clause of the statement
    # is still judged on every converged run.
    noisy = scale >= 1e3      # (measured: data of magnitude 1e4 with an exact gain of 0 -> gain round-off 6e-8 > atol 1e-8)
    eps = c["m"].get("eps")
    if eps is not None:
        # rare-transition family: the exact answers do not depend on eps (checked by the spec), the trajectory and the
        # relative values do, so the implementation-shaped comparisons are not made.  Tolerance: the code solves the
        # normal equations (condition number squared), so round-off ~ 2.2e-16 / eps^2 relative is excused - up to 1e-3:
        # beyond that a reported gain is not a rounded right answer but a wrong one.
        noisy = True
        scale = scale * min(1e-3, max(TOL, 2.2e-15 / eps ** 2)) / TOL
    disc = orc["disc"]
    shape = shape_of(orc, mp) + (("+near-tie-rewards" if c["tie"].get("profile") != "small" else "+small-near-tie-rewards") if c.get("tie") else "") \
        + ("+large-rewards" if mp["RM"] == LARGE_RM else "+huge-rewards" if mp["RM"] != 1 else "") + ("+discount0" if mp["GN"] == 0 else "") + ("+mixed-magnitudes" if c.get("mixed") else "")
    if eps is not None:
        shape = "rare-transition"           # one signature per clause for this family (probability 1e-3 .. 1e-9)
        ctx.count(f"rare-transition eps={eps:g}")
    if c.get("rarecost"):
        shape += "+2^-30-branch-with-2^40-penalty"
    if c.get("zinit") is not None:
        shape += "+zero-probability-initial-entry-for-unreachable-state"
    if role == "sweep":
        ctx.count("call_history:second_plan_on_after_discount_rate_changed_in_place")
    default = tuple(min(j + 1 for j in range(K) if mp["avail"][s][j]) for s in range(N))
    case_ok = True
    any_conv = False
    ctx.count(f"shape:{shape}")

    for key, o in outs.items():
        plan = key in ("plan", "stream")
        p0 = default if plan else key
        mrecs = myruns[p0]
        nanrows = None
        if plan and o.get("rows_ok") is False:
            nanrows = next((x for x in (nan_rows_by_roundoff(o, r, scale) for r in mrecs) if x), None)
        whys = [machine_explains(r, o, plan, rds, scale, skip_support=bool(nanrows)) for r in mrecs]
        k_ok = next((k for k, w in enumerate(whys) if w is None), 0)
        mrec = mrecs[k_ok]                    # the behaviour that explains the run (else the first one)
        predicts_unbound = any(r["phase"] == "cap" and not r["bqdef"] for r in mrecs)
        site = "MultichainPolicyIteration.plan_on" if plan else "multichain_policy_iteration_vectorized[policy=given]"
        if plan and role == "sweep":
            site += "[2nd call, same planner and MDP objects, discount_rate changed in place]"
        if plan and role == "start":
            site += "[later call, same planner and MDP objects, start distribution changed in place]"
        if key == "stream":
            site += "[same planner, fresh short-lived MDP object]"
        tag = f"{i}:{key}" if plan else f"{i}:{','.join(map(str, key))}"

        def fail(clause, what, extra=None):
            nonlocal case_ok
            case_ok = False
            sig = f"C16:{site}:{clause}:{shape}"
            if eps is not None and eps <= 1e-4 and clause.split("[")[0] in ("state_gain", "initial_gain", "policy-attains"):
                sig = RARE_SIGNATURE       # one defect: a reported gain (or the policy built on it) is wrong by O(1)
            if c.get("zinit") is not None and clause == "raises-StateActionIndexError":
                sig = ZINIT_SIGNATURE
            ctx.violation(sig, f"{site} {clause} ({shape}{'' if eps is None else f', rare probability {eps:g}'}): {what}",
                          {"case": c, "unit": role or "first", "run": key if plan else list(key), "clause": clause, "extra": extra})

        ctx.count(f"machine_phase:{mrec['phase']}")
        if len(mrecs) > 1:
            ctx.count("runs_with_several_machine_behaviours(exact ties)")
        # ---- exceptions
        if "error" in o:
            if predicts_unbound and o["error"] == "UnboundLocalError":
                ctx.count("cap_before_first_bias_step_raises_UnboundLocalError(explained by the machine)")
            elif noisy and o["error"] == "UnboundLocalError":
                ctx.count("huge-magnitude: cap exhausted on round-off ping-pong (UnboundLocalError, not judged)")
            elif all(r["phase"] == "done" for r in mrecs):
                fail(f"raises-{o['error']}", f"raised {o['error']}: {o['msg']} where the exact machine stops after {mrec['its']} iterations")
            elif c.get("zinit") is not None and o["error"] == "StateActionIndexError":
                # the same defect (ZINIT_SIGNATURE) on a run that would not have reported convergence: outside the statement
                ctx.count("zero-probability-initial-entry: raised on a run the machine does not see converge (counted)")
            else:
                case_ok = False
                ctx.drift("exception", {"case": digest(c), "run": tag, "error": o["error"], "machine_phase": mrec["phase"]})
            continue
        # ---- DRIFT: does the machine explain the run?
        why = whys[k_ok]
        if why is not None and noisy:
            ctx.count("huge-magnitude: trajectory differs from the exact machine (round-off, not reported)")
        elif why is not None:
            ctx.drift("machine", {"case": digest(c), "run": tag, "why": why})
        if not o["conv"]:
            ctx.count("runs_not_converged(counted, not judged)")
            if mrec["phase"] == "cycle":
                ctx.count("runs_cycling_for_ever(machine and code agree)")
            if why is None:
                ctx.validated += 1
            continue
        any_conv = True
        run_ok = True
        # ---- clause: values (discounted) / gains (undiscounted) equal the optimum at every listed state
        got = o["val"] if disc else o["gain"]
        clause = "state_value" if disc else "state_gain"
        jr = jby.get(tag)
        # a difference from the optimum is excused only if the spec's exact stop gaps show that the run stopped
        # inside msdm's own np.isclose window (reported, not judged); a kept action that is worse by more is not
        excused = None

        def window():
            nonlocal excused
            if excused is None:
                # (the stop gaps of a rare-transition instance depend on the rare probability: no excuse there)
                excused = eps is None and inside_isclose_window(jr, got, rds, scale)
                if excused:
                    ctx.drift("tie-window", {"case": digest(c), "run": tag, "got": got, "optimum": [str(x) for x in exact]})
            return excused

        state_bad = False
        for s in range(N):
            if dev(got[s], exact[s], scale) == "bad":
                run_ok = False
                state_bad = True
                if not window():
                    fail(clause, f"{clause}[{s}] = {got[s]!r} but the optimum is {exact[s]} = {float(exact[s])!r} (converged after {o['its']} iterations)",
                         {"optimum": [str(x) for x in exact], "got": got})
                break
        # ---- the same result object read again after all later plan_on calls of the chunk: whatever changed is judged
        # like a fresh result (a result that is a view of a shared buffer shows another problem's numbers)
        if key == "plan" and o.get("late"):
            late = o["late"]
            run_ok = False
            if "error" in late:
                fail("reread-raises", f"reading the earlier result again raised {late['error']}")
            else:
                lgot = late["val"] if disc else late["gain"]
                for s in range(N):
                    if dev(lgot[s], exact[s], scale) == "bad":
                        fail(clause + "[result read again after later plan_on calls]",
                             f"{clause}[{s}] of the SAME result object was {got[s]!r} right after the call and is {lgot[s]!r} after later "
                             f"plan_on calls on other MDPs; the optimum is {float(exact[s])!r}", {"first": got, "late": lgot})
                        break
                else:
                    ctx.drift("reread", {"case": digest(c), "run": tag, "first": got, "late": lgot})
        # ---- clauses on the returned policy
        if plan:
            if o.get("rows_ok") is False and nanrows:
                # regression of the defect fixed in ca7fa02 / c58857c / 6cc37cd, with its own signature: converged, values / gains
                # right, but the policy rows `nanrows` are 0/0 because an absolute 1e-10 tie test of the policy
                # extraction is below the round-off of tables of this magnitude
                case_ok = False
                run_ok = False
                ctx.violation(NAN_ROW_SIGNATURE,
                              f"{site} ({shape}): converged, but policy rows {nanrows} are NaN: maximisers of action_gain and "
                              f"action_value intersected at absolute 1e-10 are empty (round-off of tables of magnitude {scale:.3g})",
                              {"case": c, "unit": role or "first", "run": "plan", "clause": "policy-nan-row"})
            elif o.get("rows_ok") is False:
                fail("policy-support", f"a policy row is not a probability distribution: {o['polw']}")
                run_ok = False
            elif o.get("rows_ok") is None:
                ctx.skip("returned policy weights are not multiples of 1/1..1/6 (cannot be evaluated in TLC)")
                run_ok = False
        if jr is not None:
            for s in range(N):
                if not jr["availok"][s]:
                    fail("policy-support", f"state {s}: positive probability on an unavailable action, row {o['polw'][s] if plan else o['pol'][s]}")
                    run_ok = False
                    break
            else:
                if not jr["wellformed"]:
                    fail("policy-support", "returned policy has an empty or ill-formed row")
                    run_ok = False
                else:
                    if not jr.get("rareok", True):
                        ctx.skip("rare-transition: exact evaluation of the returned policy depends on the rare probability (not judged)")
                    for s in range(N) if jr.get("rareok", True) else []:
                        if not jr["attains"][s]:
                            run_ok = False
                            if not window():
                                fail("policy-attains", f"exact {'value' if disc else 'gain'} of the returned policy at state {s} is "
                                                       f"{fr(jr['pv'][s], rds[s])}, the optimum is {exact[s]}",
                                     {"policy_value": jr["pv"], "optimum": orc["v"], "units": [str(x) for x in rds]})
                            break
        # ---- clause: aggregates over the initial distribution = the optimal value / gain of the initial distribution.
        # (The statement's "state values / per-state gain equal the optimum", read on the initial distribution the
        # result reports them for.)  Excused by the tie window only together with an excused per-state deviation it is
        # the probability-weighted sum of.
        if plan:
            einit = sum(F(mp["p0"][s], mp["ID"]) * exact[s] for s in range(N) if mp["p0"][s])
            name, rep_init = ("initial_value", o["init_value"]) if disc else ("initial_gain", o["init_gain"])
            if dev(rep_init, einit, scale) == "bad":
                run_ok = False
                weighted = sum(F(mp["p0"][s], mp["ID"]) * F(got[s]) for s in range(N) if mp["p0"][s]) \
                    if all(math.isfinite(x) for x in got) else None
                consistent = weighted is not None and dev(rep_init, weighted, scale) == "ok"
                if not (state_bad and consistent and window()):
                    fail(name, f"{name} = {rep_init!r}, the optimal {'value' if disc else 'gain'} of the initial distribution "
                               f"{[str(F(x, mp['ID'])) for x in mp['p0']]} is {einit} = {float(einit)!r}")
        if run_ok and why is None:
            ctx.validated += 1

    # ---- step replay: one real loop iteration from every rule on every machine behaviour
    if steps and not noisy:
        succ, stops = {}, {}
        for recs in myruns.values():
            for mrec in recs:
                hist = mrec["hist"]
                for j, ent in enumerate(hist[:10]):
                    if j + 1 < len(hist):
                        succ.setdefault(tuple(ent["pol"]), set()).add((tuple(hist[j + 1]["pol"]), hist[j + 1]["by"]))
                    elif mrec["phase"] == "done":
                        stops[tuple(ent["pol"])] = mrec
        for frm in list(succ) + [p for p in stops if p not in succ]:
            o = run_fn(b, list(frm), 1, gamma_of(mp))
            ctx.evaluations += 1
            if frm in stops:
                mrec = stops[frm]
                okstep = "error" not in o and tuple(o["pol"]) == frm and all(
                    same(o["gain"][s], fr(mrec["g"][s], rds[s]), scale) and same(o["val"][s], fr(mrec["h"][s], rds[s]), scale) for s in range(N))
                ctx.count("step_replay:stop")
                expected = "stop"
            else:
                nxt = succ[frm]
                if any(by == "gain" for _, by in nxt):
                    okstep = o.get("error") == "UnboundLocalError"    # a one-iteration call ends before bias_q exists
                    ctx.count("step_replay:gain-step")
                else:
                    okstep = "error" not in o and (tuple(o["pol"]), "bias") in nxt
                    ctx.count("step_replay:bias-step")
                expected = sorted(nxt)
            if okstep:
                ctx.validated += 1
            else:
                ctx.drift("step", {"case": digest(c), "from": list(frm), "expected": expected,
                                   "code": o.get("pol", o.get("error"))})
    n_na = sum(1 for x in mp["abs"] if not x)
    if any_conv and n_na >= 2 and orc["nvals"] >= 2:
        ctx.nontrivial(digest({"m": mp, "rep": c["rep"]}))
    ctx.sample({"instance_in_planner_order": {k: mp[k] for k in ("N", "K", "PD", "GN", "GD", "RD", "RM", "SM", "abs", "avail", "P", "R", "p0", "CAP")},
                "rep": c["rep"], "shape": shape, "optimum": [str(x) for x in exact],
                "plan_on": {k: outs["plan"].get(k) for k in ("its", "conv", "gain", "val", "error")}})


# --------------------------------------------------------------------------------------------
def fixed_rare_cases():
    """Deterministic members of every run: one nearly closed state A (self-loop, reward 1 resp. 2) that leaves with
    probability 5e-4 / 2e-4 into a recurrent state paying 3 resp. into an absorbing state.  The unchanged code passes
    them (its rank test fails only below ~7e-5 here); a cruder rank test reports a wrong gain."""
    out = []
    for eps in (5e-4, 2e-4):
        for to_abs in (False, True):
            for K in (1, 2):
                rA = 1 if K == 1 else 2
                P = [[[3, 1] for _ in range(K)], [[0, 4] for _ in range(K)]]
                if K == 2:
                    P[0][1] = [4, 0]                       # second action: stay for ever (gain 2 vs the exit's)
                R = [[[rA, rA] for _ in range(K)], [[0, 0] if to_abs else [3, 3] for _ in range(K)]]
                m = {"N": 2, "K": K, "PD": 4, "GN": 1, "GD": 1, "ID": 2, "abs": [0, 1 if to_abs else 0],
                     "avail": [[1] * K, [1] * K], "P": P, "R": R, "p0": [2, 0], "CAP": BIG_CAP,
                     "rare": [0, 0, 0, 1], "eps": eps}
                rep = dict(REPS[0 if K == 1 else 1])
                rep["explicit_list"] = True
                out.append({"m": m, "rep": rep, "n_inits": 1, "all_rules": False, "rare": True})
    return [c for c in out if rare_insensitive(c["m"])]


def run(ctx):
    rng = random.Random(ctx.seed * 7919 + 16)
    n = 560 if ctx.tier == "quick" else 4000
    ctx.rule = ("random members of MDPFam (0-3 non-absorbing + 0-2 explicitly absorbing states with ghost dynamics, 1-3 "
                "state-dependent actions, no action-less state, discount in {1/2,3/4,9/10} with rewards of both signs and 1 "
                "(unichain / multichain, with / without absorbing states), PD in {2,4}) x max_iterations in {1..4, 80} x "
                "representation x initial decision rule; every 4th case from the near-tie reward family (rewards over RD = 2500, two "
                "actions of one state 4e-4 or 8e-4 apart in the bias step (discount 1/2, 3/4, 1) or in the gain step, runs started "
                "on the slightly worse action); every 8th case from the large-magnitude family (reward multiplier RM = 900, mostly "
                "costs, some non-absorbing state lacking an action; half of them built around an initial state that lacks an action and "
                "whose available actions lead into a closed set costing 900-2700 per step); 30% of the regular cases are call histories (same planner and "
                "MDP objects, mdp.discount_rate changed in place to another of {1/2,3/4,1}, second result judged like a fresh one); "
                "every 16th case huge rewards (x 1e7) with probabilities in thirds / sevenths; discount 0 is one of the discounts (families and "
                "in-place sweeps); near-tie profiles: rewards of order 1 (gaps 4e-4) and of order 1e-3 (gaps 2**-18); "
"every 16th case mixed magnitudes (decoupled small near-tie component + component with per-state multiplier 1e8/1e9); 20% of the "
                "regular cases list an action twice in actions(s); 20% change the start distribution of the same MDP object in place and plan "
                "again; every second unit is also planned as a fresh short-lived MDP object by the shared planner (stream); "
"every 16th case a rare transition (real probability 1e-3..1e-9, modelled structurally, answers independent of it) out of a "
                "nearly closed set; 12% of the inferred-list cases name an unreachable state with probability 0 in initial_state_dist(); "
                "one planner object per max_iterations is reused across all MDP objects of a chunk; non-trivial = converged run on an instance with >=2 non-absorbing "
                "listed states on which at least two deterministic policies have different exact value (gain) vectors")
    ctx.assumptions = [
        "TLC evaluates the TLA+ oracles correctly (cross-checked on every 3rd case against exact Gaussian elimination of the "
        "evaluation equations with policy enumeration, and on every 5th undiscounted case against the multichain linear program)",
        "floats are compared with exact rationals at 1e-9 relative (direct linear-algebra outputs); a converged result that "
        "differs from the optimum is excused (DRIFT tie-window) only if its values are the exact evaluation of the returned policy "
        "and the spec's exact stop gaps of the rule it rests on are all within np.isclose's default window 1e-8 + 1e-5|max|",
        "runs that do not report convergence are counted, not judged (the statement is conditional on reported convergence)",
    ]
    cases = fixed_rare_cases() + make_cases(rng, n, ctx.tier)
    chunk = 560 if ctx.tier == "quick" else 400
    for k in range(0, len(cases), chunk):
        judge_cases(ctx, cases[k:k + chunk])
    if ctx.tier == "thorough":
        ex = list(exhaustive_cases())
        for k in range(0, len(ex), 2200):
            judge_cases(ctx, ex[k:k + 2200])
        ctx.extra["exhaustive_subfamily"] = ("all 6561 undiscounted 2-state/2-action MDPs over rows {(1,0),(1/2,1/2),(0,1)} and "
                                             "state-action rewards {-1,0,2}, from all 4 initial rules (enumerated completely)")


def replay(ctx, case):
    judge_cases(ctx, [case["case"]])


def selftest(ctx):
    """Binding demonstration: (1) a corrupted gain / value returned by the real code, (2) a corrupted returned
    policy, (3) a perturbed instance handed to msdm must each be reported."""
    rng = random.Random(16)
    cases = make_cases(rng, 40, "quick")
    for c in cases:
        c["m"]["CAP"] = BIG_CAP
    state = {"value": None, "policy": None}

    def tamper_real(i, outs, mp, orc):
        o = outs["plan"]
        if "error" in o or not o["conv"]:
            return
        na = [s for s in range(mp["N"]) if not mp["abs"][s]]
        if state["value"] is None and na:
            o["gain" if not orc["disc"] else "val"][na[0]] += 0.25
            state["value"] = i
            return
        if (state["policy"] or 0) < 3 and orc["disc"]:
            # all weight on an action outside the returned support: strictly worse when discounted
            for s in na:
                av = [a for a in range(mp["K"]) if mp["avail"][s][a]]
                other = [a for a in av if o["polw"][s][a] == 0]
                if other:
                    o["polw"][s] = [1.0 if a == other[0] else 0.0 for a in range(mp["K"])]
                    state["policy"] = (state["policy"] or 0) + 1
                    return

    def run_and_collect(**kw):
        before = len(ctx.violations)
        judge_cases(ctx, cases, steps=False, **kw)
        return ctx.violations[before:]

    v = run_and_collect(tamper_real=tamper_real)
    ok1 = any(":state_gain:" in s or ":state_value:" in s for s, _, _ in v)
    ok2 = any(":policy-attains:" in s for s, _, _ in v)

    def tamper_build(m):
        m2 = dict(m)
        m2["R"] = [[[x + 3 for x in row] for row in act] for act in m["R"]]
        return m2
    # a case on which a uniform reward shift changes the optimum: non-absorbing initial state
    k = next(k for k, c in enumerate(cases) if "tie" not in c and sum(1 for x in c["m"]["abs"] if not x) >= 2
             and all(c["m"]["p0"][s] == 0 for s in range(c["m"]["N"]) if c["m"]["abs"][s]))
    cases = [cases[k]]
    v3 = run_and_collect(tamper_build=tamper_build)
    ok3 = len(v3) > 0
    print(f"  selftest: corrupted value detected={ok1} corrupted policy detected={ok2} perturbed instance detected={ok3}")
    return ok1 and ok2 and ok3
