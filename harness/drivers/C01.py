"""C01 - value iteration (vectorized, dict) and policy iteration return optimal values and policies.

Pipeline: cases (instance x config x representation) -> TLC "mc" run of spec/C01_Planners.tla
(exact oracle + the three reference machines over every case) -> real planners on msdm objects
built from the same instances -> clause-by-clause comparison -> TLC "judge" run (exact evaluation
of the policies the real planners returned, one Plan event per run) -> verdicts.
"""
import math
import random
import warnings
from fractions import Fraction as F

import numpy as np

from .. import gen, build, pyoracle
from ..build import frac
from ..core import digest
from ..tlc import run_tlc, TLCFailure

CFG = """INIT Init
NEXT Next
CHECK_DEADLOCK FALSE
INVARIANT Emit
INVARIANT VIWithinBound
INVARIANT VIUpperBound
INVARIANT MaskedZero
INVARIANT PIOptimal
INVARIANT PINotSingularDisc
INVARIANT InstancesWellFormed
PROPERTY CallsStartAfresh
"""

DESIGN_INVS = ["VIWithinBound", "VIUpperBound", "MaskedZero", "PIOptimal", "PINotSingularDisc",
               "InstancesWellFormed", "CallsStartAfresh"]

REPS = [
    dict(rep="quick", labels="int", alabels="int", explicit_list=False, dist="dict"),
    dict(rep="subclass", labels="str", alabels="str", explicit_list=True, dist="dict_zeros"),
    dict(rep="quick", labels="tuple", alabels="str", explicit_list=False, dist="det"),
    dict(rep="matrices", labels="frozendict", alabels="int", explicit_list=True, dist="dict"),
    dict(rep="subclass", labels="mixed", alabels="mixed", explicit_list=False, dist="uniform"),
    dict(rep="quick", labels="str", alabels="tuple", explicit_list=True, dist="dict"),
    # distinct labels with colliding hashes (CPython: hash(-1) == hash(-2)): memo tables keyed by hash(label)
    dict(rep="quick", labels="negint", alabels="negint", explicit_list=False, dist="dict"),
    dict(rep="subclass", labels="negtuple", alabels="str", explicit_list=True, dist="dict"),
]


# --------------------------------------------------------------------------------------------
# case generation
# --------------------------------------------------------------------------------------------
def machine_cap(m):
    """Largest iteration cap for which the exact machines stay inside 30-bit integers."""
    D = m["GD"] * m["PD"]
    lim = 2 ** 30 // (m["GD"] * m["PD"] * 8 * 40)
    c = 1
    while D ** (c + 1) <= lim:
        c += 1
    return c


def make_cases(rng, n, tier):
    fams = [
        dict(GN=1, GD=2, PD=2, rewards=(-2, -1, 0, 1, 2)),
        dict(GN=1, GD=2, PD=4, rewards=(-2, -1, 0, 1, 3)),
        dict(GN=3, GD=4, PD=2, rewards=(-2, -1, 0, 1, 2)),
        dict(GN=9, GD=10, PD=2, rewards=(-2, -1, 0, 1, 2)),
        dict(GN=1, GD=1, PD=2, rewards=(-2, -1, 0)),
        dict(GN=1, GD=1, PD=4, rewards=(-3, -1, 0)),
        # probabilities in thirds: not exact in single precision (and not dyadic in double)
        dict(GN=1, GD=2, PD=3, rewards=(-2, -1, 0, 1, 2), max_na=2),
        dict(GN=3, GD=4, PD=3, rewards=(-2, -1, 0, 1, 2), max_na=2),
        # step costs of several hundred: optimal values below log(smallest positive double) = -708
        dict(GN=1, GD=2, PD=2, rewards=(-900, -500, -400, 0), max_na=2),
        dict(GN=1, GD=1, PD=2, rewards=(-900, -500, -400, 0), max_na=2),
    ]
    cases = []
    while len(cases) < n:
        f = fams[len(cases) % len(fams)]
        n_na = rng.choice([1, 2, 2, 3, 3])
        if f.get("max_na"):
            n_na = min(n_na, f["max_na"])
        n_abs = rng.choice([0, 1, 1, 2]) if f["GN"] < f["GD"] else rng.choice([1, 1, 2])
        K = rng.choice([1, 2, 2, 3])
        m = gen.rand_mdp(rng, n_na=n_na, n_abs=n_abs, K=K, PD=f["PD"], GN=f["GN"], GD=f["GD"],
                         rewards=f["rewards"], ID=rng.choice([2, 4]))
        if not gen.magnitude_ok(m, QD=6):
            continue
        # configuration: residual, cap, placeholder
        mc = machine_cap(m)
        style = rng.choice(["default", "fine", "machine", "machine", "coarse"])
        if style == "default":
            m["EN"], m["ED"], m["CAP"] = 1, 100000, 100000
            m["algs"] = ["oracle"]
        elif style == "fine":          # residual small enough for the tie clause to bind (section 5.1)
            m["EN"], m["ED"], m["CAP"] = 1, 1000000000, 100000
            m["algs"] = ["oracle"]
        elif style == "coarse":
            m["EN"], m["ED"] = rng.choice([(1, 4), (1, 16), (1, 64)])
            m["CAP"] = 100000
            m["algs"] = ["oracle"]
        else:
            m["EN"], m["ED"] = rng.choice([(1, 4), (1, 16), (1, 64), (1, 1024)])
            m["CAP"] = rng.randint(1, mc)
            m["algs"] = ["oracle", "vec", "dict"]
        # the PI machine needs small numbers: gamma in {1/2, 1}, PD = 2
        if f["GD"] <= 2 and K <= 3:
            m["algs"] = m["algs"] + ["pi"]
            m["PICAP"] = 100000
        m["undef"] = rng.choice([0, -7, "-inf"])
        rep = dict(REPS[rng.randrange(len(REPS))])
        rep["abs_int"] = rng.random() < 0.3
        if not rep["explicit_list"] and not gen.ghost_closed(m):
            rep["explicit_list"] = True      # ghost successors outside the inferred list: C06's business
        # call history: the planner objects first plan on another MDP of the same shape (spec: Replan)
        cases.append({"m": m, "rep": rep, "warm": rng.random() < 0.35})
    return cases


def lottery_tie_cases(rng, n):
    """An exact tie between a lottery and a sure thing at discount 9/10: s0 chooses between a 50/50 move to x / y
    (reward 0) and a sure move to the goal paying Rb; x and y move to the goal paying rx / ry, with
    9 (rx + ry) / 20 = Rb.  The two action values are equal in exact arithmetic but are computed by different float
    expressions (0.9 is not a binary fraction), so an implementation that compares them with == instead of its tie
    tolerance sees them one ulp apart.  The exact policy is uniform over both actions at s0."""
    cases = []
    pairs = [(-1, -19), (-3, -17), (-7, -13), (-9, -11), (-13, -7), (-17, -3), (1, 19), (3, 17), (7, 13), (11, 9),
             (-21, 1), (-23, 3), (-27, 7), (-33, 13), (-6, -14), (-2, -18)]
    while len(cases) < n:
        rx, ry = pairs[len(cases) % len(pairs)]
        rb = 9 * (rx + ry) // 20
        perm = list(range(4))
        rng.shuffle(perm)
        s0, x, y, g = perm
        N, K, PD = 4, 2, 2
        flip = rng.random() < 0.5              # which action index is the lottery
        lot, sure = (1, 0) if flip else (0, 1)
        P = [[[0] * N for _ in range(K)] for _ in range(N)]
        R = [[[0] * N for _ in range(K)] for _ in range(N)]
        avail = [[1, 1] for _ in range(N)]
        P[s0][lot][x] = 1
        P[s0][lot][y] = 1
        P[s0][sure][g] = 2
        R[s0][sure][g] = rb
        for a in range(K):
            P[x][a][g] = 2
            R[x][a][g] = rx
            P[y][a][g] = 2
            R[y][a][g] = ry
            P[g][a][g] = 2
        if rng.random() < 0.5:
            avail[x] = [1, 0]
        m = {"N": N, "K": K, "PD": PD, "GN": 9, "GD": 10, "ID": 2, "abs": [1 if s == g else 0 for s in range(N)],
             "avail": avail, "P": P, "R": R, "p0": [2 if s == s0 else 0 for s in range(N)],
             "EN": 1, "ED": 1000000000, "CAP": 100000, "algs": ["oracle"], "PICAP": 100000, "undef": 0}
        rep = dict(REPS[rng.randrange(len(REPS))])
        rep["abs_int"] = rng.random() < 0.3
        cases.append({"m": m, "rep": rep, "warm": rng.random() < 0.35})
    return cases


NEAR_D = (100000, 131072)     # discount 1 - 1/D: closer to 1 than numpy.isclose's window (1e-5 relative)


def near_cases(rng, n):
    """Family `near = 1` of C01_Planners.tla: loop states T (every action a pure self-loop), states U whose actions
    lead into T and explicitly absorbing states only; optimal values are integers over PD although 1/(1-gamma) ~ 1e5."""
    cases = []
    while len(cases) < n:
        D = NEAR_D[len(cases) % 2]
        nT, nU, nA = rng.choice([1, 1, 2]), rng.choice([1, 1, 2]), rng.choice([1, 1, 2])
        N, K, PD = nT + nU + nA, rng.choice([2, 2, 3]), 2
        order = list(range(N))
        rng.shuffle(order)
        T, U, A = set(order[:nT]), set(order[nT:nT + nU]), set(order[nT + nU:])
        avail = []
        for s in range(N):
            while True:
                row = [1 if rng.random() < 0.8 else 0 for _ in range(K)]
                if any(row):
                    break
            avail.append(row)
        P = [[[0] * N for _ in range(K)] for _ in range(N)]
        R = [[[rng.choice([-2, -1, 0, 1, 2]) for _ in range(N)] for _ in range(K)] for _ in range(N)]
        for s in range(N):
            for a in range(K):
                if s in T:
                    P[s][a][s] = PD
                    R[s][a][s] = rng.choice([-3, -2, -1, -1, 0, 1])
                elif s in U:
                    tg = sorted(T | A)
                    row = gen.rand_row(rng, len(tg), PD)
                    for j, t in enumerate(tg):
                        P[s][a][t] = row[j]
                else:
                    P[s][a] = gen.rand_row(rng, N, PD)      # ghost dynamics of an absorbing state
        ID = rng.choice([2, 4])
        p0 = gen.rand_row(rng, N, ID, sparse=0.3)
        m = {"N": N, "K": K, "PD": PD, "GN": D - 1, "GD": D, "ID": ID, "abs": [1 if s in A else 0 for s in range(N)],
             "avail": avail, "P": P, "R": R, "p0": p0, "near": 1,
             "EN": 1, "ED": 1024, "CAP": 30, "algs": ["oracle"], "PICAP": 100000, "undef": rng.choice([0, -7, "-inf"])}
        rep = dict(REPS[rng.randrange(len(REPS))])
        rep["abs_int"] = rng.random() < 0.3
        if not rep["explicit_list"] and not gen.ghost_closed(m):
            rep["explicit_list"] = True
        cases.append({"m": m, "rep": rep, "warm": rng.random() < 0.35})
    return cases


def warm_instance(m):
    """The MDP of the earlier call in a call history: same shape, every reward 2 lower, discount 1/2 (so that the
    earlier call converges quickly to values below those of the case)."""
    m2 = dict(m)
    m2["R"] = [[[x - 2 for x in row] for row in sa] for sa in m["R"]]
    m2["GN"], m2["GD"] = 1, 2
    m2.pop("near", None)
    return m2


# --------------------------------------------------------------------------------------------
# running the real planners
# --------------------------------------------------------------------------------------------
def run_real(case):
    """Returns dict alg -> result summary in abstract indices (or {"error": ...})."""
    from msdm.algorithms import ValueIteration, PolicyIteration
    m, rep = case["m"], case["rep"]
    rng = random.Random(digest(case))
    out = {}
    eps = m["EN"] / m["ED"]
    undef = float(m["undef"])
    for alg in ("vec", "dict", "pi"):
        try:
            b = build.build_mdp(m, rng=rng, **rep)
            with warnings.catch_warnings():
                warnings.simplefilter("ignore")
                if alg in ("vec", "dict"):
                    planner = ValueIteration(max_iterations=m["CAP"], max_residual=eps, undefined_value=undef,
                                             _version="vectorized" if alg == "vec" else "dict")
                else:
                    planner = PolicyIteration(max_iterations=100000, undefined_value=undef)
                if case.get("warm"):
                    # call history: the same planner object has planned on another MDP of the same shape before
                    try:
                        wb = build.build_mdp(warm_instance(m), rng=random.Random(2), **rep)
                        if alg == "pi":
                            planner.batch_plan_on([wb.mdp])
                        else:
                            planner.plan_on(wb.mdp)
                    except Exception:                # noqa: BLE001 - the earlier call is not judged
                        pass
                if alg in ("vec", "dict"):
                    r = planner.plan_on(b.mdp)
                else:
                    # the batch entry point: a partner MDP of the same shape but another discount rate and
                    # other rewards comes FIRST in the batch, the case's MDP second
                    g = m["GN"] / m["GD"]
                    m2 = dict(m)
                    m2["R"] = [[[-abs(x) - 1 for x in row] for row in sa] for sa in m["R"]]
                    # the partner's discount is a float, or the INTEGER 0 (the batch must not take its
                    # dtype from the first MDP; discount 0 can never make the partner's evaluation singular)
                    pdisc = 0 if rng.random() < 0.4 else (0.25 if g >= 0.5 else 0.9)
                    b2 = build.build_mdp(m2, rng=random.Random(1), discount=pdisc,
                                         **dict(rep, explicit_list=True))
                    if tuple(b2.mdp.transition_matrix.shape) == tuple(b.mdp.transition_matrix.shape):
                        r = planner.batch_plan_on([b2.mdp, b.mdp])[1]
                    else:
                        r = planner.batch_plan_on([b.mdp])[0]
            out[alg] = project(b, r)
        except Exception as e:                       # noqa: BLE001 - reported as a clause failure
            out[alg] = {"error": f"{type(e).__name__}: {e}"[:300]}
    return out


def project(b, r):
    m = b.m
    sl = list(b.mdp.state_list)
    states = [b.sidx(s) for s in sl]
    V, Q, pol = {}, {}, {}
    for s_lab in sl:
        s = b.sidx(s_lab)
        V[s] = float(r.state_value[s_lab])
        Q[s] = {}
        row = r.policy.action_dist(s_lab)
        pol[s] = {b.aidx(a): float(p) for a, p in row.items() if p > 0}
        for a_lab in b.mdp.action_list:
            try:
                Q[s][b.aidx(a_lab)] = float(r.action_value[s_lab][a_lab])
            except Exception:                        # noqa: BLE001
                pass
    return {"states": states, "V": V, "Q": Q, "pol": pol, "initial_value": float(r.initial_value),
            "converged": bool(r.converged), "iterations": int(r.iterations)}


# --------------------------------------------------------------------------------------------
# judging
# --------------------------------------------------------------------------------------------
def close(x, exact, tol):
    if exact is None:
        return True
    if isinstance(exact, float) and math.isinf(exact):
        return x == exact
    return abs(x - float(exact)) <= tol + 1e-9 * max(1.0, abs(float(exact)))


def judge_cases(ctx, cases, *, real=None):
    """Run TLC over the cases, the real planners, compare. `real` can inject results (selftest)."""
    batch = []
    for c in cases:
        rec = dict(c["m"])
        rec.pop("undef", None)
        rec["explicit"] = 1 if c["rep"]["explicit_list"] else 0
        batch.append(rec)
    # call histories: the earlier call of a warmed-up case is a batch entry of its own (algs = <<"warm">>) whose
    # field `next` names the case; the spec's Replan action starts the case's machines afresh after it
    for i, c in enumerate(cases, start=1):
        if c.get("warm"):
            w = dict(warm_instance(batch[i - 1]))
            w["algs"] = ["warm"]
            w["next"] = i
            batch.append(w)
    res = run_tlc(ctx.workdir / "mc", "C01_Planners", CFG, files={"batch.json": batch},
                  env={"BATCH_FILE": "batch.json", "MODE": "mc", "FAMGAMMA": "half", "FAMMOD": 1, "FAMREM": 0},
                  coverage=False)
    ctx.add_tlc(res, "mc: oracle + VIvec/VIdict/PI machines over the batch")
    compare(ctx, cases, res, real=real)


def family_cases(ctx, gamma, mod, rem):
    """Mode "family": TLC enumerates the exhaustive two-state family itself (a slice of it) and emits the
    instances; they are replayed into the real planners."""
    res = run_tlc(ctx.workdir / f"fam-{gamma}", "C01_Planners", CFG, files={"batch.json": []},
                  env={"BATCH_FILE": "batch.json", "MODE": "family", "FAMGAMMA": gamma, "FAMMOD": mod, "FAMREM": rem},
                  coverage=False, timeout=7200)
    ctx.add_tlc(res, f"family({gamma}): exhaustive 2-state/2-action family, slice {rem} mod {mod}")
    # re-number: cases in the order of the oracle records
    recs = [r for r in res.records if r["kind"] == "oracle"]
    remap = {}
    cases = []
    rng = random.Random(ctx.seed + 17)
    for r in recs:
        m = r["inst"]
        m = {k: m[k] for k in m}
        m["algs"] = list(m["algs"])
        m["undef"] = rng.choice([0, -7])
        rep = dict(REPS[rng.randrange(len(REPS))])
        rep["explicit_list"] = True
        if rep["rep"] == "matrices":
            rep["rep"] = "quick"
        cases.append({"m": m, "rep": rep})
        remap[r["iid"]] = len(cases)
    for r in res.records:
        r["iid"] = remap[r["iid"]]
    compare(ctx, cases, res)
    return len(cases)


def _real_worker(c):
    return run_real(c)


def compare(ctx, cases, res, *, real=None):
    bad = [v for v in res.violated if v in DESIGN_INVS]
    if bad:
        raise TLCFailure(f"design-level invariant violated in C01_Planners: {sorted(set(bad))}\n"
                         + (res.traces[0][:3000] if res.traces else ""))
    by = {}
    for r in res.records:
        by[(r["iid"], r["kind"])] = r
    if real is None:
        if len(cases) > 1500:
            import multiprocessing as mp
            with mp.get_context("fork").Pool(12) as pool:
                real = pool.map(_real_worker, cases, chunksize=50)
        else:
            real = [run_real(c) for c in cases]
    judge_batch = []
    pending = []
    for i, c in enumerate(cases, start=1):
        m = c["m"]
        orc = by.get((i, "oracle"))
        if orc is None:
            raise TLCFailure(f"no oracle record for case {i}")
        # machinery cross-check of the TLA+ oracle against the independent Python one
        if i % 5 == 0 or m.get("near"):
            pv = pyoracle.optimal_value(m)
            for s in range(m["N"]):
                tv = frac(orc["v"][s])
                if (pv[s] == pyoracle.NEG) != (tv == float("-inf")) or (pv[s] != pyoracle.NEG and pv[s] != tv):
                    raise TLCFailure(f"TLA+ oracle and Python oracle disagree on case {i} state {s}: {tv} vs {pv[s]}")
            ctx.count("oracle_crosschecks")
        outs = real[i - 1]
        ctx.evaluations += len(outs)
        pending.append((i, c, orc, outs))
        for alg, o in outs.items():
            if "error" in o:
                continue
            pol = [[1 if a in o["pol"].get(s, {}) else 0 for a in range(m["K"])] for s in range(m["N"])]
            # states outside the state list / absorbing: any available action (not used by the evaluation)
            for s in range(m["N"]):
                if not any(pol[s]):
                    pol[s] = list(m["avail"][s])
            jr = {k: m[k] for k in ("N", "K", "PD", "GN", "GD", "ID", "abs", "avail", "P", "R", "p0")}
            jr.update(EN=1, ED=1, CAP=1, algs=[], pol=pol, tag=f"{i}:{alg}", explicit=1)
            if m.get("near"):
                jr["near"] = 1
            judge_batch.append(jr)
    jby = {}
    for k0 in range(0, len(judge_batch), 20000):
        jres = run_tlc(ctx.workdir / f"judge{k0}", "C01_Planners", "INIT Init\nNEXT Next\nCHECK_DEADLOCK FALSE\nINVARIANT Emit\n",
                       files={"batch.json": judge_batch[k0:k0 + 20000]},
                       env={"BATCH_FILE": "batch.json", "MODE": "judge", "FAMGAMMA": "half", "FAMMOD": 1, "FAMREM": 0})
        ctx.add_tlc(jres, "judge: exact evaluation of the returned policies (one Plan event each)")
        for r in jres.records:
            jby[r["tag"]] = r
    for i, c, orc, outs in pending:
        judge_one(ctx, i, c, orc, outs, by, jby)


def stable_under_own_window(m, o, jr):
    """Signature predicate of the known finding on policy iteration at discounts within 1e-5 of 1: the returned values
    ARE the look-ahead maxima on the exact values (spec: NearPV) of the returned tie-sharing policy, and that policy is
    stable under the code's own test - every supported action's exact look-ahead on those values lies within numpy.isclose's window
    (1e-8 + 1e-5 |max|) of the best one.  The window is relative to action values of size ~1/(1-gamma), so actions
    whose rewards differ by O(1) count as tied and the iteration stops on them."""
    g = F(m["GN"], m["GD"])
    pv = [frac(x) for x in jr["pv"]]
    for s in o["states"]:
        if m["abs"][s]:
            continue
        if not isinstance(pv[s], F):
            return False
        q = {}
        for a in range(m["K"]):
            if m["avail"][s][a]:
                q[a] = sum(F(m["P"][s][a][t], m["PD"]) * (m["R"][s][a][t] + (0 if m["abs"][t] else g * pv[t]))
                           for t in range(m["N"]) if m["P"][s][a][t] > 0)
        best = max(q.values())
        # the code reports max_a Q^pi(s, a) on the exact values of its final policy pi
        if abs(o["V"][s] - float(best)) > 1e-9 * max(1.0, abs(float(best))):
            return False
        w = F(1, 10 ** 8) + F(1, 10 ** 5) * abs(best)
        sup = set(o["pol"].get(s, {}))
        if not sup or not sup <= set(q) or any(best - q[a] > w * F(11, 10) for a in sup):
            return False
    return True


def judge_one(ctx, i, c, orc, outs, by, jby):
    m = c["m"]
    N, K = m["N"], m["K"]
    g = F(m["GN"], m["GD"])
    eps = m["EN"] / m["ED"]
    vstar = [frac(x) for x in orc["v"]]
    qstar = [[frac(x) for x in row] for row in orc["q"]]
    cannot = {s - 1 for s in orc["cannot"]}
    absall = {s - 1 for s in orc["absall"]}
    neginf = {s - 1 for s in orc["neginf"]}
    leaks = {s - 1 for s in orc["leaks"]}
    vinit = frac(orc["vinit"])
    family = f"g{m['GN']}/{m['GD']}"
    value_clause_ok = not neginf and not leaks
    if neginf:
        ctx.skip("instance with V*=-inf at a state that can reach an absorbing state (outside the value clause)")
    case_ok = True
    nontrivial = False
    # signature predicate of the known finding on undiscounted policy iteration, computed by the spec:
    # the exact PI machine itself meets a singular system or stops away from the optimum
    pim = by.get((i, "pi"))
    pi_stuck = False
    if pim is not None and g == 1:
        pi_stuck = pim["phase"] == "singular" or any(
            frac(pim["v"][s]) != vstar[s] for s in range(N) if s not in cannot and s not in absall)
        if pi_stuck:
            ctx.count("pi_machine_stuck_instances")
    near_window = [False]
    for alg, o in outs.items():
        tag = f"{i}:{alg}"
        near_window[0] = False
        site = {"vec": "ValueIteration[vectorized]", "dict": "ValueIteration[dict]", "pi": "PolicyIteration.batch_plan_on"}[alg]

        def fail(clause, what, extra=None):
            nonlocal case_ok
            case_ok = False
            sig = f"C01:{site}:{clause}"
            if leaks and clause in ("value", "policy-support", "policy-return"):
                sig = "C01:planners:leak-into-cannot-reach"
            elif clause == "policy-return" and extra and extra.get("only_cannot_reach_rows"):
                sig = "C01:planners:cannot-reach-policy"
            if alg == "pi" and g == 1 and pi_stuck and clause in ("value", "policy-support", "policy-return", "error"):
                sig = "C01:PolicyIteration:undiscounted-stuck"
            if near_window[0] and clause in ("value", "policy-support", "policy-return"):
                sig = "C01:PolicyIteration:near-one-discount:stable-under-relative-tie-window"
            ctx.violation(sig, f"{site} {clause}: {what}", {"case": c, "alg": alg, "clause": clause, "extra": extra})

        if "error" in o:
            fail("error", f"raised {o['error']}")
            continue
        jr = jby.get(tag)
        listed = o["states"]
        near_window[0] = bool(m.get("near")) and alg == "pi" and jr is not None and stable_under_own_window(m, o, jr)
        # bound of this run
        if alg == "pi":
            b = 1e-10
            stopped = o["converged"]
        else:
            # judged when the loop stopped by its residual test - or when the planner itself reports
            # convergence (a run cut by the cap must not be reported as converged)
            stopped = o["iterations"] + 1 < m["CAP"] or o["converged"]
            if g < 1:
                b = eps / (1 - float(g))
            else:
                b = None      # per state: eps * N^pi(s)
        steps = [frac(x) for x in jr["steps"]] if jr else None
        # --- clause: absorbing states are worth 0; placeholder at cannot-reach states
        for s in listed:
            if s in absall and o["V"][s] != 0:
                fail("absorbing-zero", f"value {o['V'][s]} at absorbing state {s}")
            if g == 1 and s in cannot and s not in absall and o["V"][s] != float(m["undef"]):
                fail("placeholder", f"value {o['V'][s]} at cannot-reach state {s}, placeholder {m['undef']}")
        # --- clause: initial value is the expectation of the reported state values
        supp = [s for s in listed if m["p0"][s] > 0]
        if any(math.isinf(o["V"][s]) for s in supp):
            ev = sum(m["p0"][s] / m["ID"] * o["V"][s] for s in supp)
            if not (o["initial_value"] == ev):
                fail("initial-value", f"initial_value {o['initial_value']} != sum p0*V = {ev}")
        else:
            ev = sum(F(m["p0"][s], m["ID"]) * F(o["V"][s]) for s in supp)
            if not close(o["initial_value"], ev, 1e-12):
                fail("initial-value", f"initial_value {o['initial_value']} != sum p0*V = {float(ev)}")
        # --- clause (one-sided part of "values equal the optimum", needs no bound and no stopping rule): undiscounted
        #     value iteration with rewards <= 0 starts at 0 >= V* and the backup is monotone, so every iterate - also
        #     one cut by the cap, also one whose greedy policy is improper - stays >= V* (spec: VIUpperBound)
        if (alg in ("vec", "dict") and g == 1 and value_clause_ok
                and all(x <= 0 for sa in m["R"] for row in sa for x in row)):
            for s in listed:
                if s in cannot or s in absall or not isinstance(vstar[s], F):
                    continue
                if o["V"][s] < float(vstar[s]) - 1e-9 * max(1.0, abs(float(vstar[s]))):
                    fail("value", f"V[{s}]={o['V'][s]} is below the optimum V*={float(vstar[s])}: value iteration from 0 "
                                  f"with rewards <= 0 can only approach V* from above", {"vstar": [str(x) for x in vstar]})
                    break
        if not stopped:
            ctx.count("runs_stopped_by_cap")
            continue
        if not value_clause_ok and not leaks:
            continue
        # --- clause: values within the bound of the optimum
        for s in listed:
            if s in cannot and g == 1:
                continue
            if s in absall:
                continue
            if b is None:
                if steps is None or steps[s] is None or (isinstance(steps[s], float)):
                    ctx.count("value_bound_skipped_improper_greedy_policy")
                    tol = None
                else:
                    # the returned policy sigma is uniform over isclose-ties of the planner's action values,
                    # so V_{k+1} = T_sigma V_k only up to msdm's tie window w:  V_k - V^sigma <= (eps + w) N^sigma
                    wwin = 1e-8 + 1e-5 * max([abs(o["V"][x]) for x in listed if not math.isinf(o["V"][x])] + [0.0])
                    tol = (eps + wwin) * float(steps[s])
            else:
                tol = b
            if tol is not None and not close(o["V"][s], vstar[s], tol):
                fail("value", f"V[{s}]={o['V'][s]} but V*={float(vstar[s]) if vstar[s] is not None else None} (bound {tol})",
                     {"vstar": [str(x) for x in vstar]})
                break
        # --- clause: policy support = exact maximisers (near-ties aside), uniform weights
        # bb = measured sup-norm error of this run's reported values and action values w.r.t. the
        # exact optimum (the planner ranks actions by its own approximate action values)
        errs = [1e-12]
        for s in listed:
            if s in absall or (g == 1 and s in cannot):
                continue
            if isinstance(vstar[s], F):
                errs.append(abs(o["V"][s] - float(vstar[s])))
            for a in range(K):
                if m["avail"][s][a] and isinstance(qstar[s][a], F) and a in o["Q"].get(s, {}):
                    errs.append(abs(o["Q"][s][a] - float(qstar[s][a])))
        bb = max(errs)
        for s in listed:
            if s in absall or (g == 1 and s in cannot):
                continue
            av = [a for a in range(K) if m["avail"][s][a]]
            qs = {a: qstar[s][a] for a in av}
            if any(isinstance(q, float) for q in qs.values()):
                fin = [q for q in qs.values() if not isinstance(q, float)]
                if not fin:
                    continue
                best = max(fin)
            else:
                best = max(qs.values())
            w = 1e-8 + 1e-5 * abs(float(best))
            sup = set(o["pol"].get(s, {}))
            if not sup <= set(av):
                fail("policy-support", f"state {s}: unavailable action in support {sorted(sup)}")
                continue
            free = False
            for a in av:
                gap = float("inf") if isinstance(qs[a], float) else float(best - qs[a])
                if gap + 2 * bb < w:
                    if a not in sup:
                        fail("policy-support", f"state {s}: optimal action {a} (gap {gap}) missing from support {sorted(sup)}")
                elif gap - 2 * bb > w:
                    if a in sup:
                        fail("policy-support", f"state {s}: suboptimal action {a} (gap {gap}) in support {sorted(sup)}")
                else:
                    free = True
            if free:
                ctx.count("states_with_free_near_tie")
            ps = sorted(o["pol"].get(s, {}).values())
            if ps and any(abs(p - 1 / len(ps)) > 1e-9 for p in ps):
                fail("policy-uniform", f"state {s}: weights {ps} not uniform")
            if len({q for q in qs.values()}) > 1 and not free:
                nontrivial = True
        # --- clause: exact return of the returned policy is optimal at the initial distribution
        if jr is not None and vinit is not None:
            pinit = frac(jr["pinit"])
            nmax = max([float(x) for x in steps if isinstance(x, F)] + [1.0]) if g == 1 else 1 / (1 - float(g))
            slack = 2 * (1e-8 + 1e-5 * max(abs(float(vinit)) if not isinstance(vinit, float) else 0, 1.0) + 2 * bb) * nmax
            if isinstance(vinit, float) or isinstance(pinit, float):
                okp = (pinit == vinit)
            else:
                okp = float(vinit - pinit) <= slack + 1e-9 and float(pinit - vinit) <= 1e-9
            if not okp:
                pfix = frac(jr["pfix"])
                if isinstance(vinit, float) or isinstance(pfix, float):
                    okfix = (pfix == vinit)
                else:
                    okfix = float(vinit - pfix) <= slack + 1e-9 and float(pfix - vinit) <= 1e-9
                fail("policy-return", f"exact return of the returned policy {pinit} vs optimal {vinit}",
                     {"only_cannot_reach_rows": bool(cannot) and okfix})
        # --- DRIFT: the exact machines explain the run (iterations, iterate)
        mrec = by.get((i, alg))
        if mrec is not None and alg == "pi" and mrec["phase"] == "done":
            mv = [frac(x) for x in mrec["v"]]
            # (the iteration count of the batch entry point is shared by the whole batch: not compared)
            same = all(
                abs(o["V"][s] - float(mv[s])) <= 1e-9 * max(1, abs(float(mv[s])))
                for s in listed if not (g == 1 and s in cannot)) and all(
                set(o["pol"].get(s, {})) == {a - 1 for a in mrec["sup"][s]} for s in listed)
            if same:
                ctx.validated += 1
            else:
                ctx.drift("PI-machine", {"case": digest(c), "machine_its": mrec["its"], "real_its": o["iterations"]})
        if mrec is not None and alg in ("vec", "dict"):
            mv = [frac(x) for x in mrec["v"]]
            same = mrec["its"] == o["iterations"] and all(
                abs(o["V"][s] - float(mv[s])) <= 1e-12 * max(1, abs(float(mv[s])))
                for s in listed if not (g == 1 and s in cannot))
            if same:
                ctx.validated += 1
            else:
                ctx.drift(f"VI-{alg}-machine", {"case": digest(c), "machine_its": mrec["its"], "real_its": o["iterations"]})
    # --- clause: the two value-iteration implementations agree
    a, d = outs.get("vec"), outs.get("dict")
    if a and d and "error" not in a and "error" not in d and a["iterations"] + 1 < m["CAP"] and d["iterations"] + 1 < m["CAP"] and value_clause_ok:
        for s in a["states"]:
            if s in d["V"]:
                if g < 1:
                    tol = 2 * eps / (1 - float(g))
                else:
                    tol = None
                if tol is not None and abs(a["V"][s] - d["V"][s]) > tol + 1e-9:
                    ctx.violation("C01:ValueIteration:vec-dict-agree", f"vec {a['V'][s]} vs dict {d['V'][s]} at state {s}",
                                  {"case": c, "clause": "agree"})
                    case_ok = False
    if case_ok:
        ctx.validated += 1
    if nontrivial and sum(1 for x in m["abs"] if not x) >= 2:
        ctx.nontrivial(digest(c["m"]))
    ctx.sample({"instance": {k: m[k] for k in ("N", "K", "PD", "GN", "GD", "abs", "avail", "P", "R", "p0", "EN", "ED", "CAP")},
                "rep": c["rep"], "vstar": [str(x) for x in vstar],
                "real": {alg: (o if "error" in o else {"V": o["V"], "iterations": o["iterations"]}) for alg, o in outs.items()}})


# --------------------------------------------------------------------------------------------
def run(ctx):
    rng = random.Random(ctx.seed * 7919 + 1)
    n = 300 if ctx.tier == "quick" else 6000
    ctx.rule = ("random members of MDPFam (1-3 non-absorbing + 0-2 explicitly absorbing states with ghost dynamics, "
                "1-3 state-dependent actions, gamma in {1/2,3/4,9/10,1}, PD in {2,4}) x residual x cap x placeholder x "
                "representation x call history (35%: the planner objects planned on another MDP of the same shape first); "
                "plus the near-one family (discount 1-1/D, D in {100000, 131072}, loop states and their predecessors); non-trivial = >=2 non-absorbing states and some listed state with two available actions "
                "of different exact Q* whose support decision does not rest on a free near-tie")
    ctx.assumptions = ["TLC evaluates the TLA+ oracle correctly (cross-checked against an independent Fraction implementation on every 5th case)",
                       "float comparisons use 1e-9 relative slack on top of the bound named by the property"]
    cases = make_cases(rng, n, ctx.tier)
    nn = 40 if ctx.tier == "quick" else 800
    near = near_cases(rng, nn)
    # spread the near-one cases over the chunks
    step = max(1, len(cases) // max(1, len(near)))
    for j, c in enumerate(near):
        cases.insert(min(len(cases), j * (step + 1)), c)
    ctx.count("near_one_discount_cases", len(near))
    lot = lottery_tie_cases(rng, 16 if ctx.tier == "quick" else 160)
    for j, c in enumerate(lot):
        cases.insert(min(len(cases), 3 + j * (step + 2)), c)
    ctx.count("lottery_tie_cases", len(lot))
    ctx.count("cases_with_call_history", sum(1 for c in cases if c.get("warm")))
    chunk = 1000
    for k in range(0, len(cases), chunk):
        judge_cases(ctx, cases[k:k + chunk])
    # exhaustive two-state family enumerated by TLC itself: a slice in quick, everything in thorough
    # quick: a 1/600 slice; thorough: a 1/8 slice (~52k instances); VERIF_C01_FULL=1: the whole family
    # (419 904 instances, several hours because every returned policy goes back to TLC for exact evaluation)
    import os
    full = os.environ.get("VERIF_C01_FULL") == "1"
    mod = 600 if ctx.tier == "quick" else (1 if full else 8)
    n = 0
    for gamma in ("half", "one"):
        n += family_cases(ctx, gamma, mod, ctx.seed % mod)
    ctx.count("family_instances", n)
    if ctx.tier == "thorough" and full:
        ctx.exhaustive = True
        ctx.extra["exhaustive_family"] = "all 209952 (x2 discounts) two-state/two-action MDPs of C01_Planners!FamDecode"


def replay(ctx, case):
    judge_cases(ctx, [case["case"]])


def selftest(ctx):
    """Binding demonstration: perturb one value returned by the real code and one field of the
    instance handed to msdm; both must be reported."""
    rng = random.Random(5)
    cases = make_cases(rng, 30, "quick")
    real = [run_real(c) for c in cases]
    # (1) corrupt one reported value
    tgt = next(i for i, o in enumerate(real) if "error" not in o["vec"] and o["vec"]["iterations"] + 1 < cases[i]["m"]["CAP"]
               and any(s for s in o["vec"]["states"] if not cases[i]["m"]["abs"][s]))
    s = next(s for s in real[tgt]["vec"]["states"] if not cases[tgt]["m"]["abs"][s])
    real[tgt]["vec"]["V"][s] += 0.75
    before = len(ctx.violations)
    judge_cases(ctx, cases, real=real)
    return len(ctx.violations) > before
