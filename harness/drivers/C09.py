"""C09 - finite-state-controller values equal the return of executing the controller.

Four TLC pipelines over random (POMDP, stochastic controller) cases:

  A/hist   spec/C09_FSC.tla, machine "hist": every action/observation history of positive probability to the
           depth bound of the case; design invariants (history probability = joint forward mass, factorisation,
           agent state = node posterior, total probability) in every state; per state TLC prints the exact
           action mixture / node posterior / cumulative probability -> the driver replays the tree through a
           real StochasticFiniteStateController (initial_agentstate / action_dist / next_agentstate, feeding the
           real agent states back in) and compares.
  A/value  machine "value": exact value tables (episodes end at absorbing states) by Cramer on integers,
           checked against the evaluation equations inside TLC -> stochastic_fsc_policy_evaluation_exact.
  B/run    spec/C09_Run.tla validates episodes recorded from POMDPPolicy.run_on (possible steps only, the model's
           rewards, stop exactly on entering an absorbing state or when the budget is spent).
  B/learn  spec/C09_Learn.tla validates one trace per FSCBoundedPolicyIteration / FSCGradientAscent run: rows are
           distributions, reported value = independent evaluation of the returned controller, and the action
           property Monotone over the per-iteration value tables of bounded policy iteration.
The verdicts are TLC's; Python builds msdm objects, runs the real code and projects to integers.
"""
import math
import random
from fractions import Fraction as F

import numpy as np
from frozendict import frozendict

from .. import gen
from .. import pomdp_build as pb
from .. import pyoracle
from ..core import digest
from ..tlc import run_tlc, TLCFailure

CFG_FSC = """INIT Init
NEXT Next
CHECK_DEADLOCK FALSE
INVARIANT Emit
INVARIANT HistoryProbability
INVARIANT Factorises
INVARIANT AgentStateIsPosterior
INVARIANT ActionDistNormalised
INVARIANT TotalProbability
INVARIANT ExploresPossibleHistories
INVARIANT ValueEquation
INVARIANT CutOnlyMattersWithGhosts
INVARIANT InstancesWellFormed
"""
FSC_INVS = ["HistoryProbability", "Factorises", "AgentStateIsPosterior", "ActionDistNormalised",
            "TotalProbability", "ExploresPossibleHistories", "ValueEquation", "CutOnlyMattersWithGhosts",
            "InstancesWellFormed"]

CFG_TINY = """INIT Init
NEXT Next
CHECK_DEADLOCK FALSE
INVARIANT Emit
INVARIANT TinyFactorises
INVARIANT TinyAgentStateIsPosterior
INVARIANT TinyActionDistNormalised
INVARIANT TinyExploresPossibleHistories
INVARIANT InstancesWellFormed
"""
TINY_INVS = ["TinyFactorises", "TinyAgentStateIsPosterior", "TinyActionDistNormalised",
             "TinyExploresPossibleHistories", "InstancesWellFormed"]

CFG_RUN = """INIT Init
NEXT Next
CHECK_DEADLOCK FALSE
INVARIANT Emit
INVARIANT EpisodeAccepted
INVARIANT PosteriorWellDefined
INVARIANT InstancesWellFormed
"""

CFG_LEARN = """INIT Init
NEXT Next
CHECK_DEADLOCK FALSE
INVARIANT Emit
INVARIANT ReturnedControllerValid
INVARIANT ReportedValueIsEvaluation
INVARIANT WalkEndsAtReportedTable
PROPERTY Monotone
"""

# ---- tolerances (DESIGN 5.1) ------------------------------------------------------------------------------
# evaluator: one 64-bit LU solve of a system with <= 12 unknowns whose matrix I - g*T has condition number
# <= (1+g)/(1-g) <= 19 (<= 4e5 in the near-one-discount family, g <= 1 - 1e-5) and entries that are small dyadics /
# thirds / tenths: error ~1e-14 (~1e-10) -> 1e-9 relative.
TOL_V = 1e-9
# controller object: the CONDITIONAL action distribution P(a | history) and the node posterior are chains of <= 4
# products / sums of non-negative terms followed by one normalisation (no cancellation), so their RELATIVE error is
# <= ~30 ulp = 4e-15 however unlikely the history is -> 1e-9 relative per entry; an entry that is exactly 0 (no node of
# positive posterior weight can choose the action) must come out as 0 (products with exact zeros), floor 1e-200.
TOL_REL = 1e-9
ZERO_FLOOR = 1e-200
TOL_P = 1e-12        # normalisation of a returned distribution (sum of <= 3 entries)
# concrete values of the symbolic small parameter e of spec/C09_Tiny.tla
EPS_VALUES = [F(1, 10 ** 9), F(1, 10 ** 12), F(1, 10 ** 5)]
LIM = 2 ** 30 - 1
SA = 4096            # agent-state quantisation of C09_Run
SR = 1024            # reward quantisation of C09_Run
SV = 2 ** 20         # value / probability quantisation of C09_Learn
# two floats that differ by <= 1e-9 round to integers that differ by <= 1 unit of 1/SV -> 2 units
TEQ = 2
# monotonicity: 1 unit of rounding on the difference + the LP's feasibility tolerance 1e-7 amplified by
# 1/(1-g) <= 10 (= 1.05 units) + msdm's own acceptance window isclose(rtol=1e-5) on values |V| <= 20 is NOT
# granted -> 4 units (3.8e-6)
TMONO = 4
# rows of a learnt controller come out of an LP / a softmax in floating point: "is a probability distribution" is
# judged with the window msdm's own evaluator applies before it accepts a controller (torch.allclose defaults on the
# row sums: 1e-8 + 1e-5) - a row that stochastic_fsc_policy_evaluation_exact itself accepts as a distribution is not
# called a violation; the same window bounds how negative an entry may be (LP feasibility tolerances 1e-7..1e-8
# divided by an action probability that msdm only replaces when it is below 1e-8).  1e-5 * 2^20 = 10.5 -> 11 units.
TROW = 11

LABELS = ["int", "str", "tuple", "frozendict", "mixed"]
DISTS = ["dict", "dict_zeros", "det", "uniform"]
ABSREPS = ["bool", "bool", "npbool", "npbool", "int"]
# labels that are falsy in Python (distinct, hashable, mutually unsortable).  Observations: pomdp_build's kind "falsy"
# (None, '', (), 0 - None being the common 'no signal' label).  States and actions: the private kind "falsy0"
# (0, '', (), frozendict()) without None, because run_on's own API gives None a meaning there (initial_state=None =
# 'draw one'; action None = closing record of a trajectory).
SLABELS = LABELS + ["falsy0"]
OLABELS = LABELS + ["falsy", "falsy"]
_FALSY0 = [0, "", (), frozendict()]


def _labels(kind, n, prefix="s", rng=None):
    """build.make_labels extended with the kind "falsy0" (private to this driver)."""
    if kind == "falsy0":
        pool = list(_FALSY0) + [(prefix, i) for i in range(max(0, n - len(_FALSY0)))]
        if rng is not None:
            rng.shuffle(pool)
        return pool[:n]
    return _base_make_labels(kind, n, prefix, rng)


_base_make_labels = pb.make_labels


def build_pomdp(m, **kw):
    """pomdp_build.build_pomdp with the extended label kinds (the shared module is left as it is: its label factory
    is swapped only for the duration of the call)."""
    pb.make_labels = _labels
    try:
        return pb.build_pomdp(m, **kw)
    finally:
        pb.make_labels = _base_make_labels


# ==============================================================================================================
# case generation
# ==============================================================================================================
def rand_controller(rng, K, NO, NN, QD, ED, ND, by_action=True):
    psi = [gen.rand_row(rng, K, QD, sparse=0.3) for _ in range(NN)]
    if NN >= 2 and K >= 2 and len({tuple(r) for r in psi}) == 1 and rng.random() < 0.8:
        r = list(psi[0])
        rng.shuffle(r)
        psi[-1] = r if r != psi[0] else r[::-1]
    eta = []
    for n in range(NN):
        shared = [gen.rand_row(rng, NN, ED, sparse=0.3) for _ in range(NO)]
        eta.append([[list(shared[o]) if not by_action else gen.rand_row(rng, NN, ED, sparse=0.3)
                     for o in range(NO)] for _ in range(K)])
    iota = gen.rand_row(rng, NN, ND, sparse=0.15)
    return dict(NN=NN, QD=QD, psi=psi, ED=ED, eta=eta, ND=ND, iota=iota)


def tree_depth(branch, budget, cap=3):
    d, size = 0, 1
    while d < cap and size + branch ** (d + 1) <= budget:
        d += 1
        size += branch ** d
    return max(d, 1)


def int_system(m, cut):
    """The integer system of FSC!System (same construction, used ONLY to bound magnitudes)."""
    N, K, NO, NN = m["N"], m["K"], m["NO"], m["NN"]
    states = [s for s in range(N) if m["lst"][s] and not (cut and m["abs"][s])]
    pairs = [(n, s) for n in range(NN) for s in states]
    CD = m["QD"] * m["PD"] * m["OD"] * m["ED"]
    rows = []
    for (n, s) in pairs:
        row = []
        for (k, t) in pairs:
            c = sum(m["psi"][n][a] * m["P"][s][a][t] * sum(m["O"][a][t][o] * m["eta"][n][a][o][k] for o in range(NO))
                    for a in range(K))
            row.append((m["GD"] * CD if (n, s) == (k, t) else 0) - m["GN"] * c)
        rw = sum(m["psi"][n][a] * sum(m["P"][s][a][t] * m["R"][s][a][t] for t in range(N) if m["lst"][t]) for a in range(K))
        row.append(m["GD"] * m["OD"] * m["ED"] * rw)
        g = 0
        for x in row:
            g = math.gcd(g, x)
        rows.append([x // g for x in row] if g else row)
    return rows


def value_magnitude_ok(m, cut):
    """Hadamard: every minor of the augmented system (hence every determinant, cofactor term and partial sum
    of the Laplace / Cramer evaluation in FSC.tla) is bounded by the product of the row norms."""
    rows = int_system(m, cut)
    k = len(rows)
    if k == 0:
        return True
    if k > 6:
        return False
    prod2, mx2 = 1, 1
    for r in rows:
        n2 = sum(x * x for x in r)
        prod2 *= max(n2, 1)
        mx2 = max(mx2, n2)
    raw = max(m["GD"] * m["QD"] * m["PD"] * m["OD"] * m["ED"] * 2 * max(1, m["K"]),
              m["GD"] * m["OD"] * m["ED"] * m["QD"] * m["PD"] * 4 * m["K"])
    if raw >= LIM:
        return False
    f = max(k, 16) * max(k, 1)
    # (f * sqrt(mx2) * sqrt(prod2))^2 < LIM^2
    return f * f * mx2 * prod2 < LIM * LIM


def hist_magnitude_ok(m, D):
    CD = m["QD"] * m["PD"] * m["OD"] * m["ED"]
    return m["ND"] * m["ID"] * CD ** D * 2 < LIM


def make_case(rng, tier, want):
    """want: 'hist' | 'value' | 'both'.  Returns a case dict {m, rep} or None (magnitude filter)."""
    PD = rng.choice([2, 2, 2, 3, 4])
    OD = rng.choice([2, 2, 2, 3, 4])
    QD = rng.choice([2, 2, 3, 4])
    ED = rng.choice([2, 2, 2, 3])
    NN = rng.choice([1, 2, 2, 2, 2, 3, 3])
    n_na = rng.choice([1, 2, 2, 2, 3])
    n_abs = rng.choice([0, 1, 1, 1, 2])
    K = rng.choice([1, 2, 2, 2, 3])
    NO = rng.choice([1, 2, 2, 2, 3])
    if want == "value":
        # the exact solve has NN * (non-absorbing states) unknowns: at most 6, and Cramer's determinants must fit
        # 30-bit integers (value_magnitude_ok decides; small denominators pass most often)
        NN = rng.choice([1, 2, 2, 2, 3, 3])
        if NN * n_na > 6:
            n_na = 6 // NN
        PD, OD = rng.choice([(2, 2), (2, 2), (2, 1), (1, 2), (3, 2), (2, 3), (4, 2), (2, 4)])
        QD, ED = rng.choice([(2, 2), (2, 2), (2, 1), (1, 2), (3, 2), (4, 2), (2, 3)])
        K = rng.choice([1, 2, 2, 2, 3])
        NO = rng.choice([1, 2, 2, 2, 3])
    if n_na + n_abs < 2:
        n_na = 2
    if n_na + n_abs > 4:
        n_abs = 1
    PD, OD = max(PD, 1), max(OD, 1)
    obs_kind = rng.choice(["random"] * 7 + ["single", "identity", "uninformative"])
    ghost = rng.random() < 0.35
    GN, GD = rng.choice([(1, 2), (1, 2), (3, 4), (9, 10), (1, 3)])
    m = pb.rand_pomdp(rng, n_na=n_na, n_abs=n_abs, K=K, NO=NO, PD=PD, OD=OD, GN=GN, GD=GD,
                      ghost=ghost, ID=rng.choice([2, 3, 4]), obs_kind=obs_kind, init_on_abs=0.2, sparse=0.3)
    by_action = rng.random() < 0.7
    m.update(rand_controller(rng, m["K"], m["NO"], NN, QD, ED, rng.choice([2, 3, 4]), by_action=by_action))
    rep = dict(labels=rng.choice(SLABELS), alabels=rng.choice(SLABELS), olabels=rng.choice(OLABELS),
               explicit_list=rng.random() < 0.5, dist=rng.choice(DISTS), odist=rng.choice(DISTS),
               arr=rng.choice(["torch", "numpy"]), eta3=(not by_action) and rng.random() < 0.7,
               with_init=rng.random() < 0.8,
               absrep=rng.choice(ABSREPS), declare_lists=rng.random() < 0.3)
    closed = gen.ghost_closed(m)
    if not rep["explicit_list"] and not closed and rng.random() < 0.8:
        rep["explicit_list"] = True
    m["open"] = 0 if (rep["explicit_list"] or closed) else 1    # an absorbing state's successor is outside the list
    listed = pb.listed_states(m, rep["explicit_list"])
    m["lst"] = [1 if s in listed else 0 for s in range(m["N"])]
    machs = []
    if want in ("hist", "both"):
        budget = 90 if tier == "quick" else 260
        D = tree_depth(m["K"] * m["NO"], budget)
        while D > 1 and not hist_magnitude_ok(m, D):
            D -= 1
        if hist_magnitude_ok(m, D):
            m["D"] = D
            machs.append("hist")
    if want in ("value", "both"):
        if value_magnitude_ok(m, True):
            machs.append("value")
    m.setdefault("D", 1)
    m["full"] = 1 if ("value" in machs and value_magnitude_ok(m, False)) else 0
    if "value" in machs and m["ghost"] and not m["full"]:
        machs.remove("value")        # ghost instances must be classifiable (uncut table available)
    if not machs:
        return None
    m["machs"] = machs
    case = {"m": m, "rep": rep}
    if "value" in machs and rng.random() < 0.4:
        # call history "discount sweep over one model object": after the first evaluation the driver sets
        # pomdp.discount_rate in place and evaluates again; sweep_m is the same instance with the second discount
        m2 = dict(m)
        m2["GN"], m2["GD"] = rng.choice([g for g in [(1, 2), (3, 4), (9, 10), (1, 3), (1, 4)] if g != (m["GN"], m["GD"])])
        m2["machs"] = ["value"]
        if value_magnitude_ok(m2, True):
            m2["full"] = 1 if value_magnitude_ok(m2, False) else 0
            if m2["full"] or not m["ghost"]:
                case["sweep_m"] = m2
    return case


def make_cases(rng, n, tier, want, ctx=None):
    cases = []
    tries = 0
    while len(cases) < n:
        tries += 1
        c = make_case(rng, tier, "both" if want == "hist" else want)
        if c is None or (want == "value" and "value" not in c["m"]["machs"]) \
                or (want == "hist" and "hist" not in c["m"]["machs"]):
            if ctx is not None:
                ctx.skip("overflow-guard family bound (instance outside the 30-bit range of the exact oracle)")
            if tries > 200 * n:
                raise TLCFailure("case generator cannot satisfy the magnitude filter")
            continue
        cases.append(c)
    return cases


def make_tiny_case(rng, tier):
    """A small POMDP with a controller whose action rows (and sometimes initial node distribution) contain entries
    t*e/QD with t in {1, 2, 4} and e a symbolic small parameter (spec/C09_Tiny.tla): 'rare' actions that only some
    nodes can take, with different tiny weights, next to ordinary O(1) rows."""
    NN = rng.choice([2, 2, 3])
    K = rng.choice([2, 2, 3])
    NO = rng.choice([1, 2, 2])
    n_na = rng.choice([1, 2])
    n_abs = rng.choice([0, 1])
    if n_na + n_abs < 2:
        n_na = 2
    QD, ED, ND = rng.choice([1, 1, 2]), rng.choice([1, 2, 2]), rng.choice([1, 2, 2])
    GN, GD = rng.choice([(1, 2), (9, 10)])
    m = pb.rand_pomdp(rng, n_na=n_na, n_abs=n_abs, K=K, NO=NO, PD=2, OD=2, GN=GN, GD=GD, ghost=False,
                      ID=2, obs_kind=rng.choice(["random", "random", "single"]), init_on_abs=0.0, sparse=0.4)
    K, NO = m["K"], m["NO"]
    m.update(rand_controller(rng, K, NO, NN, QD, ED, ND, by_action=rng.random() < 0.7))
    psie = [[0] * K for _ in range(NN)]
    rare = rng.randrange(K)
    ts = [1, 4, 2]
    rng.shuffle(ts)
    for n in range(NN):
        row = m["psi"][n]
        if rng.random() < 0.75 and any(row[a] > 0 for a in range(K) if a != rare):
            # node n takes the rare action with probability t*e/QD only: move its constant mass elsewhere
            if row[rare] > 0:
                dst = rng.choice([a for a in range(K) if a != rare])
                row[dst] += row[rare]
                row[rare] = 0
            t = ts[n % 3] if rng.random() < 0.85 else 0
            src = rng.choice([a for a in range(K) if row[a] > 0])
            psie[n][rare] += t
            psie[n][src] -= t
        # other zero entries may be tiny as well
        for a in range(K):
            if a != rare and row[a] == 0 and psie[n][a] == 0 and rng.random() < 0.25:
                t = rng.choice([1, 2, 4])
                src = rng.choice([b for b in range(K) if row[b] > 0])
                psie[n][a] += t
                psie[n][src] -= t
    iotae = [0] * NN
    if rng.random() < 0.4:
        zeros = [n for n in range(NN) if m["iota"][n] == 0]
        if zeros:
            n = rng.choice(zeros)
            src = rng.choice([k for k in range(NN) if m["iota"][k] > 0])
            t = rng.choice([1, 4])
            iotae[n] += t
            iotae[src] -= t
    if not any(any(r) for r in psie) and not any(iotae):
        return None
    m.update(psie=psie, iotae=iotae, machs=["tiny"], full=0, open=0)
    m["D"] = tree_depth(K * NO, 70 if tier == "quick" else 160)
    rep = dict(labels=rng.choice(SLABELS), alabels=rng.choice(SLABELS), olabels=rng.choice(OLABELS),
               explicit_list=rng.random() < 0.5, dist=rng.choice(DISTS), odist=rng.choice(DISTS),
               arr=rng.choice(["torch", "numpy"]), eta3=False, with_init=True,
               absrep=rng.choice(ABSREPS), declare_lists=rng.random() < 0.3)
    listed = pb.listed_states(m, rep["explicit_list"])
    m["lst"] = [1 if s in listed else 0 for s in range(m["N"])]
    return {"m": m, "rep": rep}


def make_tiny_cases(rng, n, tier):
    out = []
    while len(out) < n:
        c = make_tiny_case(rng, tier)
        if c is not None:
            out.append(c)
    return out


CFG_NEAR = """INIT Init
NEXT Next
CHECK_DEADLOCK FALSE
INVARIANT Emit
INVARIANT ValueEquationHoldsForEveryDiscount
INVARIANT OnlyListedRunningStates
INVARIANT InstancesWellFormed
"""
NEAR_INVS = ["ValueEquationHoldsForEveryDiscount", "OnlyListedRunningStates", "InstancesWellFormed"]
# discount = 1 - d for the symbolic d of spec/C09_NearOne.tla
NEAR_DELTAS = [F(1, 20000), F(1, 100000), F(1, 4)]


def make_near_case(rng):
    """Small long-lived POMDP x controller (<= 4 unknowns, denominators 1-2, absorbing states without outgoing
    dynamics): every running state keeps mass on itself and is paid with one sign per (state, action), so the value
    depends visibly on how close the discount is to 1."""
    NN, n_na = rng.choice([(1, 1), (1, 2), (2, 1), (2, 2), (2, 2)])
    n_abs = rng.choice([0, 1, 1])
    if n_na + n_abs < 2:
        n_abs = 1
    PD, OD, QD, ED = rng.choice([(2, 2, 2, 2), (2, 1, 2, 2), (2, 2, 1, 2), (2, 2, 2, 1)])
    m = pb.rand_pomdp(rng, n_na=n_na, n_abs=n_abs, K=rng.choice([1, 2, 2]), NO=rng.choice([1, 2, 2]), PD=PD, OD=OD,
                      GN=1, GD=2, ghost=False, ID=rng.choice([2, 4]), obs_kind="random", init_on_abs=0.1, sparse=0.3)
    for s_ in range(m["N"]):
        if m["abs"][s_]:
            continue
        for a_ in range(m["K"]):
            row = m["P"][s_][a_]
            if row[s_] == 0:
                src = next(t for t in range(m["N"]) if row[t] > 0)
                row[src] -= 1
                row[s_] += 1
            sg = rng.choice([-1, 1])
            for t_ in range(m["N"]):
                m["R"][s_][a_][t_] = sg * rng.choice([1, 2])
    m.update(rand_controller(rng, m["K"], m["NO"], NN, QD, ED, rng.choice([2, 4]), by_action=True))
    rep = dict(labels=rng.choice(SLABELS), alabels=rng.choice(SLABELS), olabels=rng.choice(OLABELS),
               explicit_list=rng.random() < 0.5, dist=rng.choice(DISTS), odist=rng.choice(DISTS),
               arr="torch", eta3=False, with_init=rng.random() < 0.8,
               absrep=rng.choice(ABSREPS), declare_lists=rng.random() < 0.3)
    listed = pb.listed_states(m, rep["explicit_list"])
    m.update(lst=[1 if s in listed else 0 for s in range(m["N"])], open=0, full=0, D=1, machs=["near"])
    return {"m": m, "rep": rep}


def judge_near_cases(ctx, cases, only_delta=None):
    """Pipeline A for discounts close to 1: TLC solves the evaluation equations symbolically in d = 1 - discount
    (C09_NearOne); per concrete d the exact tables are the emitted polynomials evaluated with Fractions, and the
    real evaluator is called on a POMDP with that discount."""
    res = run_tlc(ctx.workdir / "near", "C09_NearOne", CFG_NEAR, files={"batch.json": [c["m"] for c in cases]},
                  env={"BATCH_FILE": "batch.json"}, coverage=(ctx.tier == "thorough"))
    ctx.add_tlc(res, "exact value tables as rational functions of d = 1 - discount (Cramer on polynomials)")
    bad = [v for v in res.violated if v in NEAR_INVS]
    if bad:
        raise TLCFailure(f"design-level invariant violated in C09_NearOne: {sorted(set(bad))}\n"
                         + (res.traces[0][:2000] if res.traces else ""))
    per = {r["iid"]: r["rec"] for r in res.records}
    for i, c in enumerate(cases, start=1):
        rec = per.get(i)
        if rec is None:
            raise TLCFailure(f"no near-one record for case {i}")
        m = c["m"]
        for d in NEAR_DELTAS:
            if only_delta is not None and str(d) != only_delta:
                continue
            g = 1 - d
            md = dict(m, GN=g.numerator, GD=g.denominator)
            det = peval(rec["det"], d)
            if det == 0:
                raise TLCFailure(f"near-one case {i}: determinant vanishes at d={d}")
            V = [[F(0)] * m["N"] for _ in range(m["NN"])]
            for (n, s), num in zip(rec["pairs"], rec["num"]):
                V[n - 1][s - 1] = peval(num, d) / det
            if V != py_value(md, True):
                raise TLCFailure(f"near-one case {i}: TLA+ value table differs from Fractions at d={d}")
            ctx.count("oracle_crosschecks_near_one")
            sv = [sum(F(m["iota"][n], m["ND"]) * V[n][s] for n in range(m["NN"])) for s in range(m["N"])]
            ev = sum(F(m["p0"][s], m["ID"]) * sv[s] for s in range(m["N"]))
            pair = lambda x: [x.numerator, x.denominator]          # noqa: E731
            recd = {"v": [[pair(x) for x in r] for r in V], "sv": [pair(x) for x in sv], "ev": pair(ev), "vg": [],
                    "ghostmatters": False}
            judge_value(ctx, i, {"m": md, "rep": c["rep"], "near": str(d)}, recd)
    return res


# ==============================================================================================================
# independent exact semantics (Fractions; shares nothing with msdm, numpy or the TLA+ text)
# ==============================================================================================================
def py_value(m, cut):
    N, K, NO, NN = m["N"], m["K"], m["NO"], m["NN"]
    g = F(m["GN"], m["GD"])
    states = [s for s in range(N) if m["lst"][s] and not (cut and m["abs"][s])]
    pairs = [(n, s) for n in range(NN) for s in states]
    psi = [[F(x, m["QD"]) for x in r] for r in m["psi"]]
    A, b = [], []
    for (n, s) in pairs:
        row = []
        for (k, t) in pairs:
            pr = F(0)
            for a in range(K):
                if psi[n][a] == 0 or m["P"][s][a][t] == 0:
                    continue
                pr += psi[n][a] * F(m["P"][s][a][t], m["PD"]) * sum(
                    F(m["O"][a][t][o], m["OD"]) * F(m["eta"][n][a][o][k], m["ED"]) for o in range(NO))
            row.append((1 if (n, s) == (k, t) else 0) - g * pr)
        A.append(row)
        b.append(sum(psi[n][a] * F(m["P"][s][a][t], m["PD"]) * m["R"][s][a][t]
                     for a in range(K) for t in range(N) if m["lst"][t]))
    x = pyoracle._solve(A, b) if pairs else []
    V = [[F(0)] * N for _ in range(NN)]
    for i, (n, s) in enumerate(pairs):
        V[n][s] = x[i]
    return V


def psi_frac(m, n, a, eps=None):
    e = (m["psie"][n][a] * eps) if eps is not None else 0
    return (F(m["psi"][n][a]) + e) / m["QD"]


def iota_frac(m, n, eps=None):
    e = (m["iotae"][n] * eps) if eps is not None else 0
    return (F(m["iota"][n]) + e) / m["ND"]


def py_history(m, h, eps=None):
    """Brute force over hidden node / state paths: (P(history), node posterior or None)."""
    N, NN = m["N"], m["NN"]
    w = {}
    for n in range(NN):
        for s in range(N):
            p = iota_frac(m, n, eps) * F(m["p0"][s], m["ID"])
            if p:
                w[(n, s)] = p
    for (a, o) in h:
        nw = {}
        for (n, s), p in w.items():
            if m["abs"][s]:
                continue
            pa = psi_frac(m, n, a, eps)
            if not pa:
                continue
            for t in range(N):
                pt = F(m["P"][s][a][t], m["PD"]) * F(m["O"][a][t][o], m["OD"])
                if not pt:
                    continue
                for k in range(NN):
                    pk = F(m["eta"][n][a][o][k], m["ED"])
                    if pk:
                        nw[(k, t)] = nw.get((k, t), 0) + p * pa * pt * pk
        w = nw
    tot = sum(w.values())
    if not tot:
        return tot, None
    return tot, [sum(p for (n, s), p in w.items() if n == k) / tot for k in range(NN)]


def peval(p, eps):
    return sum(F(c) * eps ** i for i, c in enumerate(p))


def rat(x):
    return F(x[0], x[1])


def crosscheck_value(idx, m, rec):
    V = py_value(m, True)
    for n in range(m["NN"]):
        for s in range(m["N"]):
            if rat(rec["v"][n][s]) != V[n][s]:
                raise TLCFailure(f"case {idx}: TLA+ value V[{n}][{s}]={rec['v'][n][s]} but Fractions give {V[n][s]}")
    sv = [sum(F(m["iota"][n], m["ND"]) * V[n][s] for n in range(m["NN"])) for s in range(m["N"])]
    if [rat(x) for x in rec["sv"]] != sv:
        raise TLCFailure(f"case {idx}: TLA+ state values differ from Fractions")
    if rat(rec["ev"]) != sum(F(m["p0"][s], m["ID"]) * sv[s] for s in range(m["N"])):
        raise TLCFailure(f"case {idx}: TLA+ expected value differs from Fractions")
    if m["full"]:
        Vg = py_value(m, False)
        if [[rat(x) for x in r] for r in rec["vg"]] != Vg:
            raise TLCFailure(f"case {idx}: TLA+ uncut value table differs from Fractions")


def crosscheck_hist(idx, m, rec):
    h = [(e["a"] - 1, e["o"] - 1) for e in rec["hist"]]
    tot, post = py_history(m, h)
    r = rec["rec"]
    if rat(r["ptrue"]) != tot:
        raise TLCFailure(f"case {idx}: TLA+ history probability {r['ptrue']} but brute force gives {tot} at {h}")
    s = sum(r["ag"])
    if post is None or [F(x, s) for x in r["ag"]] != post:
        raise TLCFailure(f"case {idx}: TLA+ node posterior {r['ag']} but brute force gives {post} at {h}")
    exp = [sum(post[n] * F(m["psi"][n][a], m["QD"]) for n in range(m["NN"])) for a in range(m["K"])]
    if [F(x, r["actden"]) for x in r["actw"]] != exp:
        raise TLCFailure(f"case {idx}: TLA+ action mixture differs from brute force at {h}")


def tiny_expectation(m, rec, eps):
    """Exact (action distribution, node posterior, P(history)) at a concrete e from the polynomials TLC emitted."""
    den = peval(rec["den"], eps)
    tot = sum(peval(p, eps) for p in rec["agp"])
    if den <= 0 or tot <= 0:
        raise TLCFailure(f"tiny family: emitted normaliser is not positive at e={eps}")
    exp = [peval(p, eps) / den for p in rec["actp"]]
    post = [peval(p, eps) / tot for p in rec["agp"]]
    if any(x < 0 for x in exp + post) or sum(exp) != 1:
        raise TLCFailure(f"tiny family: emitted polynomials do not give distributions at e={eps}")
    return exp, post


def crosscheck_tiny(idx, m, r, eps):
    h = [(e["a"] - 1, e["o"] - 1) for e in r["hist"]]
    tot, post = py_history(m, h, eps)
    exp_a, exp_post = tiny_expectation(m, r["rec"], eps)
    CD = m["QD"] * m["PD"] * m["OD"] * m["ED"]
    if peval(r["rec"]["ptrue"], eps) / (m["ND"] * m["ID"] * CD ** len(h)) != tot:
        raise TLCFailure(f"tiny case {idx}: TLA+ history probability differs from brute force at {h}, e={eps}")
    if post is None or exp_post != post:
        raise TLCFailure(f"tiny case {idx}: TLA+ node posterior differs from brute force at {h}, e={eps}")
    if exp_a != [sum(post[n] * psi_frac(m, n, a, eps) for n in range(m["NN"])) for a in range(m["K"])]:
        raise TLCFailure(f"tiny case {idx}: TLA+ action mixture differs from brute force at {h}, e={eps}")


# ==============================================================================================================
# msdm objects
# ==============================================================================================================
class World:
    """A case built in msdm, with the index maps between abstract and msdm orders."""

    def __init__(self, case, tamper_instance=None):
        self.case = case
        self.m, self.rep = case["m"], case["rep"]
        mb = case.get("m_build", self.m)
        rng = random.Random(digest([self.m, self.rep]))
        keys = ("labels", "alabels", "olabels", "explicit_list", "dist", "odist")
        # declare_lists: the model class DECLARES observation_list / action_list (as msdm.domains.LoadUnload does) in an
        # order that is not the sorted one; every index of the matrices / the controller is tied to those lists
        self.B = B = build_pomdp(mb, rng=rng, declare_lists=bool(self.rep.get("declare_lists")),
                                 **{k: self.rep[k] for k in keys})
        B.m = self.m
        self.p = p = B.pomdp
        # what is_absorbing returns: a Python bool, a numpy.bool_ (flags looked up in an array, as models built by
        # TabularMarkovDecisionProcess.from_matrices do) or an int 0 / 1 - all of them say "absorbing" by truthiness
        absrep = self.rep.get("absrep", "bool")
        if absrep != "bool":
            conv = np.bool_ if absrep == "npbool" else int
            p.is_absorbing = (lambda s, _f=p.is_absorbing, _c=conv: _c(_f(s)))
        self.sl = list(p.state_list)
        self.al = list(p.action_list)
        self.ok = True
        self.why = None
        if set(self.sl) != {B.slabel[s] for s in B.listed} or set(self.al) != set(B.alabel):
            self.ok, self.why = False, "state/action list differs from the reachable set (C06's clause)"
            return
        self.spos = [B.sidx(lab) for lab in self.sl]            # msdm state position -> abstract state
        self.apos = [B.aidx(lab) for lab in self.al]            # msdm action position -> abstract action
        self.listed = sorted(B.listed)
        self.col = {s: i for i, s in enumerate(self.spos)}      # abstract state -> msdm position

    def matrices(self):
        """Touch the array builders (C06/C07's clauses); returns None or the exception."""
        try:
            p = self.p
            _ = p.transition_matrix, p.observation_matrix, p.state_action_reward_matrix, p.initial_state_vec
            self.ol = list(p.observation_list)
        except Exception as e:                                   # noqa: BLE001
            return e
        known = [lab for lab in self.ol if lab in self.B.olabel]
        got = {self.B.oidx(lab) for lab in known}
        declared = bool(self.rep.get("declare_lists"))
        if len(known) != len(self.ol) or len(got) != len(self.ol) or not (
                got >= set(self.B.olisted) if declared else got == set(self.B.olisted)):
            return RuntimeError("observation_list differs from the observations of positive probability")
        self.opos = [self.B.oidx(lab) for lab in self.ol]        # msdm observation position -> abstract
        return None

    def controller_arrays(self, eps=None):
        m = self.m
        A = np.array([[float(psi_frac(m, n, a, eps)) for a in self.apos] for n in range(m["NN"])], dtype=float)
        E = np.array([[[[m["eta"][n][a][o][k] / m["ED"] for k in range(m["NN"])] for o in self.opos]
                       for a in self.apos] for n in range(m["NN"])], dtype=float)
        I = np.array([float(iota_frac(m, n, eps)) for n in range(m["NN"])], dtype=float)
        return A, E.reshape((m["NN"], len(self.apos), len(self.opos), m["NN"])), I


def as_kind(x, kind):
    if kind == "torch":
        import torch
        return torch.tensor(x, dtype=torch.float64)
    return np.array(x, dtype=float)


def to_np(x):
    try:
        import torch
        if isinstance(x, torch.Tensor):
            return x.detach().cpu().numpy().astype(float)
    except ImportError:
        pass
    return np.asarray(x, dtype=float)


def np_value(m, listed, A, E, cut):
    """Independent float evaluation of a controller given in ABSTRACT index order over the listed states:
    A[n][a], E[n][a][o][k] (o over all abstract observations; unlisted ones carry zero probability).
    Returns {(n, s): value}."""
    NN = A.shape[0]
    g = m["GN"] / m["GD"]
    states = [s for s in listed if not (cut and m["abs"][s])]
    pairs = [(n, s) for n in range(NN) for s in states]
    ix = {p: i for i, p in enumerate(pairs)}
    T = np.zeros((len(pairs), len(pairs)))
    r = np.zeros(len(pairs))
    for (n, s) in pairs:
        i = ix[(n, s)]
        for a in range(m["K"]):
            pa = A[n][a]
            if pa == 0:
                continue
            for t in range(m["N"]):
                pt = m["P"][s][a][t] / m["PD"]
                if pt == 0:
                    continue
                if t not in listed:
                    continue            # only an absorbing state's declared row can leave the list (uncut chain)
                r[i] += pa * pt * m["R"][s][a][t]
                if t not in states:
                    continue
                for o in range(m["NO"]):
                    po = m["O"][a][t][o] / m["OD"]
                    if po == 0:
                        continue
                    for k in range(NN):
                        T[i, ix[(k, t)]] += pa * pt * po * E[n][a][o][k]
    x = np.linalg.solve(np.eye(len(pairs)) - g * T, r) if pairs else np.zeros(0)
    out = {(n, s): 0.0 for n in range(NN) for s in listed}
    for p_, i in ix.items():
        out[p_] = float(x[i])
    return out


# ==============================================================================================================
# pipeline A: TLC run + judges
# ==============================================================================================================
def hkey(rec):
    return tuple((e["a"], e["o"]) for e in rec["hist"])


class Reporter:
    """At most one violation per (case, signature)."""

    def __init__(self, ctx, kind, case):
        self.ctx, self.kind, self.case = ctx, kind, case
        self.seen = set()
        self.failed = False

    def fail(self, sig, what, extra=None):
        self.failed = True
        if sig in self.seen:
            return
        self.seen.add(sig)
        self.ctx.violation(sig, what[:700], {"kind": self.kind, "case": self.case, "detail": extra})


def rel_close(x, e):
    """x (float from the real code) equals the exact rational e at TOL_REL relative; exact zeros must be zeros."""
    e = float(e)
    if e == 0.0:
        return abs(x) <= ZERO_FLOOR
    return abs(x - e) <= TOL_REL * abs(e)


def judge_hist(ctx, idx, case, recs, tamper=None, eps=None):
    """Replay the whole history tree of one case through a real StochasticFiniteStateController.

    eps=None: records of C09_FSC (integer weights).  eps=Fraction: records of C09_Tiny (polynomials in e), evaluated
    at that e.  At every node the CONDITIONAL action distribution and the agent state are compared relative to the
    exact values (both are O(1) quantities however unlikely the history is)."""
    from msdm.core.pomdp.finitestatecontroller import StochasticFiniteStateController as SFSC
    m, rep = case["m"], case["rep"]
    kind = "hist" if eps is None else "tiny"
    R = Reporter(ctx, kind, case)
    W = World(case)
    if not W.ok:
        ctx.skip(W.why)
        return
    err = W.matrices()
    if err is not None:
        ctx.skip(f"array builders raised {type(err).__name__} (C06/C07's clause)")
        return
    A, E, I = W.controller_arrays(eps)
    B = W.B
    site = "StochasticFiniteStateController"
    tag = "" if eps is None else f" [e={float(eps):g}]"
    ctx.evaluations += 1
    try:
        c = SFSC(W.p, as_kind(A, rep["arr"]), as_kind(E, rep["arr"]), as_kind(I, rep["arr"]))
        ag0 = c.initial_agentstate()
    except Exception as e:                                           # noqa: BLE001
        R.fail(f"C09:{site}.__init__:raised-{type(e).__name__}", f"constructing the controller raised {e!r}")
        return
    if tamper is not None:
        c = tamper(c)
    if () not in recs:
        raise TLCFailure(f"case {idx}: no root record")
    K, NN = m["K"], m["NN"]
    real = {(): (ag0, 1.0)}
    for h in sorted(recs, key=len):
        if h not in real:
            continue
        rec = recs[h]["rec"]
        rag, rpc = real[h]
        hist0 = [(a - 1, o - 1) for a, o in h]
        if eps is None:
            exp = [F(x, rec["actden"]) for x in rec["actw"]]
            post = [F(x, sum(rec["ag"])) for x in rec["ag"]]
            if sum(exp) != 1:
                raise TLCFailure(f"case {idx}: emitted action mixture does not sum to 1")
            naive = [F(x, rec["nactden"]) for x in rec["nactw"]]
        else:
            exp, post = tiny_expectation(m, rec, eps)
            naive = None
        node_ok = True
        pe, pp = [str(x) for x in exp], [str(x) for x in post]
        # ---- the agent state handed back by initial_agentstate / next_agentstate: the normalised node posterior
        fn = "initial_agentstate" if not h else "next_agentstate"
        try:
            v = to_np(rag).reshape(-1)
            tot = float(v.sum())
            shape_ok = len(v) == NN and bool(np.all(np.isfinite(v))) and tot > 0
        except Exception:                                            # noqa: BLE001
            v, tot, shape_ok = None, 0.0, False
        if not shape_ok:
            node_ok = False
            R.fail(f"C09:{site}.{fn}:node-posterior",
                   f"agent state after history {hist0}{tag} is {None if v is None else v.tolist()}; node posterior {pp}",
                   {"hist": hist0, "eps": str(eps)})
        elif any(not rel_close(float(v[n]) / tot, post[n]) for n in range(NN)):
            node_ok = False
            R.fail(f"C09:{site}.{fn}:node-posterior",
                   f"agent state after history (action, observation) {hist0}{tag} is {v.tolist()}; the distribution over "
                   f"nodes given that history is {pp} = {[float(x) for x in post]}", {"hist": hist0, "eps": str(eps)})
        elif not abs(tot - 1.0) <= 1e-9:
            ctx.drift("agent-state-is-not-normalised", {"case": digest(case), "hist": hist0, "got": v.tolist()})
        # ---- action_dist at this history: the conditional action distribution
        ctx.evaluations += 1
        try:
            ad = c.action_dist(rag)
            got = [float(ad.prob(B.alabel[a])) for a in range(K)]
            extra = [k for k in ad.support if k not in B.alabel and float(ad.prob(k)) != 0.0]
        except Exception as e:                                       # noqa: BLE001
            R.fail(f"C09:{site}.action_dist:raised-{type(e).__name__}", f"action_dist raised {e!r} after history {hist0}{tag}")
            continue
        if extra or any(not (x >= 0.0) for x in got) or not abs(sum(got) - 1.0) <= 10 * TOL_P:
            R.fail(f"C09:{site}.action_dist:not-a-distribution",
                   f"action_dist after history {hist0}{tag} is {got} (+{extra})", {"hist": hist0, "eps": str(eps)})
            node_ok = False
        elif any(not rel_close(got[a], exp[a]) for a in range(K)):
            node_ok = False
            note = ""
            if naive is not None and all(rel_close(got[a], naive[a]) for a in range(K)):
                note = " (the numbers equal the mixture under node weights that were not conditioned on the actions taken)"
            R.fail(f"C09:{site}.action_dist:conditional-action-probability",
                   f"after history (action, observation) {hist0}{tag} the controller object chooses actions with "
                   f"probabilities {got}; the controller defines {pe} = {[float(x) for x in exp]}{note}",
                   {"hist": hist0, "got": got, "exact": pe, "eps": str(eps)})
        # (the probability of the whole history needs no separate clause: by invariant AgentStateIsPosterior it is the
        #  product of the exact conditional action probabilities along the path, each compared here, and of the world's
        #  observation probabilities; rpc, the product of the real ones, is carried along for the samples)
        if node_ok:
            ctx.validated += 1
            supp = len([x for x in post if x])
            if eps is None:
                if len(h) >= 1 and (rec["ag"] != rec["agn"] or supp >= 2):
                    ctx.nontrivial(digest([digest(m), "hist", list(h)]))
            elif len(h) >= 1 and supp >= 2 and rpc < 1e-4:
                ctx.nontrivial(digest([digest(m), "tiny", str(eps), list(h)]))
                ctx.count("tiny_nodes_after_an_unlikely_action")
        # ---- children
        for a in range(K):
            for o in range(m["NO"]):
                ck = h + ((a + 1, o + 1),)
                if ck not in recs:
                    continue
                ctx.evaluations += 1
                try:
                    nag = c.next_agentstate(rag, B.alabel[a], B.olabel[o])
                except Exception as e:                               # noqa: BLE001
                    R.fail(f"C09:{site}.next_agentstate:raised-{type(e).__name__}",
                           f"next_agentstate raised {e!r} after history {hist0} + {(a, o)}{tag}")
                    continue
                real[ck] = (nag, rpc * got[a])
        if len(h) >= 2 and supp_ge2(post) and (eps is not None or rec["ag"] != rec["agn"]):
            ctx.sample({"pipeline": "A/" + kind, "e": None if eps is None else str(eps),
                        "instance": {k: m[k] for k in ("N", "K", "NO", "abs", "P", "O", "p0", "psi", "eta", "iota") + (("psie", "iotae") if eps is not None else ())},
                        "rep": rep, "history": hist0, "exact_action_probabilities": pe, "real_action_probabilities": got,
                        "exact_node_posterior": pp, "controller_side_probability_of_history": rpc},
                       limit=2 if eps is None else 4)
    if not R.failed:
        ctx.count(f"{kind}_cases_fully_conformant")


def supp_ge2(post):
    return len([x for x in post if x]) >= 2


def judge_value(ctx, idx, case, rec, tamper=None, world=None):
    """One call of the evaluator compared with the exact tables.  Returns the World when everything conformed.

    world=None: first call on a freshly built POMDP (instance case["m"]).  world=W: SECOND call on the same POMDP
    object after `pomdp.discount_rate` was set in place to the discount of case["sweep_m"] (a discount sweep over one
    model object); rec then holds the exact tables of case["sweep_m"]."""
    import torch
    torch.set_num_threads(1)
    from msdm.algorithms.fscgradientascent import stochastic_fsc_policy_evaluation_exact as evaluate
    second = world is not None
    m, rep = (case["sweep_m"] if second else case["m"]), case["rep"]
    R = Reporter(ctx, "value", case)
    site = "stochastic_fsc_policy_evaluation_exact"
    sfx = ":second-call-after-discount_rate-changed" if second else ""
    if second:
        W = world
        W.p.discount_rate = float(F(m["GN"], m["GD"]))
        ctx.count("value_second_calls_after_discount_change")
    else:
        W = World(case)
        if not W.ok:
            ctx.skip(W.why)
            return None
        err = W.matrices()
        if err is not None:
            ctx.skip(f"array builders raised {type(err).__name__} (C06/C07's clause)")
            return None
    A, E, I = W.controller_arrays()
    NN = m["NN"]
    tA, tI = torch.tensor(A, dtype=torch.float64), torch.tensor(I, dtype=torch.float64)
    if rep["eta3"]:
        tE = torch.tensor(E[:, 0, :, :], dtype=torch.float64)        # p(n' | n, o): action independent input form
    else:
        tE = torch.tensor(E, dtype=torch.float64)
    ghost_shape = bool(rec["ghostmatters"]) and any(m["abs"][s] for s in W.listed)
    ctx.evaluations += 1
    try:
        if rep["with_init"]:
            res = evaluate(W.p, tA, tE, fsc_initial_state=tI)
        else:
            res = evaluate(W.p, tA, tE)
        V = to_np(res.state_controller_value)
    except Exception as e:                                           # noqa: BLE001
        if m["open"] and isinstance(e, AssertionError):
            R.fail(f"C09:{site}:absorbing-states-not-cut",
                   f"raised AssertionError: the rows of an absorbing state (whose successors are outside the state list) "
                   f"are used as if the episode continued there")
            return None
        else:
            R.fail(f"C09:{site}:raised-{type(e).__name__}" + (":absorbing-outgoing-dynamics" if ghost_shape else "") + sfx,
                   f"evaluator raised {e!r}")
        return None
    if tamper is not None:
        V = tamper(V)
    if V.shape != (NN, len(W.sl)):
        R.fail(f"C09:{site}:shape", f"state_controller_value has shape {V.shape}")
        return None
    ex = [[rat(rec["v"][n][s]) for s in range(m["N"])] for n in range(NN)]
    exg = [[rat(rec["vg"][n][s]) for s in range(m["N"])] for n in range(NN)] if m["full"] else None

    def close(x, e):
        return abs(x - float(e)) <= TOL_V * max(1.0, abs(float(e)))
    bad = [(n, s) for n in range(NN) for s in W.listed if not close(V[n, W.col[s]], ex[n][s])]
    if bad:
        n, s = bad[0]
        uncut = exg is not None and all(close(V[n2, W.col[s2]], exg[n2][s2]) for n2 in range(NN) for s2 in W.listed)
        at_abs = [(n2, s2) for (n2, s2) in bad if m["abs"][s2]]
        pre = ""
        if second:
            pre = (f"second evaluation on the same POMDP object after pomdp.discount_rate was changed in place from "
                   f"{case['m']['GN']}/{case['m']['GD']} to {m['GN']}/{m['GD']}: ")
        what = (pre + f"V[node {n}][state {s}] = {V[n, W.col[s]]!r}, exact expected discounted return of running the "
                f"controller from there = {ex[n][s]} (absorbing flags {m['abs']}, {len(bad)} of "
                f"{NN * len(W.listed)} entries differ, {len(at_abs)} at absorbing states where the return is 0)")
        if uncut:
            R.fail(f"C09:{site}:absorbing-states-not-cut",
                   what + "; the output equals the value of the chain in which absorbing states keep their "
                          "declared outgoing rows (episodes do not end there)", {"bad": bad})
            return None
        else:
            clause = "absorbing-state-value" if at_abs and len(at_abs) == len(bad) else "node-state-value"
            R.fail(f"C09:{site}:{clause}{sfx}", what, {"bad": bad})
        return None
    if rep["with_init"]:
        try:
            sv = to_np(res.state_value).reshape(-1)
            ev = float(res.expected_value)
        except Exception as e:                                       # noqa: BLE001
            R.fail(f"C09:{site}:raised-{type(e).__name__}", f"result fields: {e!r}")
            return None
        for s in W.listed:
            e = rat(rec["sv"][s])
            if not close(sv[W.col[s]], e):
                R.fail(f"C09:{site}:state_value{sfx}", f"state_value[state {s}] = {sv[W.col[s]]!r}, exact {e} "
                                                  f"(initial node distribution {m['iota']}/{m['ND']})")
                return None
        e = rat(rec["ev"])
        if not close(ev, e):
            R.fail(f"C09:{site}:expected_value{sfx}", f"expected_value = {ev!r}, exact {e} (initial state weights {m['p0']}/{m['ID']})")
            return None
    # machinery: the driver's float evaluator (used by pipeline B/learn) agrees with the TLA+ oracle here
    Aabs, Eabs = abstract_controller(W, A, E)
    for cut, table in ((True, ex), (False, exg)):
        if table is None:
            continue
        mine = np_value(m, W.listed, Aabs, Eabs, cut)
        for (n, s), x in mine.items():
            if not close(x, table[n][s]):
                raise TLCFailure(f"case {idx}: driver's float evaluator (cut={cut}) gives {x} at {(n, s)}, TLA+ {table[n][s]}")
    ctx.validated += 1
    ctx.count("value_cases_conformant")
    vals = {ex[n][s] for n in range(NN) for s in W.listed}
    if len(vals) >= 2 and NN * len([s for s in W.listed if not m["abs"][s]]) >= 2:
        ctx.nontrivial(digest([digest(m), "value", "second-call" if second else "first-call"]))
    if NN >= 2 and any(m["abs"][s] for s in W.listed):
        ctx.sample({"pipeline": "A/value", "instance": {k: m[k] for k in ("N", "K", "NO", "abs", "GN", "GD", "P", "R", "O", "p0", "psi", "eta", "iota")},
                    "rep": rep, "exact_values": [[str(x) for x in r] for r in ex], "real_values": V.tolist()}, limit=3)
    return W


def abstract_controller(W, A, E):
    """msdm index order -> abstract order (observations that are in no list get zero rows)."""
    m = W.m
    NN = A.shape[0]
    Aabs = np.zeros((NN, m["K"]))
    Eabs = np.zeros((NN, m["K"], m["NO"], E.shape[-1]))
    for ai, a in enumerate(W.apos):
        Aabs[:, a] = A[:, ai]
        for oi, o in enumerate(W.opos):
            Eabs[:, a, o, :] = E[:, ai, oi, :]
    return Aabs, Eabs


def run_fsc_tlc(ctx, cases, what, extra_invs=()):
    # batch = the cases, followed by the discount-sweep siblings (record index kept in the case as "_sweep_iid")
    batch = [c["m"] for c in cases]
    for c in cases:
        c.pop("_sweep_iid", None)
        if "sweep_m" in c:
            batch.append(c["sweep_m"])
            c["_sweep_iid"] = len(batch)
    cfg = CFG_FSC + "".join(f"INVARIANT {x}\n" for x in extra_invs)
    res = run_tlc(ctx.workdir / "fsc", "C09_FSC", cfg, files={"batch.json": batch},
                  env={"BATCH_FILE": "batch.json"}, coverage=(ctx.tier == "thorough"))
    ctx.add_tlc(res, what)
    bad = [v for v in res.violated if v in FSC_INVS]
    if bad:
        raise TLCFailure(f"design-level invariant violated in C09_FSC: {sorted(set(bad))}\n"
                         + (res.traces[0][:3000] if res.traces else ""))
    per = {}
    for r in res.records:
        per.setdefault(r["iid"], {}).setdefault(r["mach"], {})[hkey(r)] = r
    return res, per


def judge_fsc_cases(ctx, cases, *, tamper_hist=None, tamper_value=None, mutate_records=None, xcheck_every=7, only=None):
    res, per = run_fsc_tlc(ctx, cases, "mc: controller-object machine over every action/observation history "
                                       "+ exact value tables over the batch")
    if mutate_records is not None:
        mutate_records(per)
    nx = 0
    for i, c in enumerate(cases, start=1):
        got = per.get(i, {})
        for mach in c["m"]["machs"]:
            if mach not in got:
                raise TLCFailure(f"no {mach} records for case {i}")
        if "value" in got and only in (None, "value"):
            rec = got["value"][()]["rec"]
            if mutate_records is None:
                crosscheck_value(i, c["m"], rec)
                ctx.count("oracle_crosschecks_value")
            W = judge_value(ctx, i, c, rec, tamper=tamper_value)
            j = c.get("_sweep_iid")
            if W is not None and j is not None and tamper_value is None:
                rec2 = per.get(j, {}).get("value", {}).get((), {}).get("rec")
                if rec2 is None:
                    raise TLCFailure(f"no value record for the discount-sweep sibling of case {i}")
                if mutate_records is None:
                    crosscheck_value(j, c["sweep_m"], rec2)
                judge_value(ctx, j, c, rec2, world=W)
        if "hist" in got and only in (None, "hist"):
            for h, r in got["hist"].items():
                nx += 1
                if nx % xcheck_every == 0 and mutate_records is None:
                    crosscheck_hist(i, c["m"], r)
                    ctx.count("oracle_crosschecks_hist")
            judge_hist(ctx, i, c, got["hist"], tamper=tamper_hist)
    return res


def judge_tiny_cases(ctx, cases, *, tamper_hist=None, eps_values=None, only_eps=None):
    """Pipeline A for the tiny-probability family: TLC explores C09_Tiny symbolically (polynomials in e); the real
    controller is replayed once per concrete e."""
    batch = [c["m"] for c in cases]
    res = run_tlc(ctx.workdir / "tiny", "C09_Tiny", CFG_TINY, files={"batch.json": batch},
                  env={"BATCH_FILE": "batch.json"}, coverage=(ctx.tier == "thorough"))
    ctx.add_tlc(res, "mc: controller-object machine on symbolic tiny probabilities (polynomials in e), every history")
    bad = [v for v in res.violated if v in TINY_INVS]
    if bad:
        raise TLCFailure(f"design-level invariant violated in C09_Tiny: {sorted(set(bad))}\n"
                         + (res.traces[0][:3000] if res.traces else ""))
    per = {}
    for r in res.records:
        per.setdefault(r["iid"], {})[hkey(r)] = r
    nx = 0
    for i, c in enumerate(cases, start=1):
        recs = per.get(i)
        if not recs:
            raise TLCFailure(f"no tiny records for case {i}")
        for r in recs.values():
            nx += 1
            if nx % 5 == 0:
                crosscheck_tiny(i, c["m"], r, EPS_VALUES[nx % len(EPS_VALUES)])
                ctx.count("oracle_crosschecks_tiny")
        for eps in (eps_values or EPS_VALUES):
            if only_eps is not None and str(eps) != only_eps:
                continue
            judge_hist(ctx, i, c, recs, tamper=tamper_hist, eps=eps)
    return res


# ==============================================================================================================
# pipeline B: run_on episodes
# ==============================================================================================================
def quant_dist(x, scale):
    v = to_np(x).reshape(-1)
    tot = float(v.sum())
    if not np.all(np.isfinite(v)) or not tot > 0:
        return [LIM // 4] * len(v)
    return [int(round(float(y) / tot * scale)) for y in v]


def run_steps_cap(m, want):
    cap = want
    while cap > 0 and m["ND"] * (m["QD"] * m["ED"]) ** (cap + 1) * SA * 2 >= LIM:
        cap -= 1
    return cap


def record_episodes(ctx, cases, rng, per_case, tamper=None, fixed=None):
    """Returns (data for C09_Run, meta list aligned with eps)."""
    from msdm.core.pomdp.finitestatecontroller import StochasticFiniteStateController as SFSC
    insts, eps, meta = [], [], []
    for case in cases:
        m, rep = case["m"], case["rep"]
        W = World(case)
        if not W.ok or W.matrices() is not None:
            ctx.skip("run_on: POMDP arrays not available for this representation")
            continue
        A, E, I = W.controller_arrays()
        try:
            c = SFSC(W.p, as_kind(A, rep["arr"]), as_kind(E, rep["arr"]), as_kind(I, rep["arr"]))
        except Exception:                                            # noqa: BLE001
            continue
        B = W.B
        insts.append(m)
        iid = len(insts)
        for j in range(per_case):
            if fixed is not None:        # --replay: the stored configuration (same seed -> same episode on unchanged code)
                ms, given, s0, seed = fixed["maxsteps"], bool(fixed["given"]), fixed["s0"], fixed["seed"]
            else:
                ms = run_steps_cap(m, rng.choice([0, 1, 2, 3, 4, 6, 6]))
                given = rng.random() < 0.6
                seed = rng.randrange(2 ** 30)
                s0 = None
                if given:
                    cands = W.listed if rng.random() < 0.3 else [s for s in W.listed if m["p0"][s] > 0]
                    s0 = rng.choice(cands)
            # run_on(..., initial_agentstate=w): "running the controller from a (node, state) pair" / from any node
            # distribution; agw = integer node weights (None: the controller's own initial distribution)
            if fixed is not None:
                agw = fixed.get("agw")
            elif rng.random() < 0.45:
                agw = [0] * m["NN"]
                agw[rng.randrange(m["NN"])] = 1
                if m["NN"] >= 2 and rng.random() < 0.3:
                    agw[rng.randrange(m["NN"])] += rng.choice([1, 3])
            else:
                agw = None
            if agw is not None and sum(agw) * (m["QD"] * m["ED"]) ** (ms + 1) * SA * 2 >= LIM:
                agw = None
            cfg = {"maxsteps": ms, "given": int(given), "s0": s0, "seed": seed, "agw": agw}
            ctx.evaluations += 1
            random.seed(seed)        # run_on draws the initial state from the global generator when none is given
            try:
                kw = {}
                if agw is not None:
                    kw["initial_agentstate"] = as_kind(np.array(agw, dtype=float) / sum(agw), rep["arr"])
                traj = c.run_on(W.p, initial_state=None if s0 is None else B.slabel[s0], max_steps=ms,
                                rng=random.Random(seed), **kw)
                if tamper is not None:
                    traj = tamper(traj)
                steps = []
                for st in traj[:-1]:
                    r = float(st.reward)
                    ad = c.action_dist(st.agentstate)        # the distribution the action of this step was drawn from
                    adq = [min(max(int(round(float(ad.prob(B.alabel[a])) * SA)), -LIM // 8), LIM // 8) for a in range(m["K"])]
                    steps.append({"adq": adq, "s": B.sidx(st.state) + 1, "a": B.aidx(st.action) + 1, "ns": B.sidx(st.nextstate) + 1,
                                  "o": B.oidx(st.observation) + 1,
                                  "rq": int(round(r * SR)) if math.isfinite(r) and abs(r) < 1e5 else LIM // 4,
                                  "agq": quant_dist(st.agentstate, SA), "nagq": quant_dist(st.nextagentstate, SA)})
                last = traj[-1]
                if last.action is not None:
                    raise ValueError("closing record carries an action")
                ep = {"iid": iid, "agw": agw or [], "s0": B.sidx(traj[0].state) + 1, "given": int(given), "maxsteps": ms,
                      "ag0": quant_dist(traj[0].agentstate, SA), "steps": steps,
                      "last": {"s": B.sidx(last.state) + 1, "agq": quant_dist(last.agentstate, SA)}}
                if given and ep["s0"] != s0 + 1:
                    raise ValueError("episode does not start in the initial state that was passed")
            except Exception as e:                                   # noqa: BLE001
                ctx.violation(f"C09:POMDPPolicy.run_on:raised-{type(e).__name__}",
                              f"run_on raised / returned an unreadable trajectory: {e!r}"[:500],
                              {"kind": "run", "case": case, "cfg": cfg})
                continue
            eps.append(ep)
            meta.append({"case": case, "cfg": cfg, "len": len(steps)})
    return {"insts": insts, "eps": eps}, meta


def judge_run(ctx, cases, rng, per_case, tamper=None, mutate_data=None, fixed=None):
    data, meta = record_episodes(ctx, cases, rng, per_case, tamper=tamper, fixed=fixed)
    if mutate_data is not None:
        mutate_data(data)
    if not data["eps"]:
        return
    res = run_tlc(ctx.workdir / "run", "C09_Run", CFG_RUN, files={"eps.json": data}, env={"BATCH_FILE": "eps.json"},
                  coverage=(ctx.tier == "thorough"))
    ctx.add_tlc(res, "trace validation: episodes recorded from POMDPPolicy.run_on with a StochasticFiniteStateController")
    if any(v in ("PosteriorWellDefined", "InstancesWellFormed") for v in res.violated):
        raise TLCFailure("design-level invariant violated in C09_Run\n" + (res.traces[0][:2000] if res.traces else ""))
    verdict = {r["tid"]: r for r in res.records}
    if len(verdict) != len(data["eps"]):
        raise TLCFailure(f"C09_Run: {len(verdict)} verdicts for {len(data['eps'])} episodes")
    anybad = any(v["bad"] for v in verdict.values())
    if anybad != ("EpisodeAccepted" in res.violated):
        raise TLCFailure("C09_Run: invariant EpisodeAccepted and the printed verdicts disagree")
    for i, (ep, mt) in enumerate(zip(data["eps"], meta), start=1):
        v = verdict[i]
        case = mt["case"]
        if v["bad"]:
            sig = f"C09:POMDPPolicy.run_on:{v['bad']}"
            what = (f"episode rejected by C09_Run at conjunct {v['bad']} (history "
                    f"{[(s['a'] - 1, s['o'] - 1) for s in ep['steps']]}): {ep}")
            ctx.violation(sig, what[:700], {"kind": "run", "case": case, "cfg": mt["cfg"], "episode": ep})
            continue
        if v["agv"] != "ok":
            # the agent states logged along the episode are not the node posteriors given the history so far
            ctx.violation("C09:StochasticFiniteStateController.next_agentstate:node-posterior",
                          (f"run_on: an agent state logged along the episode is not the distribution over nodes given the "
                           f"history so far (C09_Run classification: {v['agv']}): {ep}")[:700],
                          {"kind": "run", "case": case, "cfg": mt["cfg"], "episode": ep})
            continue
        ctx.validated += 1
        if mt["len"] >= 2 or (mt["len"] >= 1 and case["m"]["abs"][ep["last"]["s"] - 1]):
            ctx.nontrivial(digest([digest(case["m"]), "run", mt["cfg"]]))
        if mt["len"] >= 2:
            ctx.sample({"pipeline": "B/run", "episode": ep, "cfg": mt["cfg"]}, limit=4)


# ==============================================================================================================
# pipeline B: learners
# ==============================================================================================================
def q(x, scale=SV):
    x = float(x)
    if not math.isfinite(x) or abs(x) * scale >= LIM // 2:
        return LIM // 2
    return int(round(x * scale))


def learner_configs(rng, n, tier):
    out = []
    for i in range(n):
        if i % 3 != 2:
            kind = "bpi"
            its = rng.choice([0, 1, 2, 3, 4, 6] if tier == "quick" else [0, 1, 2, 3, 6, 10, 15])
            fn = "cvxpy" if i % 30 == 4 else "scipy"
        else:
            kind = "ga"
            its = rng.choice([0, 1, 3, 10, 25] if tier == "quick" else [0, 1, 5, 30, 100, 200])
            fn = None
        out.append({"kind": kind, "iterations": its, "size": rng.choice([1, 2, 2, 3]),
                    "seed": rng.choice([0, 1, 7, 42, rng.randrange(1, 10 ** 6), rng.randrange(1, 10 ** 6)]),
                    "lr": rng.choice([0.1, 0.1, 0.5]), "fn": fn})
    return out


def make_learner_case(rng, ghost_p=0.2):
    n_na = rng.choice([1, 2, 2, 2, 3])
    n_abs = rng.choice([0, 1, 1, 2])
    if n_na + n_abs < 2:
        n_na = 2
    ghost = rng.random() < ghost_p
    GN, GD = rng.choice([(1, 2), (3, 4), (9, 10)])
    m = pb.rand_pomdp(rng, n_na=n_na, n_abs=n_abs, K=rng.choice([1, 2, 2, 2, 3, 3]), NO=rng.choice([1, 2, 2, 2, 3]),
                      PD=rng.choice([2, 4]), OD=rng.choice([2, 4]), GN=GN, GD=GD, ghost=ghost, ID=rng.choice([2, 4]),
                      obs_kind=rng.choice(["random"] * 6 + ["single", "identity"]), init_on_abs=0.15)
    if m["K"] >= 2 and rng.random() < 0.35:
        # the same action under two names (identical dynamics, rewards and observations): exact ties between actions
        # wherever the learners compare one-step look-ahead values
        j, k = rng.sample(range(m["K"]), 2)
        for s_ in range(m["N"]):
            m["P"][s_][k] = list(m["P"][s_][j])
            m["R"][s_][k] = list(m["R"][s_][j])
        m["O"][k] = [list(r) for r in m["O"][j]]
    rep = dict(labels=rng.choice(SLABELS), alabels=rng.choice(SLABELS), olabels=rng.choice(OLABELS),
               explicit_list=True if not gen.ghost_closed(m) else rng.random() < 0.5,
               dist=rng.choice(DISTS), odist=rng.choice(DISTS), arr="numpy", eta3=False, with_init=True,
               absrep=rng.choice(ABSREPS), declare_lists=rng.random() < 0.3)
    m.update(NN=1, QD=1, psi=[[1] + [0] * (m["K"] - 1)], ED=1, eta=[[[[1]] * m["NO"]] * m["K"]], ND=1, iota=[1],
             D=1, full=0, open=0, machs=[])
    listed = pb.listed_states(m, rep["explicit_list"])
    m["lst"] = [1 if s in listed else 0 for s in range(m["N"])]
    return {"m": m, "rep": rep}


def cvxpy_has_shipped_solver():
    try:
        import cvxpy
        return "ECOS" in cvxpy.installed_solvers()
    except Exception:                                                # noqa: BLE001
        return False


def run_learner(ctx, case, cfg, tamper=None):
    """Run one learner; returns (trace record for C09_Learn, info) or None if it raised (reported)."""
    import torch
    torch.set_num_threads(1)         # tiny tensors: thread fan-out only costs time on a shared machine
    from msdm.algorithms import fscboundedpolicyiteration as bpi
    from msdm.algorithms.fscgradientascent import FSCGradientAscent
    m = case["m"]
    W = World(case)
    if not W.ok or W.matrices() is not None:
        ctx.skip("learner: POMDP arrays not available for this representation")
        return None
    name = "FSCBoundedPolicyIteration" if cfg["kind"] == "bpi" else "FSCGradientAscent"
    tabs = []
    ctx.evaluations += 1
    try:
        if cfg["kind"] == "bpi":
            base = bpi.improve_node_cvxpy if cfg["fn"] == "cvxpy" else bpi.improve_node_matrix_constraint
            kw = {}
            if cfg["fn"] == "cvxpy" and not cvxpy_has_shipped_solver():
                # improve_node_cvxpy is configured for the solver ECOS; with a substitute interior-point solver the
                # action probabilities it divides by are only zero up to that solver's tolerance, and msdm's own
                # allclose assertions / the rows then reflect the substitute, not msdm (false alarm corrected
                # 2026-10-03: CLARABEL run, entries of -5e-7 and an AssertionError inside improve_node_cvxpy)
                ctx.skip("improve_node_cvxpy: the solver it is configured for (ECOS) is not installed")
                ctx.evaluations -= 1
                return None

            def improve(pomdp, V, node):
                if node == 0:
                    tabs.append(np.array(V, dtype=float))
                return base(pomdp, V, node, **kw)
            np.random.seed(cfg["seed"] + 54321)         # seed=0 falls back to numpy's global generator (C13's clause)
            res = bpi.FSCBoundedPolicyIteration(controller_state_count=cfg["size"], iterations=cfg["iterations"],
                                                seed=cfg["seed"], improve_node_fn=improve).train_on(W.p)
            rep_value = float(res.value)
            rtab = to_np(res.state_controller_value)
        else:
            torch.manual_seed(cfg["seed"] + 12345)      # seed=0 falls back to torch's global generator (C13's clause)
            res = FSCGradientAscent(controller_state_count=cfg["size"], iterations=cfg["iterations"],
                                    learning_rate=cfg["lr"], seed=cfg["seed"]).train_on(W.p)
            rep_value = float(to_np(res.value.expected_value))
            rtab = to_np(res.value.state_controller_value)
        pol = res.policy
        A, E, I = to_np(pol.action_strategy), to_np(pol.observation_strategy), to_np(pol.initial_state_dist)
    except Exception as e:                                           # noqa: BLE001
        # the call site that gave up: innermost frame inside msdm (e.g. improve_node_matrix_constraint's own assertion
        # on the rows it obtained by dividing the LP solution)
        import traceback
        frames = [f for f in traceback.extract_tb(e.__traceback__) if "/msdm/" in f.filename]
        where = f"{frames[-1].name}" if frames else "unknown"
        line = (frames[-1].line or "")[:120] if frames else ""
        ctx.violation(f"C09:{name}.train_on:raised-{type(e).__name__}:{where}",
                      f"{name}({cfg}).train_on raised {e!r} in {where} ({line}) instead of returning a controller"[:600],
                      {"kind": "learn", "case": case, "cfg": cfg})
        return None
    if tamper is not None:
        A, E, I, rep_value, rtab, tabs = tamper(A, E, I, rep_value, rtab, tabs)
    NN = A.shape[0]
    nA, nO = len(W.al), len(W.ol)
    if A.shape != (NN, nA) or E.shape != (NN, nA, nO, NN) or I.shape != (NN,) or rtab.shape != (NN, len(W.sl)):
        ctx.violation(f"C09:{name}.train_on:controller-shape",
                      f"returned controller has shapes {A.shape}, {E.shape}, {I.shape}, table {rtab.shape}",
                      {"kind": "learn", "case": case, "cfg": cfg})
        return None
    rows = [[q(x) for x in A[n]] for n in range(NN)]
    rows += [[q(x) for x in E[n, a, o]] for n in range(NN) for a in range(nA) for o in range(nO)]
    rows += [[q(x) for x in I]]
    finite = all(np.all(np.isfinite(z)) for z in (A, E, I))
    Aabs, Eabs = abstract_controller(W, np.nan_to_num(A), np.nan_to_num(E))
    vals = {}
    for cut in (True, False):
        try:
            vals[cut] = np_value(m, W.listed, Aabs, Eabs, cut) if finite else None
        except np.linalg.LinAlgError:
            vals[cut] = None
    p0 = [m["p0"][s] / m["ID"] for s in W.listed]

    def at_init(tab):
        if tab is None:
            return float("nan")
        return float(sum(I[n] * sum(p0[j] * tab[(n, s)] for j, s in enumerate(W.listed)) for n in range(NN)))

    def table(tab):
        if tab is None:
            return [[LIM // 2] * len(W.listed) for _ in range(NN)]
        return [[q(tab[(n, s)]) for s in W.listed] for n in range(NN)]

    def proj(t):
        return [[q(t[n, W.col[s]]) for s in W.listed] for n in range(t.shape[0])]
    run = {"kind": cfg["kind"], "S": SV, "teq": TEQ, "tmono": TMONO, "trow": TROW, "rows": rows,
           "rep": q(rep_value), "cut": q(at_init(vals[True])), "uncut": q(at_init(vals[False])),
           "rtab": proj(rtab), "ctab": table(vals[True]), "utab": table(vals[False]),
           "tabs": ([proj(t) for t in tabs] + [proj(rtab)]) if cfg["kind"] == "bpi" else []}
    info = {"nodes": NN, "tabs": len(tabs), "improved": len(tabs) >= 1 and not np.allclose(tabs[0], rtab[:tabs[0].shape[0]]),
            "grew": NN > cfg["size"], "rep_value": rep_value, "cut_value": at_init(vals[True])}
    return run, info


def judge_learners(ctx, jobs, tamper=None, mutate_data=None):
    runs, meta = [], []
    for case, cfg in jobs:
        out = run_learner(ctx, case, cfg, tamper=tamper)
        if out is None:
            continue
        runs.append(out[0])
        meta.append((case, cfg, out[1]))
    if mutate_data is not None:
        mutate_data(runs)
    if not runs:
        return
    res = run_tlc(ctx.workdir / "learn", "C09_Learn", CFG_LEARN, files={"runs.json": runs},
                  env={"BATCH_FILE": "runs.json"}, coverage=(ctx.tier == "thorough"))
    ctx.add_tlc(res, "trace validation: one trace per learner run (rows, reported value, per-iteration value tables)")
    if "WalkEndsAtReportedTable" in res.violated:
        raise TLCFailure("design-level invariant violated in C09_Learn")
    verdict = {r["tid"]: r for r in res.records}
    if len(verdict) != len(runs):
        raise TLCFailure(f"C09_Learn: {len(verdict)} verdicts for {len(runs)} runs")
    mono_bad = any(v["bad"] == "value-lowered-between-iterations" for v in verdict.values())
    if ("Monotone" in res.violated) and not any(v["bad"] for v in verdict.values()):
        raise TLCFailure("C09_Learn: action property Monotone violated but every printed verdict is clean")
    if mono_bad and "Monotone" not in res.violated:
        raise TLCFailure("C09_Learn: a verdict says the value was lowered but the action property Monotone held")
    for i, (run, (case, cfg, info)) in enumerate(zip(runs, meta), start=1):
        v = verdict[i]
        name = "FSCBoundedPolicyIteration" if cfg["kind"] == "bpi" else "FSCGradientAscent"
        if v["bad"]:
            what = {
                "row-is-not-a-distribution": "a row of the returned controller is not a probability distribution",
                "reported-value": f"reported value {info['rep_value']!r} but the returned controller is worth {info['cut_value']!r} at the initial distribution",
                "reported-value:absorbing-states-not-cut": f"reported value {info['rep_value']!r}; the returned controller is worth {info['cut_value']!r} "
                                                           f"when episodes end at absorbing states (the reported number is the value of the chain that continues through them)",
                "reported-table": "reported state_controller_value differs from the evaluation of the returned controller",
                "reported-table:absorbing-states-not-cut": "reported state_controller_value is the value of the chain that continues through absorbing states",
                "value-lowered-between-iterations": "bounded policy iteration lowered the value of a node at a state between two iterations",
            }.get(v["bad"], v["bad"])
            if v["bad"].endswith(":absorbing-states-not-cut"):
                # the learner reports what the evaluator computes: same call site, same input shape as pipeline A/value
                sig = "C09:stochastic_fsc_policy_evaluation_exact:absorbing-states-not-cut"
            else:
                sig = f"C09:{name}.train_on:{v['bad']}"
            ctx.violation(sig, f"{name}({cfg}): {what}"[:700],
                          {"kind": "learn", "case": case, "cfg": cfg, "trace": run})
            continue
        ctx.validated += 1
        if (cfg["kind"] == "bpi" and info["improved"]) or (cfg["kind"] == "ga" and cfg["iterations"] >= 1 and info["nodes"] >= 2):
            ctx.nontrivial(digest([digest(case["m"]), "learn", cfg]))
        ctx.count(f"learner_runs_{cfg['kind']}")
        if info["grew"]:
            ctx.count("bpi_runs_that_added_a_node")
        if info["improved"]:
            ctx.count("bpi_runs_with_an_improving_iteration")
            ctx.sample({"pipeline": "B/learn", "cfg": cfg, "tables": run["tabs"][:3], "reported": run["rep"], "reevaluated": run["cut"],
                        "scale": SV}, limit=5)


# ==============================================================================================================
# entry points
# ==============================================================================================================
def run(ctx):
    rng = random.Random(ctx.seed * 104729 + 9)
    quick = ctx.tier == "quick"
    ctx.rule = ("random tabular POMDPs (2-4 states incl. 0-2 explicitly absorbing ones with or without outgoing 'ghost' dynamics, "
                "1-3 actions, 1-3 observations, denominators 1-4, discount in {1/3,1/2,3/4,9/10}) x random stochastic controllers "
                "(1-3 nodes, row-stochastic strategies with zero entries, action-dependent or -independent node strategies, "
                "non-degenerate initial node distributions) x label kinds x distribution kinds x tensor kinds; plus a tiny-probability "
                "family (2-3 nodes, action rows / initial node weights with entries t*e/QD, t in {1,2,4}, e symbolic in TLC and "
                "1e-5, 1e-9, 1e-12 in the replay). non-trivial = "
                "(hist) a history of length >= 1 after which the node posterior has >= 2 supported nodes or differs from the "
                "unconditioned update; (tiny) a history whose controller-side probability is < 1e-4 and after which >= 2 nodes "
                "have positive posterior weight; (value) >= 2 unknowns and >= 2 distinct exact values; (run) an episode with >= 2 steps or one "
                "that ends in an absorbing state; (learn) a bounded-policy-iteration run with an improving iteration or a "
                "gradient run with >= 1 iteration and >= 2 nodes; keyed by (instance, pipeline, history / configuration)")
    ctx.assumptions = [
        "TLC evaluates the TLA+ oracles correctly (every value table and every 7th emitted history state are recomputed by an "
        "independent Fraction implementation: Gaussian elimination / brute force over hidden paths)",
        "absorbing = is_absorbing(s) (the rule POMDPPolicy.run_on applies); zero-reward self-loop states are ordinary states worth 0",
        "evaluator outputs are compared at 1e-9 relative; conditional action distributions and agent states (normalised node "
        "posteriors) at every history node at 1e-9 relative per entry, exact zeros as zeros (derivations in the driver)",
        "tiny probabilities are multiples of a symbolic e in TLC (identities in e); the harness evaluates the emitted polynomials "
        "exactly at e = 1e-5, 1e-9, 1e-12",
        "exact values are computed for controllers x POMDPs whose Cramer determinants fit 30-bit integers (<= 6 unknowns, mostly <= 4); "
        "others are skipped and counted",
        "label kinds include labels that are falsy in Python (states / actions 0, '', (), frozendict(); observations None, '', (), 0)",
        "rows of a learnt controller are 'numerically a distribution' inside the window of msdm's own evaluator (1e-5 on sums and on "
        "negative entries); improve_node_cvxpy is exercised only when the solver it is configured for (ECOS) is installed",
        "learner traces are quantised at 2^-20; the independent float evaluator used for them is validated against the TLA+ oracle on every value case",
        "bounded policy iteration's per-iteration tables are observed through the public improve_node_fn parameter (table at the start of each iteration)",
        "gradient ascent's optimiser trajectory is not judged (only its outputs)",
    ]
    n_hist, n_value = (160, 300) if quick else (500, 1500)
    cases = make_cases(rng, n_hist, ctx.tier, "hist", ctx) + make_cases(rng, n_value, ctx.tier, "value", ctx)
    chunk = 200 if quick else 250
    for k in range(0, len(cases), chunk):
        judge_fsc_cases(ctx, cases[k:k + chunk])
    judge_near_cases(ctx, [make_near_case(rng) for _ in range(60 if quick else 250)])
    tiny = make_tiny_cases(rng, 60 if quick else 250, ctx.tier)
    for k in range(0, len(tiny), 125):
        judge_tiny_cases(ctx, tiny[k:k + 125])
    hist_cases = [c for c in cases if "hist" in c["m"]["machs"]]
    judge_run(ctx, hist_cases[: (160 if quick else 500)], rng, per_case=4 if quick else 8)
    n_learn = 300 if quick else 1800
    cfgs = learner_configs(rng, n_learn, ctx.tier)
    jobs = [(make_learner_case(rng), cfg) for cfg in cfgs]
    step = 250
    for k in range(0, len(jobs), step):
        judge_learners(ctx, jobs[k:k + step])


def replay(ctx, case):
    kind = case["kind"]
    c = case["case"]
    if kind == "value" and "near" in c:
        m0 = dict(c["m"], GN=1, GD=2, machs=["near"])
        judge_near_cases(ctx, [{"m": m0, "rep": c["rep"]}], only_delta=c["near"])
    elif kind in ("hist", "value"):
        judge_fsc_cases(ctx, [c], xcheck_every=1, only=kind)
    elif kind == "tiny":
        judge_tiny_cases(ctx, [c], only_eps=(case.get("detail") or {}).get("eps"))
    elif kind == "run":
        judge_run(ctx, [c], None, per_case=1, fixed=case["cfg"])
    elif kind == "learn":
        judge_learners(ctx, [(c, case["cfg"])])
    else:
        raise TLCFailure(f"unknown replay kind {kind}")


def selftest(ctx):
    """Binding demonstration: corrupt what the real code returns / what TLC expects / drop an event; each must be reported."""
    rng = random.Random(5)
    ok = True
    cases = make_cases(rng, 10, "quick", "hist") + make_cases(rng, 14, "quick", "value")
    clean = [c for c in cases if not c["m"]["ghost"] and not c["m"]["open"]]

    # (1) value returned by the evaluator corrupted by 1e-6 at one entry
    def tv(V):
        V = np.array(V)
        V[0, 0] += 1e-6 * max(1.0, abs(V[0, 0]))
        return V
    before = len(ctx.violations)
    judge_fsc_cases(ctx, [c for c in clean if "value" in c["m"]["machs"]][:6], tamper_value=tv)
    ok &= any(v[0].endswith(("node-state-value", "absorbing-state-value")) for v in ctx.violations[before:])

    # (2) the controller object handed to the replay has its action columns reversed (instance field corrupted)
    before = len(ctx.violations)

    def th(ctrl):
        a = to_np(ctrl.action_strategy).copy()
        if a.shape[1] >= 2:
            a = a[:, ::-1].copy()
        ctrl.action_strategy = as_kind(a, "numpy") if isinstance(ctrl.action_strategy, np.ndarray) else as_kind(a, "torch")
        return ctrl
    hc = [c for c in cases if "hist" in c["m"]["machs"] and c["m"]["K"] >= 2
          and any(r != r[::-1] for r in c["m"]["psi"])][:4]
    judge_fsc_cases(ctx, hc, tamper_hist=th)
    ok &= any("action_dist:conditional-action-probability" in v[0] for v in ctx.violations[before:])

    # (3) one expected value emitted by TLC swapped
    def mutate(per):
        for got in per.values():
            if "value" in got:
                r = got["value"][()]["rec"]
                r["v"][0][0] = [r["v"][0][0][0] + r["v"][0][0][1], r["v"][0][0][1]]
                return
    before = len(ctx.violations)
    judge_fsc_cases(ctx, [c for c in clean if "value" in c["m"]["machs"]][:3], mutate_records=mutate)
    ok &= any(v[0].endswith(("node-state-value", "absorbing-state-value")) for v in ctx.violations[before:])

    # (4) run_on: drop one event from a recorded episode / continue after an absorbing state
    def drop(data):
        for ep in data["eps"]:
            if len(ep["steps"]) >= 2:
                del ep["steps"][0]
                return
    before = len(ctx.violations)
    judge_run(ctx, [c for c in cases if "hist" in c["m"]["machs"]][:8], random.Random(3), per_case=4, mutate_data=drop)
    ok &= any("POMDPPolicy.run_on:" in v[0] for v in ctx.violations[before:])

    # (5) learners: reported value corrupted / one per-iteration table lowered
    def tl(A, E, I, rep_value, rtab, tabs):
        return A, E, I, rep_value + 1e-4, rtab, tabs
    before = len(ctx.violations)
    lr = random.Random(8)
    jobs = [(make_learner_case(lr), cfg) for cfg in learner_configs(lr, 6, "quick")]
    jobs = [(c, g) for c, g in jobs if not c["m"]["ghost"]]
    judge_learners(ctx, jobs, tamper=tl)
    ok &= any(v[0].endswith("train_on:reported-value") for v in ctx.violations[before:])

    def lower(runs):
        for r in runs:
            if r["kind"] == "bpi" and len(r["tabs"]) >= 2:
                r["tabs"][-1] = [[x - 100 for x in row] for row in r["tabs"][-1]]
                r["rtab"] = r["tabs"][-1]
                r["ctab"] = r["tabs"][-1]
                return
    before = len(ctx.violations)
    judge_learners(ctx, jobs, mutate_data=lower)
    ok &= any("value-lowered" in v[0] for v in ctx.violations[before:])

    # (6) model level: the update that does not condition on the action taken is NOT the controller's semantics
    #     (TLC must find a history on which it differs from the node posterior)
    demo = [c for c in cases if "hist" in c["m"]["machs"] and c["m"]["NN"] >= 2][:6]
    batch = []
    for c in demo:
        mm = dict(c["m"])
        mm["machs"] = ["hist"]
        batch.append(mm)
    res = run_tlc(ctx.workdir / "demo", "C09_FSC", CFG_FSC + "INVARIANT NaiveAgrees\n", files={"batch.json": batch},
                  env={"BATCH_FILE": "batch.json"})
    ctx.add_tlc(res, "model-level demonstration: invariant NaiveAgrees (unconditioned update = node posterior) must fail")
    ok &= "NaiveAgrees" in res.violated and not any(v in FSC_INVS for v in res.violated)
    return bool(ok)
