"""C14 - policy roll-outs are valid trajectories and Monte-Carlo evaluation averages them.

Spec: spec/C14_Rollout.tla.  Three uses of TLC:

MC   every roll-out of small MDP / POMDP x policy x cap x start cases is explored; the design
     invariants (stop exactly at the first absorbing state or the cap, every step valid, returns by
     backward recursion == direct sum, deterministic case == truncated exact evaluation) are checked in
     every state; every complete behaviour and the truncated-value oracle are printed.
A    each printed behaviour is replayed through the real `run_on` with *scripted* sampling (the
     distributions handed to the real loop return the outcomes TLC chose); the trajectory the real
     code returns must be that behaviour.
B    roll-outs of the real code with real generators (functional / tabular MDP policies, stochastic
     finite-state controllers, functional controllers, value-based belief policies, alpha-vector
     policies; given and sampled starts; caps from 0), the roll-outs made inside `evaluate_on`
     (recorded by a wrapping subclass) and the scripted replays of A are written as traces; TLC
     validates every event against the machine's actions, and computes the exact averages /
     returns the real code has to report.  Floats are compared with the exact rationals TLC printed.
"""
import math
import random
import time
import warnings
from fractions import Fraction as F

import numpy as np

from msdm.core.distributions import DictDistribution, DeterministicDistribution, UniformDistribution
from msdm.core.mdp.policy import Policy, FunctionalPolicy, SimulationResult
from msdm.core.mdp.tabularpolicy import TabularPolicy
from msdm.core.pomdp.policy import POMDPPolicy, ValueBasedTabularPOMDPPolicy
from msdm.core.pomdp.finitestatecontroller import StochasticFiniteStateController
from msdm.core.pomdp.alphavectorpolicy import AlphaVectorPolicy
from msdm.core.pomdp.tabularpomdp import Belief

from .. import gen
from .. import build as bd
from .. import pomdp_build as pb
from ..tlc import run_tlc, TLCFailure

MODULE = "C14_Rollout"
MC_INVS = ["StopsExactly", "NeverStuck", "ValidTrajectory", "BeliefTracksState", "ReturnsAgree",
           "DetReturnIsTruncated", "InstancesOK"]
CFG_MC = "INIT Init\nNEXT Next\nCHECK_DEADLOCK FALSE\nINVARIANT Emit\n" + "".join(f"INVARIANT {i}\n" for i in MC_INVS)
CFG_TRACE = "INIT Init\nNEXT Next\nCHECK_DEADLOCK FALSE\nINVARIANT Emit\nINVARIANT InstancesOK\n"

# One TLC worker.  Measured here: with several workers roughly one run in five of the *same* trace batch ended
# in an evaluation error raised inside TLC!TLCEval (reached through lazily evaluated LET / LAMBDA values) whose
# message TLC then formats for tens of minutes (MP.replaceString on a huge value); 20 of 20 single-worker runs of
# that batch were fine and no slower (the runs are dominated by reading the batch).  A run that still hangs
# becomes a machinery failure after TLC_TIMEOUT instead of blocking for tlc.py's default hour.
TLC_WORKERS = 1
# the long-horizon family folds recursive operators (RSumTo, TruncSeq, DetTraj) over 150-step roll-outs: give the
# JVM threads a deeper stack (run_tlc applies `env` after it has cleared an inherited JAVA_TOOL_OPTIONS)
TLC_JVM = {"JAVA_TOOL_OPTIONS": "-Xss64m"}
TLC_TIMEOUT = {"quick": 420, "thorough": 1500}

# DESIGN 5.1: direct algebraic results (means of <= a few hundred returns of <= 8 small rewards, one
# matrix-vector product of <= 9 terms): a few ulp each -> 1e-9 relative leaves 6 orders of magnitude
TOL = 1e-9
BAD = 999999            # logged for a reward that is not an integer / not a number
WMAX = 2 ** 20          # agent-state weights above this are "unprojectable" (never produced by the models)
MDP_KEYS = ("N", "K", "PD", "GN", "GD", "ID", "abs", "avail", "P", "R", "p0")

LABELS = ["int", "str", "tuple", "frozendict", "mixed"]
MDP_REPS = ["quick", "subclass", "matrices"]
DISTS = ["dict", "dict_zeros", "det", "uniform"]
MDP_PREPS = ["fn-dict", "fn-zeros", "fn-kinds", "tabular", "to_tabular"]


# =============================================================================================
# instances
# =============================================================================================
def _weights(rng, avail_row, QD, det):
    """policy weights over the available actions summing to QD; zero entries allowed"""
    K = len(avail_row)
    av = [a for a in range(K) if avail_row[a]]
    w = [0] * K
    if det or QD == 1 or rng.random() < 0.3:
        w[rng.choice(av)] = QD
        return w
    row = gen.rand_row(rng, len(av), QD, sparse=0.2)
    for i, a in enumerate(av):
        w[a] = row[i]
    return w


def make_mdp_inst(rng, *, small, det=False):
    if small:
        n_na, n_abs, K = rng.choice([1, 2, 2, 3]), rng.choice([0, 1, 1, 2]), rng.choice([1, 2, 2])
        PD = rng.choice([2, 4])
    else:
        n_na, n_abs, K = rng.choice([2, 3, 4, 5]), rng.choice([0, 1, 1, 2]), rng.choice([1, 2, 3])
        PD = rng.choice([2, 3, 4])
    GN, GD = rng.choice([(1, 2), (3, 4), (1, 1), (1, 1), (9, 10)])
    if det:
        PD = 1
    m = gen.rand_mdp(rng, n_na=n_na, n_abs=n_abs, K=K, PD=PD, GN=GN, GD=GD, rewards=(-2, -1, 0, 1, 3),
                     ID=1 if det else rng.choice([2, 4]), multi_init=not det, init_on_abs=0.25, p_implicit=0.15)
    QD = 1 if det else rng.choice([1, 2, 4])
    m["W"] = [_weights(rng, m["avail"][s], QD, det) for s in range(m["N"])]
    m.update(kind="mdp", pk="tab", QD=QD)
    return m


def make_pomdp_inst(rng, pk, *, small):
    if small:
        n_na, n_abs, K, NO = rng.choice([1, 2, 2]), rng.choice([0, 1, 1]), rng.choice([1, 2]), rng.choice([1, 2, 2])
    else:
        n_na, n_abs, K, NO = rng.choice([2, 3, 3]), rng.choice([0, 1, 1, 2]), rng.choice([1, 2, 3]), rng.choice([1, 2, 3])
    if n_na + n_abs < 2:
        n_na = 2
    PD, OD = rng.choice([2, 4]), rng.choice([2, 4])
    GN, GD = rng.choice([(1, 2), (3, 4), (1, 1), (9, 10)])
    obs_kind = rng.choice(["random"] * 6 + ["single", "identity", "uninformative"])
    ghost = pk == "ctrl" and rng.random() < 0.5
    m = pb.rand_pomdp(rng, n_na=n_na, n_abs=n_abs, K=K, NO=NO, PD=PD, OD=OD, GN=GN, GD=GD,
                      rewards=(-2, -1, 0, 1, 3), ghost=ghost, ID=rng.choice([2, 4]), obs_kind=obs_kind,
                      init_on_abs=0.3)
    N, K, NO = m["N"], m["K"], m["NO"]
    m.update(kind="pomdp", pk=pk)
    if pk == "ctrl":
        sub = rng.choice(["sfsc", "sfsc", "fn"])
        NN = rng.choice([1, 2, 2, 3])
        CAD = rng.choice([1, 2, 4])
        CUD = 1 if sub == "fn" else rng.choice([1, 2, 2])
        m["CA"] = [gen.rand_row(rng, K, CAD, sparse=0.4) for _ in range(NN)]
        m["CU"] = [[[gen.rand_row(rng, NN, CUD, sparse=0.5) for _ in range(NO)] for _ in range(K)] for _ in range(NN)]
        if sub == "fn" or rng.random() < 0.5:
            ag0 = [0] * NN
            ag0[rng.randrange(NN)] = 1
        else:
            ag0 = gen.rand_row(rng, NN, 4, sparse=0.2)
        m.update(sub=sub, NN=NN, CAD=CAD, CUD=CUD, ag0=ag0)
    elif pk == "qb":
        m["QV"] = [[rng.choice([-2, -1, 0, 0, 1, 2]) for _ in range(K)] for _ in range(N)]
        m["sub"] = "qb"
    else:
        ND = rng.choice([1, 2, 3])
        m["AV"] = [[rng.choice([-2, -1, 0, 1, 2]) for _ in range(N)] for _ in range(ND)]
        m.update(ND=ND, sub="alpha")
    return m


def inst_is_det(m):
    if m["kind"] != "mdp" or sum(1 for x in m["p0"] if x > 0) != 1:
        return False
    for s in range(m["N"]):
        if m["abs"][s]:
            continue
        acts = [a for a in range(m["K"]) if m["W"][s][a] > 0]
        if len(acts) != 1 or sum(1 for x in m["P"][s][acts[0]] if x > 0) != 1:
            return False
    return True


def oracle_ok(m, cap):
    """denominators of the truncated-value oracle stay far inside 32 bits"""
    if m["kind"] != "mdp":
        return False
    per = m["GD"] * (1 if inst_is_det(m) else m["PD"] * m["QD"])
    return per ** max(cap, 1) * 3 * max(cap, 1) * 8 < 2 ** 28


def fits(m, n):
    """mirror of Fits in the spec: discounted returns of n steps fit TLC's integers"""
    return m["GN"] == m["GD"] or n <= (20 if m["GD"] <= 2 else 10 if m["GD"] <= 4 else 6)


def listed_of(m, explicit):
    return set(range(m["N"])) if explicit else gen.reach(m)


def rand_rep(rng, m, need_states=()):
    """a concrete representation of the instance; need_states must be in the state list"""
    explicit = rng.random() < 0.5
    if not explicit and (not gen.ghost_closed(m) or not set(need_states) <= gen.reach(m)):
        explicit = True
    if m["kind"] == "mdp":
        return dict(rep=rng.choice(MDP_REPS), labels=rng.choice(LABELS), alabels=rng.choice(LABELS),
                    explicit_list=explicit, dist=rng.choice(DISTS), prep=rng.choice(MDP_PREPS),
                    lseed=rng.randrange(10 ** 6))
    return dict(labels=rng.choice(LABELS), alabels=rng.choice(LABELS), olabels=rng.choice(LABELS),
                explicit_list=explicit, dist=rng.choice(DISTS), odist=rng.choice(DISTS),
                lseed=rng.randrange(10 ** 6))


# =============================================================================================
# building the msdm objects
# =============================================================================================
class FnController(POMDPPolicy):
    """a functional finite-memory policy: agent state = node label, deterministic node update"""

    def __init__(self, nodes, act, upd, n0):
        self.nodes, self.act, self.upd, self.n0 = nodes, act, upd, n0

    def initial_agentstate(self):
        return self.n0

    def action_dist(self, ag):
        return self.act[ag]

    def next_agentstate(self, ag, a, o):
        return self.upd[(ag, a, o)]


class QBeliefPolicy(ValueBasedTabularPOMDPPolicy):
    """value-based belief policy (the shape of msdm.algorithms.qmdp.QMDPPolicy, which needs torch to import)"""

    def __init__(self, pomdp, sa_values):
        super().__init__(pomdp)
        self.sa_values = sa_values

    def action_value(self, b, a):
        ss, probs = b
        return sum(self.sa_values[s][a] * p for s, p in zip(ss, probs))


class Problem:
    """an instance built in msdm: environment, real policy, projections to abstract indices"""

    def __init__(self, m, rep, tamper=None):
        self.m, self.rep = m, rep
        lrng = random.Random(rep["lseed"])
        mm = m
        if tamper and tamper.get("kind") == "instance":
            # binding self-test: msdm gets a different reward on one transition than the spec knows
            mm = dict(m)
            s, a, n = tamper["sa_n"]
            mm["R"] = [[list(x) for x in row] for row in m["R"]]
            mm["R"][s][a][n] += 1
        if m["kind"] == "mdp":
            b = bd.build_mdp(mm, rep=rep["rep"], labels=rep["labels"], alabels=rep["alabels"],
                             explicit_list=rep["explicit_list"], dist=rep["dist"], rng=lrng)
            self.env = b.mdp
            self.slabel, self.alabel, self.olabel = b.slabel, b.alabel, []
            self.listed = listed_of(m, rep["explicit_list"])
            self.policy = self._mdp_policy(rep["prep"])
        else:
            b = pb.build_pomdp(mm, labels=rep["labels"], alabels=rep["alabels"], olabels=rep["olabels"],
                               explicit_list=rep["explicit_list"], dist=rep["dist"], odist=rep["odist"], rng=lrng)
            self.env = b.pomdp
            self.slabel, self.alabel, self.olabel = b.slabel, b.alabel, b.olabel
            self.listed = b.listed
            self.policy = self._pomdp_policy()
        self._supp = {}

    # ------------------------------------------------------------------ policies
    def _adist(self, s_idx, style):
        m = self.m
        w = m["W"][s_idx]
        pairs = [(self.alabel[a], F(w[a], m["QD"])) for a in range(m["K"])]
        nz = [(e, p) for e, p in pairs if p > 0]
        if style == "zeros":
            return DictDistribution({e: float(p) for e, p in pairs})
        if style == "kinds":
            if len(nz) == 1:
                return DeterministicDistribution(nz[0][0])
            if len({p for _, p in nz}) == 1:
                return UniformDistribution([e for e, _ in nz])
        return DictDistribution({e: float(p) for e, p in nz})

    def _mdp_policy(self, prep):
        m = self.m
        sidx = {l: i for i, l in enumerate(self.slabel)}
        style = {"fn-dict": "dict", "fn-zeros": "zeros", "fn-kinds": "kinds"}.get(prep, "zeros")
        fn = FunctionalPolicy(lambda s: self._adist(sidx[s], style))
        if prep.startswith("fn-"):
            return fn
        sl, al = list(self.env.state_list), list(self.env.action_list)
        if prep == "to_tabular":       # (zero entries of never-available actions are not in the inferred action list)
            return FunctionalPolicy(lambda s: self._adist(sidx[s], "dict")).to_tabular(sl, al)
        data = np.array([[m["W"][sidx[s]][self.alabel.index(a)] / m["QD"] for a in al] for s in sl])
        return TabularPolicy.from_state_action_lists(state_list=sl, action_list=al, data=data)

    def _pomdp_policy(self):
        m, p = self.m, self.env
        K, NO = m["K"], m["NO"]
        if m["pk"] == "ctrl" and m["sub"] == "fn":
            nodes = [f"n{i}" for i in range(m["NN"])]
            act = {nodes[n]: DictDistribution({self.alabel[a]: m["CA"][n][a] / m["CAD"] for a in range(K)})
                   for n in range(m["NN"])}
            upd = {(nodes[n], self.alabel[a], self.olabel[o]): nodes[m["CU"][n][a][o].index(m["CUD"])]
                   for n in range(m["NN"]) for a in range(K) for o in range(NO)}
            self.nodes = nodes
            return FnController(nodes, act, upd, nodes[m["ag0"].index(max(m["ag0"]))])
        if m["pk"] == "ctrl":
            al, ol = list(p.action_list), list(p.observation_list)
            ai = [self.alabel.index(a) for a in al]
            oi = [self.olabel.index(o) for o in ol]
            A = np.array([[m["CA"][n][a] / m["CAD"] for a in ai] for n in range(m["NN"])])
            W = np.array([[[[m["CU"][n][a][o][n2] / m["CUD"] for n2 in range(m["NN"])] for o in oi] for a in ai]
                          for n in range(m["NN"])]).reshape(m["NN"], len(ai), len(oi), m["NN"])
            a0 = np.array([x / sum(m["ag0"]) for x in m["ag0"]])
            return StochasticFiniteStateController(p, A, W, a0)
        if m["pk"] == "qb":
            sav = {self.slabel[s]: {self.alabel[a]: float(m["QV"][s][a]) for a in range(K)} for s in range(m["N"])}
            return QBeliefPolicy(p, sav)
        sl = list(p.state_list)
        av = np.array([[float(m["AV"][d][self.slabel.index(s)]) for s in sl] for d in range(m["ND"])])
        return AlphaVectorPolicy(p, av)

    # ------------------------------------------------------------------ projections (label -> 1-based index, 0 unknown)
    def sidx(self, lab):
        try:
            return self.slabel.index(lab) + 1
        except ValueError:
            return 0

    def aidx(self, lab):
        try:
            return self.alabel.index(lab) + 1
        except ValueError:
            return 0

    def oidx(self, lab):
        try:
            return self.olabel.index(lab) + 1
        except ValueError:
            return 0

    def supp(self, key, dist):
        """abstract actions the real policy gives positive probability (its own action_dist)"""
        try:
            return self._supp[key]
        except (KeyError, TypeError):
            pass
        out = sorted({self.aidx(a) for a, p in dist.items() if p > 0})
        try:
            self._supp[key] = out
        except TypeError:
            pass
        return out

    def proj_ag(self, ag):
        """agent state -> reduced integer weight vector"""
        m = self.m
        if m["kind"] == "mdp":
            return []
        if m["pk"] == "ctrl" and m["sub"] == "fn":
            return [1 if self.nodes[n] == ag else 0 for n in range(m["NN"])]
        if m["pk"] == "ctrl":
            vals = [float(x) for x in np.asarray(ag).ravel()]
            if len(vals) != m["NN"]:
                return [0] * m["NN"]
        else:
            if not (isinstance(ag, tuple) and len(ag) == 2 and len(ag[0]) == len(ag[1])):
                return [0] * m["N"]
            vals = [0.0] * m["N"]
            for lab, pr in zip(ag[0], ag[1]):
                i = self.sidx(lab)
                if i == 0:
                    return [0] * m["N"]
                vals[i - 1] += float(pr)
        return int_weights(vals)

    def fresh_policy(self):
        """a new policy object with the same parameters and no call history (reference for the policy's own
        action_dist / next_agentstate: a policy is a function of the agent state, not of what it was asked before)"""
        return self._mdp_policy(self.rep["prep"]) if self.m["kind"] == "mdp" else self._pomdp_policy()

    def make_ag(self, w, order=None):
        """abstract weights -> a concrete agent state of this policy (order: the state order of a Belief)"""
        m = self.m
        tot = sum(w)
        if m["pk"] == "ctrl" and m["sub"] == "fn":
            return self.nodes[w.index(max(w))]
        if m["pk"] == "ctrl":
            return np.array([x / tot for x in w])
        sl = tuple(self.env.state_list) if not order else tuple(self.slabel[i] for i in order)
        return Belief(sl, tuple(w[self.slabel.index(s)] / tot for s in sl))


def int_weights(vals):
    if any((not math.isfinite(v)) or v < -1e-12 for v in vals):
        return [0] * len(vals)
    fr = [F(max(v, 0.0)).limit_denominator(2 ** 21) for v in vals]
    den = 1
    for x in fr:
        den = den * x.denominator // math.gcd(den, x.denominator)
    w = [int(x * den) for x in fr]
    g = 0
    for x in w:
        g = math.gcd(g, x)
    if g == 0 or max(w) // g > WMAX:
        return [0] * len(vals)
    return [x // g for x in w]


def int_reward(r):
    try:
        r = float(r)
    except (TypeError, ValueError):
        return BAD
    if not math.isfinite(r) or r != int(r) or abs(r) > 10 ** 5:
        return BAD
    return int(r)


# =============================================================================================
# scripted sampling (pipeline A)
# =============================================================================================
class Script:
    def __init__(self, items):
        self.items, self.pos, self.diverged, self.calls = list(items), 0, [], 0


class Scripted:
    """stands for a distribution of the model; `sample` returns the outcome the TLC behaviour chose"""

    def __init__(self, real, kind, script, to_idx):
        self.real, self.kind, self.script, self.to_idx = real, kind, script, to_idx

    def sample(self, *, rng=random, k=1):
        sc = self.script
        sc.calls += 1
        if sc.pos < len(sc.items) and sc.items[sc.pos][0] == self.kind:
            want = sc.items[sc.pos][1]
            for e, p in self.real.items():
                if p > 0 and self.to_idx(e) == want:
                    sc.pos += 1
                    return e
        sc.diverged.append((sc.pos, self.kind))
        return self.real.sample(rng=rng)

    def __getattr__(self, name):
        return getattr(self.real, name)


class ScriptedEnv:
    def __init__(self, prob, script):
        self._p, self._e, self._s = prob, prob.env, script

    def is_absorbing(self, s):
        return self._e.is_absorbing(s)

    def reward(self, s, a, ns):
        return self._e.reward(s, a, ns)

    def initial_state_dist(self):
        return Scripted(self._e.initial_state_dist(), "s0", self._s, self._p.sidx)

    def next_state_dist(self, s, a):
        return Scripted(self._e.next_state_dist(s, a), "ns", self._s, self._p.sidx)

    def observation_dist(self, a, ns):
        return Scripted(self._e.observation_dist(a, ns), "o", self._s, self._p.oidx)

    def __getattr__(self, name):
        return getattr(self._e, name)


class Runaway(Exception):
    """the real loop asked for more transitions than any roll-out within the cap can take"""


class ExtremeRandom(random.Random):
    """a legal generator whose random() returns the extreme values of [0, 1): always exactly 0.0 ("zero"), mostly
    exactly 1 - 2**-53 ("max"), or both interleaved with ordinary draws ("mix").  choices / choice / sample are the stdlib algorithms
    running on this random() (random.Random routes them through random() when it is overridden)."""

    def __init__(self, seed, mode):
        super().__init__(seed)
        self._mode = mode

    def random(self):
        u = super().random()
        if self._mode == "zero":
            return 0.0
        if self._mode == "max":     # mostly the largest value; never constant: the stdlib's rejection loops
            return 1.0 - 2.0 ** -53 if u < 0.8 else u      # (Random.choice) need a generator that can move on
        return 0.0 if u < 0.35 else (1.0 - 2.0 ** -53 if u < 0.7 else u)


def make_rng(job):
    gen_kind = job.get("gen") or "Random"
    if gen_kind.startswith("extreme-"):
        return ExtremeRandom(job["seed"], gen_kind.split("-", 1)[1])
    return random.Random(job["seed"])


class DrawLog:
    """the initial distribution, recording the outcome of every draw made from it"""

    def __init__(self, real, log):
        self._real, self._log = real, log

    def sample(self, **kw):
        x = self._real.sample(**kw)
        self._log.extend(x if kw.get("k", 1) != 1 else [x])
        return x

    def __getattr__(self, name):
        return getattr(self._real, name)


class Guard:
    """the environment with a budget of transition samples (a roll-out that ignores its cap must not hang the check)"""

    def __init__(self, env, budget, draws=None):
        self._e, self._left, self._draws = env, budget, draws

    def initial_state_dist(self):
        d = self._e.initial_state_dist()
        return d if self._draws is None else DrawLog(d, self._draws)

    def next_state_dist(self, s, a):
        self._left -= 1
        if self._left < 0:
            raise Runaway()
        return self._e.next_state_dist(s, a)

    def __getattr__(self, name):
        return getattr(self._e, name)


class ScriptedMDPPolicy(Policy):
    def __init__(self, prob, script):
        self._p, self._s = prob, script

    def action_dist(self, s):
        return Scripted(self._p.policy.action_dist(s), "a", self._s, self._p.aidx)


def scripted_pomdp_policy(prob, script):
    """the real policy object with action_dist wrapped (run_on itself stays the real method)"""
    import copy
    pol = copy.copy(prob.policy)
    real = prob.policy.action_dist
    pol.action_dist = lambda ag: Scripted(real(ag), "a", script, prob.aidx)
    return pol


# =============================================================================================
# running the real code: one job -> traces + outputs
# =============================================================================================
def mdp_events(prob, steps_like, view):
    """project a SimulationResult (through its steps, or through its accessors) to trace events"""
    ev = []
    if view == "steps":
        recs = [dict(s) for s in steps_like.steps]
    else:
        st, ac, ns, rw = steps_like.state, steps_like.action, steps_like.next_state, steps_like.reward
        n = len(st)
        recs = []
        for i in range(n):
            d = {"state": st[i]}
            if i < n - 1 or ac[i] is not None:
                d.update(action=ac[i], next_state=ns[i], reward=rw[i], timestep=i)
            recs.append(d)
    if not recs:
        return ev
    ev.append({"k": "init", "s": prob.sidx(recs[0].get("state")), "ag": []})
    for i, d in enumerate(recs):
        last = i == len(recs) - 1
        if last and "action" not in d and "next_state" not in d:
            ev.append({"k": "stop", "s": prob.sidx(d.get("state")), "ag": []})
            break
        s_lab = d.get("state")
        try:
            key = ("m", prob.sidx(s_lab))
            supp = prob._supp[key] if key in prob._supp else prob.supp(key, prob.fresh_policy().action_dist(s_lab))
        except Exception:                                       # noqa: BLE001 - unknown state label
            supp = []
        ev.append({"k": "step", "s": prob.sidx(s_lab), "a": prob.aidx(d.get("action")),
                   "ns": prob.sidx(d.get("next_state")), "o": 0, "r": int_reward(d.get("reward")),
                   "t": d.get("timestep") if isinstance(d.get("timestep"), int) else -1,
                   "ag": [], "nag": [], "upd": [], "supp": supp})
    return ev


def pomdp_events(prob, traj):
    ev = []
    pol = prob.fresh_policy()       # judge against an object without the call history of the roll-outs
    if not traj:
        return ev
    ev.append({"k": "init", "s": prob.sidx(traj[0].state), "ag": prob.proj_ag(traj[0].agentstate)})
    for i, st in enumerate(traj):
        if i == len(traj) - 1 and st.action is None and st.nextstate is None:
            ev.append({"k": "stop", "s": prob.sidx(st.state), "ag": prob.proj_ag(st.agentstate)})
            break
        ag = prob.proj_ag(st.agentstate)
        try:
            key = ("p", tuple(ag))
            supp = prob._supp[key] if key in prob._supp else prob.supp(key, prob.fresh_policy().action_dist(st.agentstate))
        except Exception:                                       # noqa: BLE001
            supp = []
        try:
            upd = prob.proj_ag(pol.next_agentstate(st.agentstate, st.action, st.observation))
        except Exception:                                       # noqa: BLE001
            upd = [0] * len(ag)
        ev.append({"k": "step", "s": prob.sidx(st.state), "a": prob.aidx(st.action), "ns": prob.sidx(st.nextstate),
                   "o": prob.oidx(st.observation), "r": int_reward(st.reward), "t": i, "ag": ag,
                   "nag": prob.proj_ag(st.nextagentstate), "upd": upd, "supp": supp})
    return ev


def start_label(prob, start):
    return None if start == 0 else prob.slabel[start - 1]


def run_roll(prob, job, script=None):
    """executes Policy.run_on / POMDPPolicy.run_on once.  Returns dict(traces=[...], out=...)"""
    m = prob.m
    cap, start = job["cap"], job["start"]
    rng = make_rng(job)
    random.seed(job["seed"] + 17)
    if job.get("gen") == "module":         # the default generator of run_on: the `random` module itself
        rng = random
    env, pol = prob.env, prob.policy
    sc = None
    if script is not None:
        sc = Script(script)
        env = ScriptedEnv(prob, sc)
        pol = ScriptedMDPPolicy(prob, sc) if m["kind"] == "mdp" else scripted_pomdp_policy(prob, sc)
    kw = dict(max_steps=cap, rng=rng)
    if job.get("gen") == "default":
        del kw["rng"]
    if start != 0:
        kw["initial_state"] = start_label(prob, start)
    ag0 = job.get("ag0") or []
    if m["kind"] == "pomdp" and ag0:
        kw["initial_agentstate"] = prob.make_ag(ag0, job.get("agorder"))
    head = dict(kind="roll", iid=job["iid"], cap=cap, start=start, ag0given=1 if ag0 else 0)
    try:
        with warnings.catch_warnings():
            warnings.simplefilter("ignore")
            res = pol.run_on(Guard(env, cap + 3), **kw)
    except Runaway:
        return dict(runaway=f"more than {cap + 3} transitions sampled for max_steps={cap}", traces=[], script=sc)
    except Exception as e:                                      # noqa: BLE001 - reported as a failing roll-out
        return dict(error=f"{type(e).__name__}: {e}"[:300], traces=[], script=sc)
    traces = []
    if m["kind"] == "mdp":
        head["ag0"] = []
        traces.append(dict(head, view="steps", ev=mdp_events(prob, res, "steps")))
        traces.append(dict(head, view="accessors", ev=mdp_events(prob, res, "accessors")))
        rewards = list(res.reward)
        out = dict(rewards=rewards, returns=[float(x) for x in Policy.calc_returns(rewards, env.discount_rate)],
                   n=len(res), extras=container_extras(res))
        # aliasing history: the caller edits the lists the accessors handed out (drops the closing entry, reverses,
        # clears); the trajectory the container reports afterwards must still be the roll-out
        try:
            for i, col in enumerate(("reward", "state", "action", "next_state")):
                x = getattr(res, col)
                if isinstance(x, list):
                    (x.pop if (i + job["seed"]) % 3 == 0 and x else x.reverse if (i + job["seed"]) % 3 == 1 else x.clear)()
            traces.append(dict(head, view="accessors-after-edit", ev=mdp_events(prob, res, "accessors")))
            out["returns_after_edit"] = [float(x) for x in Policy.calc_returns(res.reward, env.discount_rate)]
        except Exception as e:                                  # noqa: BLE001
            out["edit_error"] = f"{type(e).__name__}: {e}"[:200]
    else:
        head["ag0"] = prob.proj_ag(kw["initial_agentstate"]) if ag0 else prob.proj_ag(prob.policy.initial_agentstate())
        traces.append(dict(head, view="steps", ev=pomdp_events(prob, res)))
        out = dict(n=len(res))
    return dict(traces=traces, out=out, script=sc)


def container_extras(res):
    """implementation-shaped accessors of SimulationResult (drift level)"""
    bad = []
    try:
        n = len(res.steps)
        if len(res) != n:
            bad.append("len")
        if [dict(x) for x in res] != [dict(x) for x in res.steps]:
            bad.append("iter")
        if n and dict(res[0]) != dict(res.steps[0]):
            bad.append("getitem-int")
        if [dict(x) for x in res[0:n]] != [dict(x) for x in res.steps]:
            bad.append("getitem-slice")
        if n > 1 and res[0:n - 1, "state"] != res.state[:-1]:
            bad.append("getitem-field")
        with warnings.catch_warnings():
            warnings.simplefilter("ignore")
            if tuple(res.state_traj) != tuple(res.state[:-1]) or tuple(res.action_traj) != tuple(res.action[:-1]) \
                    or tuple(res.reward_traj) != tuple(res.reward[:-1]):
                bad.append("deprecated-traj")
    except Exception as e:                                      # noqa: BLE001
        bad.append(f"raises-{type(e).__name__}")
    return bad


SEQREPS = ["list", "tuple", "int-array", "object-array", "float32-array", "float64-array"]


def run_returns(job):
    """a history of Policy.calc_returns calls on ONE reward-sequence object"""
    vals = [r / job["RD"] for r in job["rs"]] if job["RD"] != 1 else list(job["rs"])
    rep = job["seqrep"]
    if rep == "list":
        obj = list(vals)
    elif rep == "tuple":
        obj = tuple(vals)
    elif rep == "int-array":
        obj = np.array(vals, dtype=np.int64)
    elif rep == "object-array":
        obj = np.array(vals, dtype=object)
    elif rep == "float32-array":
        obj = np.array(vals, dtype=np.float32)
    else:
        obj = np.array(vals, dtype=np.float64)
    calls, after, raw = [], [], []
    try:
        with warnings.catch_warnings():
            warnings.simplefilter("ignore")
            for GN, GD in job["calls"]:
                calls.append([float(x) for x in Policy.calc_returns(obj, GN / GD)])
                now = [float(x) for x in obj]
                raw.append(now)
                after.append([int(x * job["RD"]) if math.isfinite(x) and x * job["RD"] == int(x * job["RD"])
                              and abs(x * job["RD"]) < 10 ** 6 else BAD for x in now])
    except Exception as e:                                      # noqa: BLE001
        return dict(error=f"{type(e).__name__}: {e}"[:300])
    return dict(calls=calls, after=after, after_raw=raw)


def table_to_dict(prob, table, two=False):
    """StateTable / StateActionTable -> {s_idx: value} / {s_idx: {a_idx (0 = None): value}}"""
    out = {}
    for s in table.state_list:
        si = prob.sidx(s)
        if two:
            row = {}
            for a in table.action_list:
                ai = 0 if a is None else prob.aidx(a)
                if a is not None and ai == 0:
                    ai = -1
                row[ai] = float(table[s][a]) if not isinstance(table[s], float) else float(table[s])
            out[si] = row
        else:
            out[si] = float(table[s])
    return out


def run_eval(prob, job, tamper=None):
    """executes Policy.evaluate_on with a recording subclass wrapped around run_on"""
    log = []
    draws = []          # outcomes of the draws evaluate_on (or its roll-outs) made from the initial distribution
    base = prob.policy

    class Rec(Policy):
        def action_dist(self, s):
            return base.action_dist(s)

        def run_on(self, mdp, **kw):
            res = Policy.run_on(self, mdp, **kw)
            log.append((res, dict(kw)))
            return res

    rng = make_rng(job)
    n, cap = job["n"], job["cap"]
    try:
        with warnings.catch_warnings():
            warnings.simplefilter("ignore")
            ev = Rec().evaluate_on(Guard(prob.env, (n + 2) * (cap + 3), draws), n_simulations=n, max_steps=cap, rng=rng)
    except Runaway:
        return dict(runaway=f"more than {(n + 2) * (cap + 3)} transitions sampled for n_simulations={n}, "
                            f"max_steps={cap}", traces=[])
    except Exception as e:                                      # noqa: BLE001
        return dict(error=f"{type(e).__name__}: {e}"[:300], traces=[])
    rolls, traces = [], []
    notes = set()
    for res, kw in log:
        evs = mdp_events(prob, res, "steps")
        traces.append(dict(kind="roll", iid=job["iid"], cap=cap, start=0, ag0given=0, ag0=[], view="eval-rollout", ev=evs))
        steps = [e for e in evs if e["k"] == "step"]
        fin = [e for e in evs if e["k"] == "stop"]
        ss = [e["s"] for e in steps] + [e["s"] for e in fin[:1]]
        rolls.append(dict(ss=ss, **{"as": [e["a"] for e in steps]}, rs=[e["r"] for e in steps]))
        if kw.get("rng") is not rng:
            notes.add("evaluate_on-does-not-forward-its-generator")
        if kw.get("max_steps") != cap:
            notes.add("evaluate_on-does-not-forward-max_steps")
    try:
        out = dict(sv=table_to_dict(prob, ev.state_value), occ=table_to_dict(prob, ev.state_occupancy),
                   av=table_to_dict(prob, ev.action_value, two=True), iv=float(ev.initial_value),
                   n_reported=ev.n_simulations, notes=sorted(notes))
    except Exception as e:                                      # noqa: BLE001
        return dict(error=f"reading the result: {type(e).__name__}: {e}"[:300], traces=[])
    if tamper and tamper.get("kind") == "eval-value":
        out["iv"] += 1e-3
    # rewards in the eval trace must be integers for the exact averages; otherwise the roll-out trace is rejected anyway
    usable = all(r != BAD for ro in rolls for r in ro["rs"]) and all(x > 0 for ro in rolls for x in ro["ss"])
    etrace = dict(kind="eval", iid=job["iid"], cap=cap, n=n, rolls=rolls,
                  draws=[prob.sidx(x) for x in draws]) if usable else None
    return dict(traces=traces, etrace=etrace, out=out)


# =============================================================================================
# independent Fraction implementations (cross-check of the TLA+ oracles; never a verdict)
# =============================================================================================
def py_returns(rs, g):
    out, acc = [], F(0)
    for r in reversed(rs):
        acc = F(r) + g * acc
        out.append(acc)
    return out[::-1]


def py_truncv(m, cap):
    g = gen.gamma(m)
    v = [F(0)] * m["N"]
    tabs = [list(v)]
    for _ in range(cap):
        nv = []
        for s in range(m["N"]):
            if m["abs"][s]:
                nv.append(F(0))
                continue
            tot = F(0)
            for a in range(m["K"]):
                if m["W"][s][a]:
                    tot += F(m["W"][s][a], m["QD"]) * sum(F(m["P"][s][a][u], m["PD"]) * (m["R"][s][a][u] + g * v[u])
                                                        for u in range(m["N"]))
            nv.append(tot)
        v = nv
        tabs.append(list(v))
    return tabs


def py_eval_tables(m, rolls, final):
    g = gen.gamma(m)
    sv, av, cnt, ivs = {}, {}, {}, []
    for ro in rolls:
        rets = py_returns(list(ro["rs"]) + [0], g)
        ivs.append(rets[0])
        acts = list(ro["as"]) + [0]
        k = len(ro["ss"]) - (0 if final else 1)
        for i in range(k):
            s = ro["ss"][i]
            sv.setdefault(s, []).append(rets[i])
            av.setdefault(s, {}).setdefault(acts[i], []).append(rets[i])
            cnt[s] = cnt.get(s, 0) + 1
    mean = lambda xs: sum(xs) / len(xs)                         # noqa: E731
    return dict(iv=mean(ivs) if ivs else None, sv={s: mean(x) for s, x in sv.items()}, cnt=cnt,
                av={s: {a: mean(x) for a, x in d.items()} for s, d in av.items()})


def py_det_oracle(m, cap):
    """unique trajectory of a deterministic policy on a deterministic MDP and what evaluation must report"""
    tv = py_truncv(m, cap)
    s = m["p0"].index(max(m["p0"]))
    traj = [s]
    for _ in range(cap):
        if m["abs"][s]:
            break
        a = [x for x in range(m["K"]) if m["W"][s][x] > 0][0]
        s = [u for u in range(m["N"]) if m["P"][s][a][u] > 0][0]
        traj.append(s)
    sv, occ = {}, {}
    for i, x in enumerate(traj):
        sv.setdefault(x + 1, []).append(tv[cap - i][x])
        occ[x + 1] = occ.get(x + 1, 0) + 1
    return dict(iv=tv[cap][traj[0]], traj=[x + 1 for x in traj], sv={x: sum(v) / len(v) for x, v in sv.items()}, occ=occ)


def frac_weights(fr_list):
    den = 1
    for x in fr_list:
        den = den * x.denominator // math.gcd(den, x.denominator)
    w = [int(x * den) for x in fr_list]
    g = 0
    for x in w:
        g = math.gcd(g, x)
    return [x // g for x in w] if g else w


def py_polsupp(m, s, ag):
    """0-based support of the modelled policy at state s / agent weights ag (independent of the TLA+ model)"""
    K = m["K"]
    if m["kind"] == "mdp":
        return {a for a in range(K) if m["W"][s][a] > 0}
    if m["pk"] == "ctrl":
        return {a for a in range(K) if sum(ag[n] * m["CA"][n][a] for n in range(m["NN"])) > 0}
    tot = sum(ag)
    b = [F(x, tot) for x in ag] if tot else [F(0)] * m["N"]
    if m["pk"] == "qb":
        v = [sum(b[x] * m["QV"][x][a] for x in range(m["N"])) for a in range(K)]
    else:
        g = gen.gamma(m)
        v = []
        for a in range(K):
            val = pb.exact_reward(m, b, a)
            for o in range(m["NO"]):
                j = pb.exact_joint(m, b, a, o)
                val += g * max(sum(j[n] * m["AV"][d][n] for n in range(m["N"])) for d in range(m["ND"]))
            v.append(val)
    mx = max(v)
    return {a for a in range(K) if v[a] == mx}


def py_update(m, ag, a, o):
    if m["kind"] == "mdp":
        return []
    if m["pk"] == "ctrl":
        NN = m["NN"]
        return frac_weights([F(sum(ag[n] * m["CA"][n][a] * m["CU"][n][a][o][n2] for n in range(NN))) for n2 in range(NN)])
    tot = sum(ag)
    b = [F(x, tot) for x in ag] if tot else [F(0)] * m["N"]
    return frac_weights(pb.exact_joint(m, b, a, o))


def as_map(x):
    """ToJson prints a function with domain 1..n as an array and any other as an object"""
    if isinstance(x, list):
        return {i + 1: v for i, v in enumerate(x)}
    return {int(k): v for k, v in x.items()}


def fr(x):
    v = bd.frac(x)
    if v is None or isinstance(v, float):
        raise TLCFailure(f"unexpected improper rational from TLC: {x}")
    return v


def close(x, exact, scale):
    return isinstance(x, float) and math.isfinite(x) and abs(x - float(exact)) <= TOL * max(1.0, scale, abs(float(exact)))


# =============================================================================================
# the pipeline
# =============================================================================================
def inst_record(m):
    keys = list(MDP_KEYS) + ["kind", "pk"]
    if m["kind"] == "mdp":
        keys += ["W", "QD"]
    else:
        keys += ["NO", "OD", "O"]
        keys += {"ctrl": ["NN", "CA", "CAD", "CU", "CUD", "ag0"], "qb": ["QV"], "alpha": ["AV", "ND"]}[m["pk"]]
    return {k: m[k] for k in keys}


def site_of(m, tkind):
    if tkind == "eval":
        return "Policy.evaluate_on"
    if tkind == "ret":
        return "Policy.calc_returns"
    return "Policy.run_on" if m["kind"] == "mdp" else "POMDPPolicy.run_on"


def shape_of(m, job):
    bits = [m.get("sub", m["pk"])]
    if job.get("cap") == 0:
        bits.append("cap0")
    if job.get("start", 0) != 0:
        bits.append("given-start")
    return "+".join(bits)


class Pipeline:
    """jobs -> real executions -> one TLC trace run -> verdicts"""

    def __init__(self, ctx, insts, tamper=None):
        self.ctx, self.insts, self.tamper = ctx, insts, tamper or {}
        self.jobs = []            # job dicts: kind in roll / scripted / eval / ret
        self.traces = []          # trace batch
        self.owner = []           # per trace: (job index, role)
        self.outs = {}            # job index -> outputs of the real code
        self.problems = {}
        self.flagged = {}

    def problem(self, job):
        key = (job["iid"], tuple(sorted(job["rep"].items())))
        if key not in self.problems:
            t = self.tamper if self.tamper.get("kind") == "instance" and self.tamper.get("iid") == job["iid"] else None
            self.problems[key] = Problem(self.insts[job["iid"] - 1], job["rep"], tamper=t)
        return self.problems[key]

    def case_of(self, ji):
        job = self.jobs[ji]
        c = {"job": {k: v for k, v in job.items() if k != "expect"}}
        if "iid" in job:
            c["inst"] = self.insts[job["iid"] - 1]
        if "expect" in job:
            c["job"]["expect"] = job["expect"]
        return c

    # ------------------------------------------------------------------ execution
    def execute(self, job):
        ctx = self.ctx
        ji = len(self.jobs)
        self.jobs.append(job)
        kind = job["kind"]
        if kind == "ret":
            out = run_returns(job)
            if self.tamper.get("kind") == "ret-value" and out.get("calls"):
                out["calls"][0][0] += 1e-3
            ctx.evaluations += len(job["calls"])
            self.outs[ji] = out
            self.owner.append((ji, "ret"))
            self.traces.append(dict(kind="ret", rs=job["rs"], calls=job["calls"],
                                    after=out.get("after") or [job["rs"]] * len(job["calls"])))
            return
        prob = self.problem(job)
        if kind == "eval":
            r = run_eval(prob, job, tamper=self.tamper if self.tamper.get("job") == ji else None)
            ctx.evaluations += 1
        else:
            r = run_roll(prob, job, script=job.get("script"))
            ctx.evaluations += 1
        self.outs[ji] = r
        for tr in r.get("traces", []):
            self.owner.append((ji, tr.get("view", "steps")))
            self.traces.append(tr)
        if r.get("etrace"):
            self.owner.append((ji, "eval"))
            self.traces.append(r["etrace"])

    def apply_trace_tamper(self):
        """binding self-test (pipeline B): corrupt one logged field / drop one event"""
        t = self.tamper
        if t.get("kind") not in ("drop-event", "reward-field", "extra-step"):
            return None
        for ti, tr in enumerate(self.traces):
            if tr["kind"] != "roll" or tr.get("view") != "steps":
                continue
            steps = [i for i, e in enumerate(tr["ev"]) if e["k"] == "step"]
            if len(steps) < 2:
                continue
            if t["kind"] == "drop-event":
                del tr["ev"][steps[0]]
            elif t["kind"] == "reward-field":
                tr["ev"][steps[-1]]["r"] += 1
            else:
                if len(steps) != tr["cap"]:
                    continue
                e = dict(tr["ev"][steps[-1]])
                m = self.insts[tr["iid"] - 1]
                if m["abs"][e["ns"] - 1]:
                    continue
                tr["cap"] -= 1          # the same trajectory under a smaller cap: one step too many
            return ti
        return None

    # ------------------------------------------------------------------ TLC + verdicts
    def judge(self, label="trace"):
        ctx = self.ctx
        if not self.traces:
            return
        batch = {"insts": [inst_record(m) for m in self.insts], "cases": [], "traces": self.traces}
        res = run_tlc(ctx.workdir / label, MODULE, CFG_TRACE, files={"batch.json": batch},
                      env={"BATCH_FILE": "batch.json", "MODE": "trace", **TLC_JVM}, coverage=(ctx.tier == "thorough"),
                      workers=TLC_WORKERS, timeout=TLC_TIMEOUT[ctx.tier])
        ctx.add_tlc(res, "trace: recorded roll-outs validated event by event; exact averages / returns computed")
        if res.violated:
            raise TLCFailure(f"design-level invariant violated in {MODULE} (trace mode): {sorted(set(res.violated))}\n"
                             + (res.traces[0][:3000] if res.traces else ""))
        by = {}
        for r in res.records:
            by.setdefault(r["tid"], []).append(r)
        rejected_jobs = set()
        verdicts = {}
        for ti, (tr, (ji, role)) in enumerate(zip(self.traces, self.owner), start=1):
            recs = by.get(ti, [])
            if len(recs) != 1:
                raise TLCFailure(f"trace {ti} ({tr['kind']}/{role}) got {len(recs)} verdict records from TLC")
            verdicts[ti] = recs[0]
        # roll-out traces first (so that eval judgements know whether their roll-outs were valid)
        for ti, (tr, (ji, role)) in enumerate(zip(self.traces, self.owner), start=1):
            if tr["kind"] == "roll":
                if not self.judge_roll(ji, role, tr, verdicts[ti]):
                    rejected_jobs.add(ji)
        for ti, (tr, (ji, role)) in enumerate(zip(self.traces, self.owner), start=1):
            if tr["kind"] == "eval":
                self.judge_eval(ji, tr, verdicts[ti], ji in rejected_jobs)
            elif tr["kind"] == "ret":
                self.judge_ret(ji, tr, verdicts[ti])
        # jobs whose real code raised
        for ji, job in enumerate(self.jobs):
            out = self.outs.get(ji, {})
            if out.get("error") or out.get("runaway"):
                m = self.insts[job["iid"] - 1] if "iid" in job else {"kind": "mdp", "pk": "ret"}
                site = site_of(m, job["kind"] if job["kind"] in ("eval", "ret") else "roll")
                shape = "reward-sequence" if job["kind"] == "ret" else shape_of(m, job)
                if out.get("runaway"):
                    ctx.violation(f"C14:{site}:roll-out-does-not-stop-at-the-cap:{shape}",
                                  f"{site}: {out['runaway']}", self.case_of(ji))
                else:
                    ctx.violation(f"C14:{site}:raises:{shape}", f"{site} raised on a valid input: {out['error']}",
                                  self.case_of(ji))

    def judge_roll(self, ji, role, tr, v):
        ctx = self.ctx
        job = self.jobs[ji]
        m = self.insts[tr["iid"] - 1]
        site = "Policy.evaluate_on" if role == "eval-rollout" else site_of(m, "roll")
        if role in ("accessors", "accessors-after-edit"):
            site = "SimulationResult.accessors"
        ok = v["phase"] == "done" and not v["fails"]
        if not ok:
            clause = v["fails"][0]["c"] if v["fails"] else "trace-not-accepted"
            pos = v["fails"][0]["pos"] if v["fails"] else v["l"]
            shape = shape_of(m, job) + ("+after-the-caller-edited-a-returned-list" if role == "accessors-after-edit" else "")
            ctx.violation(f"C14:{site}:{clause}:{shape}",
                          f"{site}: roll-out is not a valid trajectory: {clause} at record {pos} "
                          f"(cap={tr['cap']}, start={tr['start']}, events={tr['ev'][:8]})"[:700], self.case_of(ji))
            return False
        ctx.validated += 1
        for fl in v["flags"]:
            if fl == "exact-tie-split-by-floating-point":      # benign: the sampled action is still a maximiser
                ctx.count("value_based_steps_with_exact_tie_split_by_floats")
            else:
                self.flag(fl, ji)
        out = self.outs[ji].get("out", {})
        # returns of the roll-out's own reward sequence (Policy.calc_returns on SimulationResult.reward)
        if role == "steps" and "returns" in out:
            mine = py_returns([e["r"] for e in tr["ev"] if e["k"] == "step"] + [0], gen.gamma(m))
            if v["retsok"]:
                exact = [fr(x) for x in v["rets"]]
                if exact != mine:
                    raise TLCFailure(f"TLA+ returns {exact} differ from the Fraction recursion {mine}")
            else:       # long discounted roll-out: GD^n does not fit TLC's integers, the Fractions are the reference
                exact = mine
                ctx.count("long_discounted_rollouts_returns_judged_by_fractions")
            scale = sum(abs(e["r"]) for e in tr["ev"] if e["k"] == "step")
            if len(out["returns"]) != len(exact) or not all(close(x, e, scale) for x, e in zip(out["returns"], exact)):
                ctx.violation(f"C14:Policy.calc_returns:returns-differ-from-backward-recursion:rollout-rewards",
                              f"calc_returns({out['rewards']}, {m['GN']}/{m['GD']}) = {out['returns']}, "
                              f"backward recursion gives {[str(x) for x in exact]}", self.case_of(ji))
                return False
            if "returns_after_edit" in out and not (len(out["returns_after_edit"]) == len(exact) and all(
                    close(x, e, scale) for x, e in zip(out["returns_after_edit"], exact))):
                ctx.violation("C14:SimulationResult.accessors:returns-of-the-reported-rewards-differ-from-backward-"
                              "recursion:after-the-caller-edited-a-returned-list",
                              f"after editing the lists returned by the accessors, calc_returns(res.reward) = "
                              f"{out['returns_after_edit']}, the roll-out's rewards give {[str(x) for x in exact]}",
                              self.case_of(ji))
                return False
            if out.get("edit_error"):
                self.flag("SimulationResult-accessors-raise-after-edit", ji, detail=out["edit_error"])
            for x in out.get("extras", []):
                self.flag(f"SimulationResult-{x}", ji)
        # pipeline A: the scripted replay must reproduce the TLC behaviour
        if role == "steps" and job["kind"] == "scripted":
            exp = job["expect"]
            got = [(e["s"], e["a"], e["ns"], e["o"], e["r"], e["ag"], e["nag"]) for e in tr["ev"] if e["k"] == "step"]
            want = [(h["s"], h["a"], h["ns"], h["o"], h["r"], list(h["ag"]), list(h["nag"])) for h in exp["hist"]]
            fin = [e for e in tr["ev"] if e["k"] == "stop"][0]
            sc = self.outs[ji].get("script")
            same = got == want and fin["s"] == exp["fin"] and fin["ag"] == list(exp["fag"])
            if (sc.diverged and sc.diverged[0][1] == "a" and m.get("pk") in ("qb", "alpha")
                    and "exact-tie-split-by-floating-point" in v["flags"]):
                # the behaviour takes an exactly tied action that the real policy's float comparison dropped
                ctx.count("behaviours_not_realisable_exact_tie_split_by_floats")
            elif not same or sc.diverged or sc.pos != len(sc.items):
                self.flag("scripted-replay-differs-from-TLC-behaviour", ji,
                          detail=dict(diverged=sc.diverged[:3], used=sc.pos, script=len(sc.items)))
            else:
                ctx.count("behaviours_reproduced")
        return True

    def flag(self, name, ji, detail=None):
        n = self.flagged.get(name, 0)
        self.flagged[name] = n + 1
        self.ctx.count("flag:" + name)
        if n == 0:
            job = self.jobs[ji]
            self.ctx.drift(name, {"job": {k: v for k, v in job.items() if k not in ("expect", "script")},
                                  "detail": detail})

    def judge_eval(self, ji, tr, v, rollouts_rejected):
        ctx = self.ctx
        job = self.jobs[ji]
        m = self.insts[tr["iid"] - 1]
        out = self.outs[ji]["out"]
        site = "Policy.evaluate_on"
        # --- machinery cross-checks (never verdicts)
        for final, key in ((1, "main"), (0, "alt")):
            mine = py_eval_tables(m, tr["rolls"], final)
            t = v[key]
            tl = dict(iv=None if t["n"] == 0 else fr(t["iv"]), sv={s: fr(x) for s, x in as_map(t["sv"]).items()},
                      cnt=as_map(t["cnt"]),
                      av={s: {a: fr(x) for a, x in as_map(d).items()} for s, d in as_map(t["av"]).items()})
            if not t["valsok"]:     # values not computed by TLC: counts and key sets only
                tl = dict(cnt=tl["cnt"], keys={s: set(d) for s, d in tl["av"].items()})
                mine = dict(cnt=mine["cnt"], keys={s: set(d) for s, d in mine["av"].items()})
            if tl != mine:
                raise TLCFailure(f"TLA+ averages differ from the Fraction implementation: {tl} vs {mine}")
        if v["main"]["valsok"] != all(fits(m, len(ro["rs"])) for ro in tr["rolls"]):
            raise TLCFailure("TLA+ Fits differs from the python predicate")
        if v["det"] != (inst_is_det(m) and fits(m, tr["cap"])):
            raise TLCFailure("TLA+ IsDet differs from the python predicate")
        if not v["detagree"] and not rollouts_rejected:
            raise TLCFailure(f"valid roll-outs of a deterministic instance do not average to the oracle: {v}")
        if v["det"]:
            mine = py_det_oracle(m, tr["cap"])
            d = v["dor"]
            tl = dict(iv=fr(d["iv"]), traj=list(d["traj"]), sv={s: fr(x) for s, x in as_map(d["sv"]).items()},
                      occ=as_map(d["occ"]))
            if tl != mine:
                raise TLCFailure(f"TLA+ deterministic oracle differs from the Fraction implementation: {tl} vs {mine}")
        # --- verdicts
        for nt in out.get("notes", []):
            self.flag(nt, ji)
        if v["startfault"]:
            starts = [ro["ss"][0] for ro in tr["rolls"]]
            ctx.violation(f"C14:{site}:roll-outs-do-not-each-start-at-their-own-draw-from-the-initial-distribution:"
                          f"{shape_of(m, job)}",
                          f"{site} (n_simulations={job['n']}): the roll-outs start at states {starts} but only the draws "
                          f"{tr['draws']} were made from the initial distribution {m['p0']}/{m['ID']}", self.case_of(ji))
            return
        if v["ndraws"] == 0 and sum(1 for x in m["p0"] if x > 0) >= 2:
            self.flag("evaluate_on-start-draws-not-observable-at-the-initial-distribution", ji)
        if len(tr["rolls"]) != job["n"]:
            self.flag("evaluate_on-ran-a-different-number-of-roll-outs", ji,
                      detail=dict(ran=len(tr["rolls"]), n_simulations=job["n"]))
        if out.get("n_reported") != job["n"]:
            self.flag("evaluate_on-n_simulations-field-differs", ji)
        n = len(tr["rolls"])
        if n == 0:
            ctx.skip("evaluation that made no roll-outs")
            return
        scale = float(tr["cap"] * 3)
        vm, va = v["main"], v["alt"]
        if not vm["valsok"]:
            # long discounted roll-outs: TLC's visit counts / key sets are exact, the value means come from Fractions
            vm, va = self.with_fraction_values(m, tr, vm, 1), self.with_fraction_values(m, tr, va, 0)
            ctx.count("long_discounted_evaluations_values_judged_by_fractions")
        bad = self.compare_eval(out, vm, n, scale)
        if bad:
            alt = self.compare_eval(out, va, n, scale)
            if not alt:
                self.flag("evaluate_on-does-not-count-the-final-record-as-a-visit", ji)
            else:
                clause, what = bad[0]
                ctx.violation(f"C14:{site}:{clause}:{shape_of(m, job)}",
                              f"{site} (n_simulations={job['n']}, max_steps={job['cap']}): {what}"[:700],
                              self.case_of(ji))
                return
        if v["det"] and v["same"]:
            d = v["dor"]
            bad = []
            if not close(out["iv"], fr(d["iv"]), scale):
                bad.append(f"initial_value {out['iv']} vs exact truncated evaluation {fr(d['iv'])}")
            for s, x in as_map(d["sv"]).items():
                if not close(out["sv"].get(s), fr(x), scale):
                    bad.append(f"state_value[{s}] {out['sv'].get(s)} vs exact truncated evaluation {fr(x)}")
            for s, c in as_map(d["occ"]).items():
                if not close(out["occ"].get(s), F(c), scale):
                    bad.append(f"state_occupancy[{s}] {out['occ'].get(s)} vs {c} visits of the unique trajectory")
            if bad:
                ctx.violation(f"C14:{site}:deterministic-differs-from-truncated-exact-evaluation:{shape_of(m, job)}",
                              f"{site} on a deterministic policy / MDP: " + "; ".join(bad)[:600], self.case_of(ji))
                return
            ctx.count("eval_deterministic_equal_truncated_oracle")
        ctx.validated += 1
        ctx.nontrivial(("eval", tr["iid"], job["n"], job["cap"]))

    @staticmethod
    def with_fraction_values(m, tr, t, final):
        mine = py_eval_tables(m, tr["rolls"], final)
        enc = lambda x: [x.numerator, x.denominator]            # noqa: E731
        return dict(t, iv=enc(mine["iv"]), sv={s: enc(x) for s, x in mine["sv"].items()},
                    av={s: {a: enc(x) for a, x in d.items()} for s, d in mine["av"].items()})

    @staticmethod
    def compare_eval(out, t, n, scale):
        """reported tables vs the exact averages TLC computed from the evaluation's own roll-outs"""
        bad = []
        iv = fr(t["iv"])
        if not close(out["iv"], iv, scale):
            bad.append(("initial_value-is-not-the-mean-return", f"initial_value {out['iv']} vs mean of returns {iv}"))
        sv = {s: fr(x) for s, x in as_map(t["sv"]).items()}
        cnt = as_map(t["cnt"])
        av = {s: {a: fr(x) for a, x in as_map(d).items()} for s, d in as_map(t["av"]).items()}
        if set(out["sv"]) != set(sv):
            bad.append(("state_value-keys", f"state_value has states {sorted(out['sv'])}, visited {sorted(sv)}"))
        for s, x in sv.items():
            if s in out["sv"] and not close(out["sv"][s], x, scale):
                bad.append(("state_value-is-not-the-mean-return-of-visits", f"state_value[{s}] {out['sv'][s]} vs {x}"))
        if set(out["occ"]) != set(cnt):
            bad.append(("state_occupancy-keys", f"state_occupancy has states {sorted(out['occ'])}, visited {sorted(cnt)}"))
        for s, c in cnt.items():
            if s in out["occ"] and not close(out["occ"][s], F(c, n), scale):
                bad.append(("state_occupancy-is-not-the-visit-frequency",
                            f"state_occupancy[{s}] {out['occ'][s]} vs {c}/{n}"))
        if set(out["av"]) != set(av):
            bad.append(("action_value-keys", f"action_value has states {sorted(out['av'])}, visited {sorted(av)}"))
        for s, row in av.items():
            got = out["av"].get(s, {})
            for a, x in row.items():
                if not close(got.get(a), x, scale):
                    bad.append(("action_value-is-not-the-mean-return-of-visits-with-that-action",
                                f"action_value[{s}][{a}] {got.get(a)} vs {x}"))
            for a, x in got.items():
                if a not in row and not (isinstance(x, float) and x == float("-inf")):
                    bad.append(("action_value-entry-for-an-action-never-taken",
                                f"action_value[{s}][{a}] = {x} but the action was never taken there"))
        return bad

    def judge_ret(self, ji, tr, v):
        ctx = self.ctx
        job = self.jobs[ji]
        out = self.outs[ji]
        if out.get("error"):
            return
        scale = sum(abs(r) for r in job["rs"]) / job["RD"]
        changed = any(f["c"] == "reward-sequence-changed-by-the-call" for f in v["fails"])
        ok = True
        for c, ((GN, GD), tl, got) in enumerate(zip(job["calls"], v["calls"], out["calls"])):
            g = F(GN, GD)
            exact = [fr(x) for x in tl["rets"]]
            direct = [fr(x) for x in tl["direct"]]
            mine = py_returns(job["rs"], g)
            if exact != mine or direct != mine:
                raise TLCFailure(f"TLA+ returns {exact} / {direct} differ from the Fraction recursion {mine}")
            exact = [x / job["RD"] for x in exact]
            if len(got) != len(exact) or not all(close(x, e, scale) for x, e in zip(got, exact)):
                shape = "gamma1" if g == 1 else ("gamma0" if g == 0 else "discounted")
                if c > 0:
                    shape = f"{job['seqrep']}+sequence-object-used-again" + ("+changed-in-place" if changed else "")
                ctx.violation(f"C14:Policy.calc_returns:returns-differ-from-backward-recursion:{shape}",
                              f"call {c + 1} of {len(job['calls'])} on the same {job['seqrep']} reward sequence "
                              f"{[r / job['RD'] for r in job['rs']]}: calc_returns(rewards, {float(g)}) = {got}, backward "
                              f"recursion of the rewards gives {[str(x) for x in exact]}"
                              + (f"; the caller's sequence held {out['after_raw'][:c + 1]} after the calls" if changed else ""),
                              self.case_of(ji))
                ok = False
                break
        if not ok:
            return
        if changed:
            self.flag("calc_returns-changes-its-argument", ji)
        ctx.validated += 1
        if len(job["rs"]) >= 2:
            ctx.nontrivial(("ret", tuple(job["rs"]), tuple(map(tuple, job["calls"])), job["RD"], job["seqrep"]))


# =============================================================================================
# model checking + pipeline A case generation
# =============================================================================================
def mc_cases(rng, tier):
    quick = tier == "quick"
    insts, cases = [], []
    plan = [("mdp", None)] * (60 if quick else 250) + [("mdpdet", None)] * (16 if quick else 80)
    for pk in ("ctrl", "qb", "alpha"):
        plan += [("pomdp", pk)] * (18 if quick else 80)
    for kind, pk in plan:
        if kind == "pomdp":
            m = make_pomdp_inst(rng, pk, small=True)
        else:
            m = make_mdp_inst(rng, small=True, det=(kind == "mdpdet"))
        insts.append(m)
        iid = len(insts)
        N = m["N"]
        caps = [0, 1, 2, 3] if kind != "pomdp" else [0, 1, 2, 3][: (4 if m["K"] * m["NO"] <= 4 else 3)]
        rng.shuffle(caps)
        ncap = 3 if quick else 4
        for cap in sorted(caps[:ncap]):
            cases.append(dict(iid=iid, cap=cap, start=0, ag0=[], oracle=1 if oracle_ok(m, cap) else 0))
        # given starts: an absorbing state, the state labelled 0, a state outside the initial support
        cands = [s for s in range(N) if m["abs"][s]][:1] + [0] + [s for s in range(N) if m["p0"][s] == 0][:1]
        for s in dict.fromkeys(cands):
            if m["kind"] == "pomdp" and m["pk"] != "ctrl" and m["p0"][s] == 0:
                # belief policies: the start must be inside the support of the initial belief; give the vertex belief
                ag0 = [1 if x == s else 0 for x in range(N)]
            else:
                ag0 = []
            if m["kind"] == "pomdp" and m["pk"] == "ctrl" and rng.random() < 0.5:
                ag0 = [0] * m["NN"]
                ag0[rng.randrange(m["NN"])] = 1
            cases.append(dict(iid=iid, cap=rng.choice([1, 2, 3]), start=s + 1, ag0=ag0, oracle=0))
    return insts, cases


def run_mc(ctx, insts, cases):
    batch = {"insts": [inst_record(m) for m in insts], "cases": cases, "traces": []}
    res = run_tlc(ctx.workdir / "mc", MODULE, CFG_MC, files={"batch.json": batch},
                  env={"BATCH_FILE": "batch.json", "MODE": "mc", **TLC_JVM}, coverage=(ctx.tier == "thorough"),
                  workers=TLC_WORKERS, timeout=TLC_TIMEOUT[ctx.tier])
    ctx.add_tlc(res, f"mc: every roll-out of {len(cases)} (instance, policy, cap, start) cases over {len(insts)} "
                     f"instances; " + ", ".join(MC_INVS))
    if res.violated:
        raise TLCFailure(f"design-level invariant violated in {MODULE} (mc mode): {sorted(set(res.violated))}\n"
                         + (res.traces[0][:3000] if res.traces else ""))
    behs, oracles = {}, {}
    for r in res.records:
        if r["kind"] == "beh":
            behs.setdefault(r["cid"], []).append(r)
        else:
            oracles[r["cid"]] = r
    # ---- cross-checks: TLA+ oracle vs Fractions; reference machine vs oracle (sum of prob * return)
    for cid, case in enumerate(cases, start=1):
        m = insts[case["iid"] - 1]
        if cid not in behs:
            raise TLCFailure(f"mc case {cid} produced no complete behaviour")
        g = gen.gamma(m)
        for b in behs[cid]:
            mine = py_returns([h["r"] for h in b["hist"]] + [0], g)
            if [fr(x) for x in b["rets"]] != mine:
                raise TLCFailure(f"TLA+ returns differ from the Fraction recursion on case {cid}")
        # the modelled policy and agent update against independent Fraction implementations: at every node of the
        # roll-out tree the set of actions the machine took is the policy's support, and nag is the update
        taken = {}
        for b in behs[cid]:
            pre = ()
            for h in b["hist"]:
                taken.setdefault((pre, h["s"], tuple(h["ag"])), set()).add(h["a"] - 1)
                if list(h["nag"]) != py_update(m, list(h["ag"]), h["a"] - 1, h["o"] - 1):
                    raise TLCFailure(f"TLA+ Update differs from the Fraction implementation on case {cid}: {h}")
                pre = pre + ((h["s"], h["a"], h["ns"], h["o"]),)
        for (pre, s, ag), acts in taken.items():
            if acts != py_polsupp(m, s - 1, list(ag)):
                raise TLCFailure(f"TLA+ PolSupp {sorted(acts)} differs from the Fraction implementation "
                                 f"{sorted(py_polsupp(m, s - 1, list(ag)))} on case {cid} at {s}, {ag}")
        if case["oracle"]:
            o = oracles.get(cid)
            if o is None:
                raise TLCFailure(f"mc case {cid}: oracle record missing")
            tv = py_truncv(m, case["cap"])
            tl = as_map_zero(o["tv"])
            for k in range(case["cap"] + 1):
                if [fr(x) for x in tl[k]] != tv[k]:
                    raise TLCFailure(f"TLA+ TruncV differs from the Fraction implementation on case {cid}, k={k}")
            if o["det"] != inst_is_det(m):
                raise TLCFailure("IsDet differs")
            # expectation over all behaviours of the machine == oracle
            tot = F(0)
            for b in behs[cid]:
                pr = F(m["p0"][b["s0"] - 1], m["ID"])
                for h in b["hist"]:
                    pr *= F(m["W"][h["s"] - 1][h["a"] - 1], m["QD"]) * F(m["P"][h["s"] - 1][h["a"] - 1][h["ns"] - 1], m["PD"])
                tot += pr * fr(b["rets"][0])
            want = sum(F(m["p0"][s], m["ID"]) * tv[case["cap"]][s] for s in range(m["N"]))
            if tot != want:
                raise TLCFailure(f"mc case {cid}: probability-weighted return of all behaviours {tot} differs from the "
                                 f"truncated-value oracle {want}")
            ctx.count("mc_cases_expectation_equals_oracle")
    ctx.count("mc_cases", len(cases))
    ctx.count("mc_behaviours", sum(len(v) for v in behs.values()))
    return behs


def as_map_zero(x):
    if isinstance(x, list):
        return {i + 1: v for i, v in enumerate(x)}
    return {int(k): v for k, v in x.items()}


def script_of(m, case, beh):
    items = []
    if case["start"] == 0:
        items.append(("s0", beh["s0"]))
    for h in beh["hist"]:
        items.append(("a", h["a"]))
        items.append(("ns", h["ns"]))
        if m["kind"] == "pomdp":
            items.append(("o", h["o"]))
    return items


# =============================================================================================
# entry points
# =============================================================================================
def add_scripted_jobs(pipe, rng, insts, cases, behs, per_case):
    for cid, case in enumerate(cases, start=1):
        m = insts[case["iid"] - 1]
        bl = behs[cid]
        if len(bl) > per_case:
            bl = rng.sample(bl, per_case)
            pipe.ctx.skip("behaviours of a case beyond the replay budget", len(behs[cid]) - per_case)
        need = {h["s"] - 1 for b in bl for h in b["hist"]} | {b["s0"] - 1 for b in bl} | {b["fin"] - 1 for b in bl}
        rep = rand_rep(rng, m, need_states=need)
        for b in bl:
            pipe.execute(dict(kind="scripted", iid=case["iid"], rep=rep, cap=case["cap"], start=case["start"],
                              ag0=case["ag0"], seed=rng.randrange(10 ** 6), script=script_of(m, case, b),
                              expect=dict(hist=b["hist"], fin=b["fin"], fag=b["fag"])))
            if b["hist"]:
                pipe.ctx.nontrivial(("beh", case["iid"], case["cap"], case["start"],
                                     tuple((h["s"], h["a"], h["ns"], h["o"]) for h in b["hist"])))


def add_random_jobs(pipe, rng, tier, base_iid):
    """pipeline B on bigger instances: real generators, all representations"""
    quick = tier == "quick"
    plan = [("mdp", None)] * (120 if quick else 900) + [("mdpdet", None)] * (40 if quick else 250)
    for pk in ("ctrl", "qb", "alpha"):
        plan += [("pomdp", pk)] * (35 if quick else 220)
    for kind, pk in plan:
        if kind == "pomdp":
            m = make_pomdp_inst(rng, pk, small=False)
        else:
            m = make_mdp_inst(rng, small=False, det=(kind == "mdpdet"))
        pipe.insts.append(m)
        iid = len(pipe.insts)
        N = m["N"]
        for _ in range(2):
            given = [s for s in range(N) if m["abs"][s]][:1] + [rng.randrange(N)] + [0]
            rep = rand_rep(rng, m, need_states=given)
            listed = listed_of(m, rep["explicit_list"])
            maxcap = 8 if m["kind"] == "mdp" else (4 if m["pk"] != "ctrl" else 6)
            if m["GD"] == 10:
                maxcap = min(maxcap, 5)
            caps = [0, 1, rng.randint(2, maxcap), maxcap]
            for cap in caps:
                pipe.execute(dict(kind="roll", iid=iid, rep=rep, cap=cap, start=0, ag0=[], seed=rng.randrange(10 ** 6),
                                  gen=rng.choice(["Random"] * 5 + ["module", "default", "extreme-zero", "extreme-max", "extreme-mix"])))
            for s in dict.fromkeys(given):
                if s not in listed:
                    continue
                ag0 = []
                if m["kind"] == "pomdp" and m["pk"] != "ctrl" and m["p0"][s] == 0:
                    ag0 = [1 if x == s else 0 for x in range(N)]
                elif m["kind"] == "pomdp" and m["pk"] == "ctrl" and rng.random() < 0.4:
                    ag0 = [0] * m["NN"]
                    ag0[rng.randrange(m["NN"])] = 1
                pipe.execute(dict(kind="roll", iid=iid, rep=rep, cap=rng.choice([1, 2, maxcap]), start=s + 1, ag0=ag0,
                                  seed=rng.randrange(10 ** 6),
                                  gen=rng.choice(["Random"] * 4 + ["extreme-zero", "extreme-max"])))
            if m["kind"] == "pomdp":
                # sampled start state together with a GIVEN agent state that is not the policy's default
                if m["pk"] == "ctrl":
                    w = [0] * m["NN"]
                    w[(m["ag0"].index(max(m["ag0"])) + 1) % m["NN"]] = 1
                    dflt = frac_weights([F(x) for x in m["ag0"]])
                else:
                    supp0 = [x for x in range(N) if m["p0"][x] > 0]
                    w = [m["p0"][x] + 1 + supp0.index(x) if x in supp0 else 0 for x in range(N)]
                    extra = [x for x in sorted(listed) if x not in supp0]
                    if extra:
                        w[extra[0]] = 1
                    dflt = frac_weights([F(x) for x in m["p0"]])
                if frac_weights([F(x) for x in w]) != dflt:
                    pipe.execute(dict(kind="roll", iid=iid, rep=rep, cap=rng.choice([0, 1, 2, maxcap]), start=0, ag0=w,
                                      seed=rng.randrange(10 ** 6), gen="Random"))
                    pipe.ctx.count("rollouts_sampled_start_with_given_agentstate")
            if m["kind"] == "pomdp" and m["pk"] == "qb":
                # the same policy object again, now from a given Belief that lists the states in another order and
                # carries the probability vector of the policy's own initial belief (a different belief with equal
                # `probs`): value-based policies read a Belief as (states, probs) pairs, whatever the order
                lab_order = [pipe.problem(pipe.jobs[-1]).slabel.index(x) for x in pipe.problem(pipe.jobs[-1]).env.state_list]
                for _ in range(2):
                    perm = list(lab_order)
                    rng.shuffle(perm)
                    if perm == lab_order or len(perm) < 2:
                        continue
                    w = [0] * N
                    for src, dst in zip(lab_order, perm):
                        w[dst] = m["p0"][src]
                    starts = [x for x in range(N) if w[x] > 0]
                    pipe.execute(dict(kind="roll", iid=iid, rep=rep, cap=rng.choice([1, 2, 4]), start=rng.choice(starts) + 1,
                                      ag0=w, agorder=perm, seed=rng.randrange(10 ** 6), gen="Random"))
                    pipe.ctx.count("rollouts_from_beliefs_in_another_state_order")
            if m["kind"] == "mdp":
                for n in ([1, rng.choice([2, 3, 5])] if quick else [1, 2, rng.choice([3, 5, 8]), 20]):
                    cap = rng.choice([0, 1, 2, 3, 4, 5])
                    pipe.execute(dict(kind="eval", iid=iid, rep=rep, n=n, cap=cap, seed=rng.randrange(10 ** 6),
                                      gen=rng.choice(["Random"] * 4 + ["extreme-zero", "extreme-mix"])))


def make_long_inst(rng, det, slow):
    """small cycling (no absorbing state) or slowly absorbing MDP for the long-horizon family"""
    while True:
        m = make_mdp_inst(rng, small=True, det=det)
        nab = sum(m["abs"])
        if slow != (nab > 0):
            continue
        if any(m["abs"][s] for s in range(m["N"]) if m["p0"][s] > 0):
            continue
        if slow:
            # absorption must be possible but unlikely per step: no sure entry into an absorbing state
            if det or any(m["W"][s][a] > 0 and m["P"][s][a][u] * 2 > m["PD"]
                          for s in range(m["N"]) if not m["abs"][s] for a in range(m["K"])
                          for u in range(m["N"]) if m["abs"][u]):
                continue
        return m


def add_long_jobs(pipe, rng, tier):
    """long-horizon family: caps far beyond any 'effective horizon' of the discount; every (inner) roll-out must
    run to the first absorbing state or to the cap, and the reported tables are the averages of those roll-outs"""
    quick = tier == "quick"
    plan = [(True, False), (False, False), (False, True), (False, False)] * (2 if quick else 6)
    gammas = [(1, 4), (1, 2), (1, 2), (1, 1), (1, 1), (1, 4), (1, 2), (1, 2)]     # deterministic cases: 1/4 and 1
    caps = [40, 80, 150]
    for i, (det, slow) in enumerate(plan):
        m = make_long_inst(rng, det, slow)
        m["GN"], m["GD"] = gammas[i % len(gammas)]
        pipe.insts.append(m)
        iid = len(pipe.insts)
        rep = rand_rep(rng, m)
        cap = caps[i % len(caps)]
        pipe.execute(dict(kind="roll", iid=iid, rep=rep, cap=cap, start=0, ag0=[], seed=rng.randrange(10 ** 6), gen="Random"))
        pipe.execute(dict(kind="eval", iid=iid, rep=rep, n=1 + i % 2, cap=cap, seed=rng.randrange(10 ** 6)))
        pipe.ctx.count("long_horizon_cases", 2)
    # POMDP roll-outs with a functional controller (vertex agent states stay small over long horizons)
    k = 0
    while k < (2 if quick else 6):
        m = make_pomdp_inst(rng, "ctrl", small=True)
        if m["sub"] != "fn" or sum(m["abs"]) > 0:
            continue
        m["GN"], m["GD"] = gammas[k % len(gammas)]
        pipe.insts.append(m)
        pipe.execute(dict(kind="roll", iid=len(pipe.insts), rep=rand_rep(rng, m), cap=caps[k % len(caps)], start=0, ag0=[],
                          seed=rng.randrange(10 ** 6), gen="Random"))
        pipe.ctx.count("long_horizon_cases")
        k += 1


def add_return_jobs(pipe, rng, tier):
    n = 100 if tier == "quick" else 1000
    gs = [(1, 2), (3, 4), (1, 1), (9, 10), (1, 4), (0, 1)]
    for i in range(n):
        L = rng.choice([0, 1, 2, 3, 4, 5, 6, 7])
        RD = rng.choice([1, 1, 2, 4])
        seqrep = SEQREPS[i % len(SEQREPS)]
        if seqrep == "int-array":
            RD = 1
        # one sequence object, returns under one to three discount rates in turn (the same rate may come twice)
        calls = [list(rng.choice(gs)) for _ in range(rng.choice([1, 2, 2, 3]))]
        if any(GD == 10 for _, GD in calls):
            L = min(L, 6)
        rs = [rng.choice([-3, -2, -1, 0, 1, 2, 5]) for _ in range(L)]
        pipe.execute(dict(kind="ret", rs=rs, calls=calls, RD=RD, seqrep=seqrep))


def run(ctx):
    rng = random.Random(ctx.seed * 7919 + 14)
    quick = ctx.tier == "quick"
    ctx.rule = ("a replayed behaviour / validated roll-out counts as non-trivial when it has at least one step "
                "(distinct by instance, cap, start and the (s,a,ns,o) sequence); an evaluation by (instance, "
                "n_simulations, cap); a return computation when the reward sequence has >= 2 entries")
    ctx.assumptions = [
        "rewards are integers (quarters for calc_returns), probabilities k/PD with PD<=4, discount in {1/4,1/2,3/4,9/10,1} "
        "(and 0 for calc_returns) given as floats",
        "evaluate_on with n_simulations = 0 has no averages to report (msdm raises in StateTable.from_dict): out of scope",
        "the action-probability clause is judged against the policy's own action_dist at the recorded state / agent "
        "state; the agent-update clause against the policy's own next_agentstate re-invoked on the recorded arguments; "
        "differences between those and the spec's model of the policy class are DRIFT",
        "belief policies are started inside the support of the initial belief (otherwise Bayes' rule is undefined)",
        "generators: random.Random(seed), the `random` module passed explicitly, run_on's default generator, and "
        "legal extreme generators whose random() returns exactly 0.0 / exactly 1-2**-53 (always, or mixed with ordinary "
        "draws) against distributions that list zero-probability entries first / last; "
        "whether a generator is *used* (reproducibility, isolation) is C13's property, here every generator must give "
        "a valid trajectory",
        "value-based belief policies compare floats: an exactly tied action the real policy drops is not a finding "
        "(the sampled action must still be an exact maximiser of the model)",
        "evaluate_on counts the final record of every roll-out as a visit with return 0 and action None; an "
        "implementation that counts only the steps would be reported as DRIFT, anything else as VIOLATION",
        "msdm.core.pomdp.finitestatecontroller.FiniteStateController cannot be constructed (contradictory shape "
        "assertions, C09) - deterministic controllers are covered by a functional POMDPPolicy subclass",
    ]
    t0 = time.time()
    insts, cases = mc_cases(rng, ctx.tier)
    behs = run_mc(ctx, insts, cases)
    pipe = Pipeline(ctx, insts)
    add_scripted_jobs(pipe, rng, insts, cases, behs, per_case=12 if quick else 60)
    add_random_jobs(pipe, rng, ctx.tier, len(insts))
    add_return_jobs(pipe, rng, ctx.tier)
    add_long_jobs(pipe, rng, ctx.tier)
    ctx.count("jobs", len(pipe.jobs))
    ctx.count("traces", len(pipe.traces))
    ctx.extra["python_phase_s"] = round(time.time() - t0, 1)
    pipe.judge()
    # non-trivial random roll-outs + samples
    for tr, (ji, role) in zip(pipe.traces, pipe.owner):
        if tr["kind"] == "roll" and role == "steps" and pipe.jobs[ji]["kind"] == "roll":
            steps = [e for e in tr["ev"] if e["k"] == "step"]
            if steps:
                ctx.nontrivial(("roll", tr["iid"], tr["cap"], tr["start"], tuple((e["s"], e["a"], e["ns"], e["o"]) for e in steps)))
    for ji in (0, len(pipe.jobs) // 2, len(pipe.jobs) - 1):
        job = pipe.jobs[ji]
        ctx.sample({k: v for k, v in job.items() if k not in ("expect",)})


def replay(ctx, case):
    job = dict(case["job"])
    insts = [case["inst"]] if "inst" in case else []
    if "iid" in job:
        job["iid"] = 1
    if job.get("script") is not None:
        job["script"] = [tuple(x) for x in job["script"]]
    pipe = Pipeline(ctx, insts)
    pipe.execute(job)
    pipe.judge("replay")
    if not ctx.violations:
        print(f"[C14] replay: the stored case no longer fails")


def selftest(ctx):
    """binding: corrupt a logged field / drop an event / corrupt a returned value / hand msdm another instance"""
    rng = random.Random(4242 + ctx.seed)
    insts = []
    while len(insts) < 6:
        m = make_mdp_inst(rng, small=False)
        if sum(m["abs"]) <= 1:
            insts.append(m)
    insts.append(make_pomdp_inst(rng, "ctrl", small=False))
    insts.append(make_pomdp_inst(rng, "qb", small=False))

    def jobs_for(pipe):
        r = random.Random(99)
        for iid, m in enumerate(insts, start=1):
            rep = rand_rep(r, m)
            for cap in (2, 4, 6):
                pipe.execute(dict(kind="roll", iid=iid, rep=rep, cap=cap, start=0, ag0=[], seed=r.randrange(10 ** 6)))
            if m["kind"] == "mdp":
                pipe.execute(dict(kind="eval", iid=iid, rep=rep, n=3, cap=3, seed=r.randrange(10 ** 6)))
        pipe.execute(dict(kind="ret", rs=[1, -2, 3], calls=[[1, 2], [1, 1]], RD=1, seqrep="float64-array"))

    ok = True
    # control: untampered -> nothing detected
    base = len(ctx.violations)
    pipe = Pipeline(ctx, insts)
    jobs_for(pipe)
    pipe.judge("st-control")
    if len(ctx.violations) != base:
        print("  selftest: control run reported violations")
        ok = False
    # find a transition used by some roll-out of instance 1 for the instance tamper
    used = None
    for tr in pipe.traces:
        if tr["kind"] == "roll" and tr["iid"] == 1:
            for e in tr["ev"]:
                if e["k"] == "step":
                    used = (e["s"] - 1, e["a"] - 1, e["ns"] - 1)
                    break
        if used:
            break
    eval_job = next(i for i, j in enumerate(pipe.jobs) if j["kind"] == "eval")
    tampers = [dict(kind="drop-event"), dict(kind="reward-field"), dict(kind="extra-step"),
               dict(kind="eval-value", job=eval_job), dict(kind="ret-value")]
    if used:
        tampers.append(dict(kind="instance", iid=1, sa_n=used))
    for t in tampers:
        before = len(ctx.violations)
        p = Pipeline(ctx, insts, tamper=t)
        jobs_for(p)
        ti = p.apply_trace_tamper()
        if t["kind"] in ("drop-event", "reward-field", "extra-step") and ti is None:
            print(f"  selftest: no trace suitable for tamper {t['kind']}")
            ok = False
            continue
        p.judge("st-" + t["kind"])
        n = len(ctx.violations) - before
        print(f"  selftest tamper={t['kind']}: {n} detection(s)")
        if n == 0:
            ok = False
    return ok
