"""C03 - LAO* with an admissible heuristic returns an optimal closed policy.

Pipeline (spec/C03_LAOStar.tla decides every exact quantity):
  1. TLC "oracle" run over the sampled instances: V*, optimal initial value, instance filter
     (well formed, <= 3 non-absorbing states, proper when undiscounted).
  2. TLC "mc" run over a sub-family: the reference machine explores *all* behaviours (every initial
     order; every action / successor permutation when the ordering flags are on, i.e. all seeds) for
     four admissible heuristics per instance and evaluates the invariants (P) in every state.  The
     behaviours with both flags off are emitted with their step-by-step history (pipeline A).
  3. The real msdm LAOStar is run on msdm objects built from the same instances (several concrete
     representations, label kinds, distribution kinds incl. zero-probability entries) for every
     heuristic kind x flag combination x several seeds, recording - through msdm's own event listener -
     the choices it made and its state after every iteration, and the policy it returned.
  4. TLC "trace" run (pipeline B): every recorded run is re-executed by the reference machine with the
     choices bound to the log (each must be a legal choice), the invariants are evaluated in every
     state, the exact expected state after every iteration is emitted together with V*, the optimal
     initial value and the exact return of the returned policy.
  5. Verdicts: clauses of the statement (convergence flag, initial value, upper bounds, policy domain /
     availability, exact policy return) -> VIOLATION; anything about how the run got there -> DRIFT.
"""
import math
import os
import random
import warnings

# The ladder runs solve dense systems of a few hundred unknowns hundreds of times; a multi-threaded BLAS on a shared,
# loaded machine makes each of them ~100x slower (measured: 70 s vs 0.4 s).  Must be set before numpy is imported.
for _v in ("OMP_NUM_THREADS", "OPENBLAS_NUM_THREADS", "MKL_NUM_THREADS"):
    os.environ.setdefault(_v, "1")
from fractions import Fraction as F

from .. import gen, build, pyoracle
from ..build import frac
from ..core import digest
from ..tlc import run_tlc, TLCFailure

MODULE = "C03_LAOStar"
DESIGN_INVS = ["InstanceOK", "Admissible", "GreedyConsistent", "ReviseOptimal", "GraphWellFormed",
               "TerminalOptimal", "Bounded", "NoRejectInMC"]
CFG_ORACLE = "INIT Init\nNEXT Next\nCHECK_DEADLOCK TRUE\nINVARIANT Emit\n"
CFG_MACHINE = CFG_ORACLE + "".join(f"INVARIANT {i}\n" for i in DESIGN_INVS)
TRACE_INVS = [i for i in DESIGN_INVS if i not in ("GreedyConsistent", "ReviseOptimal")]
CFG_TRACE = CFG_ORACLE + "".join(f"INVARIANT {i}\n" for i in TRACE_INVS)

FAMS = [
    dict(GN=1, GD=1, PD=2, rewards=(-2, -1, 0)),
    dict(GN=1, GD=2, PD=2, rewards=(-2, -1, 0, 1, 2)),
    dict(GN=1, GD=1, PD=2, rewards=(-2, -1, 0, 1)),
    dict(GN=1, GD=1, PD=4, rewards=(-3, -1, 0)),
    dict(GN=1, GD=2, PD=4, rewards=(-2, -1, 0, 1, 3)),
    dict(GN=3, GD=4, PD=2, rewards=(-2, -1, 0, 1, 2)),
    dict(GN=1, GD=1, PD=2, rewards=(-2, -1, 0)),
    dict(GN=9, GD=10, PD=2, rewards=(-2, -1, 0, 1, 2)),
    dict(GN=0, GD=1, PD=2, rewards=(-2, -1, 0, 1, 2)),      # discount_rate = 0 (falsy): a discounted MDP like any other
]

REPS = [
    dict(rep="quick", labels="int", alabels="int", explicit_list=False, dist="dict"),
    dict(rep="subclass", labels="str", alabels="str", explicit_list=False, dist="dict_zeros"),
    dict(rep="quick", labels="tuple", alabels="str", explicit_list=False, dist="det"),
    dict(rep="matrices", labels="frozendict", alabels="int", explicit_list=True, dist="dict"),
    dict(rep="subclass", labels="mixed", alabels="mixed", explicit_list=False, dist="uniform"),
    dict(rep="quick", labels="str", alabels="tuple", explicit_list=True, dist="dict_zeros"),
    dict(rep="quick", labels="mixed", alabels="int", explicit_list=False, dist="dict_zeros"),
    # built by this driver: a plain (non-tabular) QuickMDP whose DictDistributions list a random subset of
    # zero-probability successors (possibly states that are not reachable otherwise)
    dict(rep="sparse", labels="int", alabels="str", explicit_list=False, dist="sparse"),
    dict(rep="sparse", labels="mixed", alabels="tuple", explicit_list=False, dist="sparse"),
]
TIERS = {"quick": dict(n_inst=140, per_inst=6, n_mc=20, mc_cap=120, n_light=24, n_special=16, n_light_special=12, n_ladder=6, n_near_tie=5),
         "thorough": dict(n_inst=1200, per_inst=8, n_mc=160, mc_cap=400, n_light=40, n_special=120, n_light_special=24, n_ladder=30, n_near_tie=14)}
FLAGS = [(0, 0), (1, 1), (0, 1), (1, 0)]
HKINDS = ["const", "exact", "slack", "vslack"]
INST_KEYS = ("N", "K", "PD", "GN", "GD", "ID", "abs", "avail", "P", "R", "p0")


# --------------------------------------------------------------------------------------------
# instances and run configurations
# --------------------------------------------------------------------------------------------
def dag_mdp(rng, f):
    """Member of MDPFam whose non-absorbing states are ordered and only move forward (mostly deterministic,
    several actions): LAO* leaves whole branches unexpanded on these, and every policy is proper."""
    n_na, n_abs, K, PD = rng.choice([2, 3, 3]), rng.choice([1, 2]), rng.choice([2, 3]), f["PD"]
    N = n_na + n_abs
    topo = list(range(N))
    rng.shuffle(topo)
    avail = [[0] * K for _ in range(N)]
    P = [[[0] * N for _ in range(K)] for _ in range(N)]
    R = [[[0] * N for _ in range(K)] for _ in range(N)]
    for i, s in enumerate(topo):
        while not any(avail[s]):
            avail[s] = [1 if rng.random() < 0.8 else 0 for _ in range(K)]
        for a in range(K):
            if i < n_na:
                later = topo[i + 1:]
                if len(later) >= 2 and rng.random() < 0.3:
                    t1, t2 = rng.sample(later, 2)
                    x = rng.randint(1, PD - 1)
                    P[s][a][t1], P[s][a][t2] = x, PD - x
                else:
                    P[s][a][rng.choice(later)] = PD
            else:
                P[s][a] = gen.rand_row(rng, N, PD)        # ghost dynamics of an absorbing state
            for t in range(N):
                R[s][a][t] = rng.choice(f["rewards"])
    ID = rng.choice([2, 4])
    p0 = [0] * N
    if rng.random() < 0.6:
        p0[topo[0]] = ID
    else:
        other = rng.choice(topo[1:])
        p0[topo[0]], p0[other] = ID // 2, ID - ID // 2
    return {"N": N, "K": K, "PD": PD, "GN": f["GN"], "GD": f["GD"], "ID": ID,
            "abs": [1 if topo.index(s) >= n_na else 0 for s in range(N)], "avail": avail, "P": P, "R": R, "p0": p0}


MIRROR_FAMS = [dict(PD=10, GN=1, GD=1, rewards=(-2, -1, 0)), dict(PD=3, GN=1, GD=2, rewards=(-2, -1, 0, 1, 2)),
               dict(PD=7, GN=1, GD=1, rewards=(-2, -1, 0)), dict(PD=3, GN=1, GD=1, rewards=(-2, -1, 0)),
               dict(PD=5, GN=1, GD=2, rewards=(-2, -1, 0, 1, 2)), dict(PD=10, GN=1, GD=1, rewards=(-3, -1, 0, 1)),
               dict(PD=3, GN=3, GD=4, rewards=(-2, -1, 0, 1)), dict(PD=6, GN=1, GD=2, rewards=(-2, -1, 0, 1))]
# (PD = 10 with gamma = 1/2 and PD = 3 with gamma = 9/10 exceed the 30-bit bound of the exact oracle, gen.magnitude_ok;
#  PD = 10 exceeds Exactable: those runs are judged by the oracle and the exact policy evaluation only)


def _composition(rng, total, parts, full):
    """Random composition of `total` over `parts` cells; all cells positive when `full` and possible."""
    if full and total >= parts:
        cuts = sorted(rng.sample(range(1, total), parts - 1))
        return [c - p for p, c in zip([0] + cuts, cuts + [total])]
    out = [0] * parts
    for _ in range(total):
        out[rng.randrange(parts)] += 1
    return out


def mirror_mdp(rng, f):
    """Mirror-tie member of MDPFam: a hub state chooses between two actions that lead into two identical
    stochastic sub-structures (twins u / v with the same actions, probabilities and rewards, looping to
    themselves, to each other and back to the hub), with non-dyadic probabilities (thirds, fifths, sevenths,
    tenths).  The two hub actions, and the twins' values, tie *exactly*, while their floating-point evaluations
    differ by rounding noise."""
    PD, K = f["PD"], rng.choice([2, 2, 3])
    n_abs = rng.choice([1, 1, 1, 2])
    N = 3 + n_abs
    lab = list(range(N))
    rng.shuffle(lab)
    h, u, v = lab[0], lab[1], lab[2]
    goals = lab[3:]
    full = rng.random() < 0.8
    avail = [[0] * K for _ in range(N)]
    P = [[[0] * N for _ in range(K)] for _ in range(N)]
    R = [[[0] * N for _ in range(K)] for _ in range(N)]
    rw = lambda: rng.choice(f["rewards"])
    # hub: actions 0 / 1 are mirror images (same probabilities and rewards, twin u vs twin v)
    x, y, z = _composition(rng, PD, 3, full)          # into the twin / staying at the hub / to a goal
    if x == 0:
        x, z = z, x
    if x == 0:
        x, y = y, x
    r_twin, r_self, r_goal, g0 = rw(), rw(), rw(), rng.choice(goals)
    for a, tw in ((0, u), (1, v)):
        avail[h][a] = 1
        P[h][a][tw], P[h][a][h], P[h][a][g0] = x, y, z
        R[h][a][tw], R[h][a][h], R[h][a][g0] = r_twin, r_self, r_goal
    if K == 3 and rng.random() < 0.4:                 # a third, unrelated hub action
        avail[h][2] = 1
        w = rng.randint(1, PD)
        P[h][2][rng.choice(goals)] += w
        P[h][2][rng.choice([h, u, v])] += PD - w
        for t in range(N):
            R[h][2][t] = rw()
    # twins: identical action sets; every action reaches a goal with positive probability
    acts = [a for a in range(K) if a == 0 or rng.random() < 0.6]
    for a in acts:
        to_goal, to_hub, to_self, to_other = _composition(rng, PD, 4, full)
        if to_goal == 0:
            to_goal, to_self = max(to_self, 1), 0
            to_hub = PD - to_goal - to_other if PD - to_goal - to_other >= 0 else 0
            to_other = PD - to_goal - to_hub
        g = rng.choice(goals)
        rg, rh, rs, ro = rw(), rw(), rw(), rw()
        for me, other in ((u, v), (v, u)):
            avail[me][a] = 1
            P[me][a][g], P[me][a][h], P[me][a][me], P[me][a][other] = to_goal, to_hub, to_self, to_other
            R[me][a][g], R[me][a][h], R[me][a][me], R[me][a][other] = rg, rh, rs, ro
    for g in goals:                                    # ghost dynamics of the absorbing states
        while not any(avail[g]):
            avail[g] = [1 if rng.random() < 0.7 else 0 for _ in range(K)]
        for a in range(K):
            P[g][a] = gen.rand_row(rng, N, PD)
            for t in range(N):
                R[g][a][t] = rw()
    ID = rng.choice([2, 3, 4])
    p0 = [0] * N
    if rng.random() < 0.75:
        p0[h] = ID
    else:
        p0[h], p0[rng.choice([u, v] + goals)] = ID - 1, 1
    return {"N": N, "K": K, "PD": PD, "GN": f["GN"], "GD": f["GD"], "ID": ID,
            "abs": [1 if s in goals else 0 for s in range(N)], "avail": avail, "P": P, "R": R, "p0": p0}


def make_instances(rng, n):
    out = []
    while len(out) < n:
        f = FAMS[len(out) % len(FAMS)]
        und = f["GN"] == f["GD"]
        if len(out) % 5 == 4:
            m = mirror_mdp(rng, MIRROR_FAMS[(len(out) // 5) % len(MIRROR_FAMS)])
            if gen.magnitude_ok(m, QD=6):
                out.append(m)
            continue
        if len(out) % 3 == 2:
            m = dag_mdp(rng, f)
            if gen.magnitude_ok(m, QD=6):
                out.append(m)
            continue
        n_na = rng.choice([1, 2, 2, 3, 3, 3])
        n_abs = rng.choice([1, 1, 2]) if und else rng.choice([0, 1, 1, 2])
        K = rng.choice([1, 2, 2, 3])
        m = gen.rand_mdp(rng, n_na=n_na, n_abs=n_abs, K=K, PD=f["PD"], GN=f["GN"], GD=f["GD"],
                         rewards=f["rewards"], ID=rng.choice([2, 4]),
                         force_progress=und or (n_abs > 0 and rng.random() < 0.5), init_on_abs=0.25)
        if not gen.magnitude_ok(m, QD=6):
            continue
        out.append(m)
    return out


def no_zeros(m):
    N, K = m["N"], m["K"]
    return [[[0] * N for _ in range(K)] for _ in range(N)], [0] * N


def sparse_zeros(rng, m):
    N, K = m["N"], m["K"]
    zl, z0 = no_zeros(m)
    for s in range(N):
        for a in range(K):
            for t in range(N):
                if m["P"][s][a][t] == 0 and rng.random() < 0.3:
                    zl[s][a][t] = 1
        if m["p0"][s] == 0 and rng.random() < 0.12:
            z0[s] = 1
    return zl, z0


BIG = 4000000          # potential scale of the large-magnitude family (a multiple of every GD in use)
EPS_DEN = 10 ** 9      # a rare transition has probability 1 / EPS_DEN


def discount_of(m, rc):
    """The discount handed to msdm; discount 0 is passed as the int 0 or the float 0.0 (both falsy)."""
    if m["GN"] == 0:
        return 0 if rc["lseed"] % 2 else 0.0
    return m["GN"] / m["GD"]


RM_EXP = 20            # small-magnitude family: every reward / heuristic value is multiplied by 2**-20 (exact in floats)


def scale_of(rc):
    fx = rc.get("fx") or {}
    return 2.0 ** -fx["rmexp"] if "rmexp" in fx else 1.0


def offsets(m, rc):
    """B*lev[s] per state for the large-magnitude family (real value = model value - offset), else zeros."""
    fx = rc.get("fx") or {}
    if "lev" in fx:
        return [fx["B"] * x for x in fx["lev"]]
    return [0] * m["N"]


def build_custom(m, rc):
    """A plain (non-tabular) QuickMDP built by this driver.  rc["zl"] / rc["z0"]: zero-probability entries listed by
    the distributions.  rc["fx"] (special families):
      lev, B   potential-based shaping: reward R(s,a,t) - B*lev[s] + gamma*B*lev[t]  (every value of s shifts by -B*lev[s])
      rare     [s, a, x, rho]: (s, a) moves to x with probability 1/EPS_DEN and reward rho*EPS_DEN there; the other
               successors keep their relative weights and pay R - rho (the record m carries R, which includes the
               expected contribution rho of the rare transition: the epsilon -> 0 limit)."""
    from msdm.core.distributions import DictDistribution
    from msdm.core.mdp import QuickMDP
    N, K = m["N"], m["K"]
    lr = random.Random(rc["lseed"])
    sl = build.make_labels(rc["rep"]["labels"], N, "s", lr)
    al = build.make_labels(rc["rep"]["alabels"], K, "a", lr)
    si = {lab: i for i, lab in enumerate(sl)}
    ai = {lab: i for i, lab in enumerate(al)}
    zl, z0 = (rc["zl"], rc["z0"]) if "zl" in rc else no_zeros(m)
    fx = rc.get("fx") or {}
    off = offsets(m, rc)
    rare = fx.get("rare")
    g = F(m["GN"], m["GD"])

    def nsd(s, a):
        i, j = si[s], ai[a]
        if rc.get("eg") and m["abs"][i]:
            return DictDistribution({})
        d = {sl[t]: m["P"][i][j][t] / m["PD"] for t in range(N) if m["P"][i][j][t] > 0 or zl[i][j][t]}
        if rare and (i, j) == (rare[0], rare[1]):
            d = {k: v * (1 - 1 / EPS_DEN) for k, v in d.items()}
            d[sl[rare[2]]] = 1 / EPS_DEN
        return DictDistribution(d)

    def reward(s, a, ns):
        i, j, t = si[s], ai[a], si[ns]
        r = F(m["R"][i][j][t])
        if rare and (i, j) == (rare[0], rare[1]):
            r = F(rare[3] * EPS_DEN) if t == rare[2] else r - rare[3]
        r = r - off[i] + g * off[t]
        return float(r) * scale_of(rc)

    mdp = QuickMDP(
        next_state_dist=nsd, reward=reward,
        actions=lambda s: [al[a] for a in range(K) if m["avail"][si[s]][a]],
        initial_state_dist=lambda: DictDistribution({sl[t]: m["p0"][t] / m["ID"] for t in range(N) if m["p0"][t] > 0 or z0[t]}),
        is_absorbing=lambda s: bool(m["abs"][si[s]]),
        discount_rate=discount_of(m, rc))
    return build.Built(mdp=mdp, m=m, slabel=sl, alabel=al, rep="sparse", explicit_list=False)


def build_for(m, rc):
    if rc["rep"]["rep"] == "sparse":
        return build_custom(m, rc)
    return build.build_mdp(m, rng=random.Random(rc["lseed"]), discount=discount_of(m, rc), **rc["rep"])


def pos_succ(m, rc, s, a):
    """Successors of positive probability in the MDP msdm sees."""
    out = [t for t in range(m["N"]) if m["P"][s][a][t] > 0]
    rare = (rc.get("fx") or {}).get("rare")
    if rare and (s, a) == (rare[0], rare[1]):
        out.append(rare[2])
    return out


def listed_zeros(m, rc):
    """The zero-probability entries the distributions of this run list."""
    rep = rc["rep"]
    if rep["rep"] == "sparse":
        return rc["zl"], rc["z0"]
    N, K = m["N"], m["K"]
    zl, z0 = no_zeros(m)
    if rep["dist"] == "dict_zeros" and rep["rep"] != "matrices":
        listed = set(range(N)) if rep["explicit_list"] else gen.reach(m)
        for s in range(N):
            for a in range(K):
                for t in range(N):
                    if m["P"][s][a][t] == 0 and t in listed:
                        zl[s][a][t] = 1
            if m["p0"][s] == 0 and s in listed:
                z0[s] = 1
    return zl, z0


def heuristic_table(rng, kind, vstar):
    """Admissible heuristics as exact rationals [n, d] per state."""
    if kind == "const":
        c = max([0] + [math.ceil(x) for x in vstar]) + rng.choice([0, 0, 1])
        hs = [F(c)] * len(vstar)
    elif kind == "exact":
        hs = list(vstar)
    elif kind == "slack":
        hs = [x + 1 for x in vstar]
    elif kind == "vslack":
        hs = [x + rng.choice([0, 1, 2]) for x in vstar]
    else:
        raise ValueError(kind)
    return [[h.numerator, h.denominator] for h in hs]


def make_runs(rng, m, vstar, per_instance, fx=None, pair=None):
    """fx: special-family data (see build_custom) - those runs use the driver's own builder; pair: (other instance,
    its V*) - the runs share one LAOStar object with `other` (heuristics admissible for both)."""
    runs = []
    # "every seed": seeds are ints (LAOStar's documented type) - zero, small, negative, beyond 64 bits
    seeds = [0, 1, -1, 2 ** 31 - 1, rng.randrange(10 ** 6), -rng.randrange(1, 10 ** 9), 7, 2 ** 70 + rng.randrange(10 ** 6)]
    kinds = [k for k in HKINDS if not (fx and "lev" in fx and k == "const")]    # a constant cannot bound shifted values
    rng.shuffle(kinds)
    reps = [r for r in REPS if r["rep"] == "sparse"] if fx else [r for r in REPS if r["rep"] != "sparse"] if pair else REPS
    hv = [max(a, b) for a, b in zip(vstar, pair[1])] if pair else vstar
    for k in range(per_instance):
        rao, rno = FLAGS[k % 4]
        hk = kinds[k % len(kinds)]
        rep = dict(reps[rng.randrange(len(reps))])
        rc = {"hk": hk, "H": heuristic_table(rng, hk, hv), "rao": rao, "rno": rno,
              "seed": seeds[(k + rng.randrange(len(seeds))) % len(seeds)], "rep": rep, "lseed": rng.randrange(10 ** 6)}
        if hk == "const":
            rc["hnum"] = CONST_KINDS[rng.randrange(len(CONST_KINDS))]
        if rep["rep"] == "sparse":
            rc["zl"], rc["z0"] = no_zeros(m) if (fx and "rare" in fx) else sparse_zeros(rng, m)
        if rep["rep"] == "sparse" and k % 2 == 0:
            rc["eg"] = 1              # absorbing states list NO successors (empty next_state_dist)
        if fx:
            rc["fx"] = fx
        if pair:
            rc["pair"] = {"role": "first" if k % 3 else "second", "other": pair[0]}
        runs.append({"m": m, "rc": rc})
    return runs


# a constant bound is "a number": the ways a caller may hold the same integer value c
# (np.float32 is left out on purpose: under NumPy's promotion rules a float32 heuristic value turns msdm's own
#  backups `prob * (reward + discount * value)` into single-precision arithmetic - intermediate values deviate by
#  ~1e-8 relative on the unchanged tree, so the 1e-9 clause tolerance would not be sound for that input)
CONST_KINDS = ["int", "float", "np.int64", "np.int32", "np.float64", "Fraction"]


def const_number(kind, c):
    import numpy as np
    c = int(c)
    return {"int": lambda: c, "float": lambda: float(c), "np.int64": lambda: np.int64(c),
            "np.int32": lambda: np.int32(c), "np.float32": lambda: np.float32(c), "np.float64": lambda: np.float64(c),
            "Fraction": lambda: F(c)}[kind]()


def shaped_fx(rng, m):
    """Large-magnitude family: potentials B*lev[s], lev >= 1 at every non-absorbing state."""
    return {"lev": [0 if m["abs"][s] else rng.choice([1, 1, 2, 3]) for s in range(m["N"])], "B": BIG}


def first_improvement_not_optimal(m):
    """Policy iteration started from the uniform policy (as msdm's value revision does) needs more than one
    improvement step on this instance: the greedy policy for the uniform policy's values is not yet optimal."""
    N, K = m["N"], m["K"]
    w = {s: {a: (F(1, sum(m["avail"][s])) if m["avail"][s][a] else F(0)) for a in range(K)}
         for s in range(N) if not m["abs"][s]}
    try:
        v = pyoracle.policy_value(m, w)
    except ZeroDivisionError:
        return False
    if any(x == pyoracle.NEG for x in v):
        return False
    w1 = {}
    for s in w:
        qs = {a: pyoracle.q_from_v(m, v, s, a) for a in gen.avail(m, s)}
        best = max(qs, key=lambda a: (qs[a], -a))
        w1[s] = {a: F(1 if a == best else 0) for a in range(K)}
    v1, vs = pyoracle.policy_value(m, w1), pyoracle.optimal_value(m)
    return any(v1[s] != vs[s] for s in range(N))


def near_tie_instance(m, lo=F(1, 64), hi=F(1, 4)):
    """Small-magnitude family: gamma = 1/2, dyadic probabilities; at an initial state the unique optimal action b
    comes after (in the MDP's action order) an action whose exact Q* is lower by lo..hi; every other non-zero Q* gap
    of the instance is >= lo.  Scaled by 2**-20 the gaps are 1.5e-8 .. 2.4e-7: at least 150 times msdm's own
    rounding step (1e-10) and below a rounding step of 1e-6."""
    if (m["GN"], m["GD"]) != (1, 2) or m["PD"] not in (2, 4):
        return False
    vs = pyoracle.optimal_value(m)
    found = False
    for s in range(m["N"]):
        if m["abs"][s]:
            continue
        qs = {a: pyoracle.q_from_v(m, vs, s, a) for a in gen.avail(m, s)}
        vals = sorted(set(qs.values()))
        if any(0 < y - x < lo for x, y in zip(vals, vals[1:])):
            return False
        if m["p0"][s] > 0:
            best = max(qs.values())
            bs = [a for a in qs if qs[a] == best]
            if len(bs) == 1 and any(a < bs[0] and lo <= best - qs[a] <= hi for a in qs):
                found = True
    return found


_NEAR_TIE = {}


def near_tie_instances(k):
    """The same k instances in every run (fixed generator seed): deterministic members of the quick tier."""
    if k not in _NEAR_TIE:
        rng, out = random.Random(20261003), []
        while len(out) < k:
            out += [m for m in make_instances(rng, 1000) if near_tie_instance(m)]
        _NEAR_TIE[k] = out[:k]
    return _NEAR_TIE[k]


def rare_instance(rng, m):
    """Rare-transition family: (limit-model instance, fx) or None.  One available action of a reachable
    non-absorbing state gets a 1e-9 transition to a state x outside its support, worth rho in expectation."""
    if not 0 < m["GN"] < m["GD"]:
        return None
    reach = gen.reach(m)
    cands = [(s, a, x) for s in sorted(reach) if not m["abs"][s] for a in gen.avail(m, s)
             for x in range(m["N"]) if m["P"][s][a][x] == 0]
    if not cands:
        return None
    s, a, x = rng.choice(cands)
    rho = rng.choice([-20, -12, -6, 6, 12, 20])
    m2 = dict(m)
    m2["R"] = [[list(row) for row in act] for act in m["R"]]
    m2["R"][s][a] = [r + rho for r in m2["R"][s][a]]
    if not gen.magnitude_ok(m2, QD=6):
        return None
    return m2, {"rare": [s, a, x, rho]}


def partner_instance(rng, m):
    """An instance with the same states / actions / dynamics but other rewards and (where the rows allow it) other
    action sets: what a second plan_on of the same planner is given."""
    pool = sorted({x for s in m["R"] for a in s for x in a} | {-2, -1, 0})
    m2 = dict(m)
    m2["R"] = [[[rng.choice(pool) for _ in row] for row in act] for act in m["R"]]
    av = [list(r) for r in m["avail"]]
    for s in range(m["N"]):
        for a in range(m["K"]):
            if sum(m["P"][s][a]) == m["PD"] and rng.random() < 0.4:
                av[s][a] = 1 - av[s][a]
        if not any(av[s]):
            av[s] = list(m["avail"][s])
    m2["avail"] = av
    return m2


# --------------------------------------------------------------------------------------------
# the real code
# --------------------------------------------------------------------------------------------
_LISTENER = None


def listener_class():
    global _LISTENER
    if _LISTENER is None:
        from msdm.algorithms.laostar import LAOStarEventListener

        class Recorder(LAOStarEventListener):
            def __init__(self):
                self.events = []

            def main_lao_star_loop(self, lv):
                eg = lv["explicit_graph"]
                self.events.append({
                    "expand": list(lv["expand_states"]),
                    "anc": list(lv["ancestors"].keys()),
                    "opt": {s: n.optimal_action for s, n in lv["ancestors"].items()},
                    "vals": {s: float(n.value) for s, n in eg.states_to_nodes.items()}})
        _LISTENER = Recorder
    return _LISTENER


def run_real(m, rc):
    """Run msdm's LAOStar; everything is projected to abstract 0-based indices and model units.

    rc["pair"] = {"role": "first" | "second", "other": instance}: the SAME LAOStar object also plans on `other` (an
    instance with the same labels, built with the same representation; the heuristic is admissible for both) - after
    this instance (role first: the result is examined only after the planner was reused) or before it."""
    from msdm.algorithms.laostar import LAOStar
    # building the msdm object is the harness' own business: a failure here is a machinery failure
    b = build_for(m, rc)
    pair = rc.get("pair")
    other = build_for(pair["other"], rc) if pair else None
    H = [frac(x) for x in rc["H"]]
    off = offsets(m, rc)
    sc = scale_of(rc)
    if rc["hk"] == "const" and sc != 1.0:
        heuristic = float(H[0]) * sc
    elif rc["hk"] == "const":
        heuristic = const_number(rc.get("hnum", "int"), H[0]) if H[0].denominator == 1 else float(H[0])     # a number, not a callable
    else:
        hv = {b.slabel[i]: float(H[i] - off[i]) * sc for i in range(m["N"])}
        heuristic = (lambda table: lambda s: table[s])(hv)
    try:
        with warnings.catch_warnings():
            warnings.simplefilter("ignore")
            planner = LAOStar(heuristic=heuristic, randomize_action_order=bool(rc["rao"]),
                              randomize_nextstate_order=bool(rc["rno"]), seed=rc["seed"],
                              event_listener_class=listener_class())
            if pair and pair["role"] == "second":
                planner.plan_on(other.mdp)
            r = planner.plan_on(b.mdp)
            if pair and pair["role"] == "first":
                planner.plan_on(other.mdp)
    except Exception as e:                               # noqa: BLE001 - a clause failure ("reports convergence")
        return {"error": f"{type(e).__name__}: {e}"[:300], "etype": type(e).__name__}
    o0 = sum(F(m["p0"][s], m["ID"]) * off[s] for s in range(m["N"]))
    out = {"converged": bool(r.converged), "initial_value": float(r.initial_value) / sc + float(o0), "iterations": int(r.iterations),
           "mag": float(max(off))}
    try:
        eg = r.explicit_graph
        out["svm"] = {b.sidx(s): float(v) / sc + off[b.sidx(s)] for s, v in r.state_value_map.items()}
        out["init"] = [b.sidx(s) for s in eg.initial_states]
        nodes = {}
        for s, n in eg.states_to_nodes.items():
            nodes[b.sidx(s)] = {
                "ao": [b.aidx(a) for a in n.action_order],
                "ns": {b.aidx(a): [b.sidx(t) for t in lst] for a, lst in n.action_nextstates.items()},
                "vo": int(n.visitorder), "exp": bool(n.expanded), "opt": b.aidx(n.optimal_action),
                "par": sorted(b.sidx(p) for p in n.parent_states), "val": float(n.value) / sc + off[b.sidx(s)]}
        out["nodes"] = nodes
        out["events"] = [{"expand": [b.sidx(s) for s in e["expand"]],
                          "anc": sorted(b.sidx(s) for s in e["anc"]),
                          "opt": {b.sidx(s): b.aidx(a) for s, a in e["opt"].items()},
                          "vals": {b.sidx(s): v / sc + off[b.sidx(s)] for s, v in e["vals"].items()}}
                         for e in r.event_listener.events]
    except Exception as e:                               # noqa: BLE001 - the observation interface changed
        out["obs_error"] = f"{type(e).__name__}: {e}"[:300]
    # the returned policy on everything it reaches itself (absorbing states end a run)
    pol, polerr = {}, None
    todo = [s for s in range(m["N"]) if m["p0"][s] > 0]
    seen = set(todo)
    while todo and polerr is None:
        s = todo.pop()
        try:
            d = r.policy.action_dist(b.slabel[s])
            sup = {}
            for a in d.support:
                p = float(d.prob(a))
                if p > 0:
                    if a not in b.alabel or not m["avail"][s][b.aidx(a)]:
                        polerr = ("unavailable-action", s, repr(a)[:60])
                        break
                    sup[b.aidx(a)] = p
            if polerr is None and (not sup or abs(sum(sup.values()) - 1) > 1e-9):
                polerr = ("not-a-distribution", s, repr(sup)[:80])
        except Exception as e:                           # noqa: BLE001
            if m["abs"][s]:
                out["pol_raises_at_absorbing"] = f"{type(e).__name__}: {e}"[:200]
                continue
            polerr = ("undefined", s, f"{type(e).__name__}: {e}"[:200])
        if polerr is not None:
            break
        pol[s] = sup
        if m["abs"][s]:
            continue
        for a in sup:
            for t in pos_succ(m, rc, s, a):
                if t not in seen:
                    seen.add(t)
                    todo.append(t)
    out["pol"], out["polerr"] = pol, polerr
    return out


# --------------------------------------------------------------------------------------------
# TLC batches
# --------------------------------------------------------------------------------------------
def inst_record(m):
    return {k: m[k] for k in INST_KEYS}


def trace_record(m, rc, real, tag, vs):
    N, K = m["N"], m["K"]
    rec = inst_record(m)
    rec["vs"] = vs
    rec["zl"], rec["z0"] = listed_zeros(m, rc)
    rec.update(hk=rc["hk"], H=rc["H"], rao=rc["rao"], rno=rc["rno"], tag=tag)
    fx = rc.get("fx") or {}
    if "lev" in fx:
        rec["lev"], rec["B"] = fx["lev"], fx["B"]
    if "rare" in fx:
        rec["rare"] = 1
    if rc.get("eg") and rc["rep"]["rep"] == "sparse":
        rec["eg"] = 1
    nodes = real.get("nodes", {})
    log = {"init": [s + 1 for s in real.get("init", [])],
           "ao": [[a + 1 for a in nodes[s]["ao"]] if s in nodes else [] for s in range(N)],
           "ns": [[[t + 1 for t in nodes[s]["ns"].get(a, [])] if s in nodes else [] for a in range(K)] for s in range(N)],
           "iters": [{"s": (e["expand"][0] + 1) if e["expand"] else 0,
                      "opt": [e["opt"].get(s, -1) + 1 for s in range(N)]} for e in real.get("events", [])]}
    rec["log"] = log
    polok = real.get("polerr") is None and "pol" in real
    pol = []
    for s in range(N):
        sup = real.get("pol", {}).get(s)
        if sup and polok:
            ps = list(sup.values())
            if any(abs(p - 1 / len(ps)) > 1e-9 for p in ps):
                polok = False            # not uniform over its support: outside the exact judge (counted)
            pol.append([1 if a in sup else 0 for a in range(K)])
        else:
            pol.append(list(m["avail"][s]))       # never reached by the policy: irrelevant for its return
    rec["pol"], rec["polok"] = pol, 1 if polok else 0
    return rec


def tlc_oracle(ctx, instances, name="oracle"):
    batch = []
    for m in instances:
        rec = inst_record(m)
        rec["zl"], rec["z0"] = no_zeros(m)
        batch.append(rec)
    res = run_tlc(ctx.workdir / name, MODULE, CFG_ORACLE, files={"batch.json": batch},
                  env={"BATCH_FILE": "batch.json", "MODE": "oracle"})
    ctx.add_tlc(res, "oracle: V*, optimal initial value and instance filter per instance")
    by = {r["iid"]: r for r in res.records if r.get("kind") == "oracle"}
    if len(by) != len(instances):
        raise TLCFailure(f"oracle run returned {len(by)} records for {len(instances)} instances")
    return [by[i] for i in range(1, len(instances) + 1)]


def check_design(res, what):
    bad = sorted({v for v in res.violated if v in DESIGN_INVS})
    if bad:
        raise TLCFailure(f"design-level invariant violated in {MODULE} ({what}): {bad}\n"
                         + (res.traces[0][:4000] if res.traces else ""))
    other = sorted({v for v in res.violated if v not in DESIGN_INVS})
    if other:
        raise TLCFailure(f"TLC reported {other} in {MODULE} ({what})\n" + (res.traces[0][:4000] if res.traces else ""))


def behaviours_estimate(m, rao, rno):
    """Upper bound on the number of behaviours of the reference machine (all permutations)."""
    N, K = m["N"], m["K"]
    seen = {s for s in range(N) if m["p0"][s] > 0}
    todo = list(seen)
    while todo:
        s = todo.pop()
        for a in gen.avail(m, s):
            for t in range(N):
                if m["P"][s][a][t] > 0 and t not in seen:
                    seen.add(t)
                    todo.append(t)
    n = math.factorial(sum(1 for s in range(N) if m["p0"][s] > 0))
    for s in seen:
        if rao:
            n *= math.factorial(len(gen.avail(m, s)))
        if rno:
            for a in gen.avail(m, s):
                n *= math.factorial(sum(1 for t in range(N) if m["P"][s][a][t] > 0))
    return n


# --------------------------------------------------------------------------------------------
# comparing a real run with the behaviour the machine produced
# --------------------------------------------------------------------------------------------
def near(x, exact, tol=0.0):
    return abs(x - float(exact)) <= tol + 1e-9 * max(1.0, abs(float(exact)))


def rounding_window(m):
    """msdm's policy iteration ranks actions by Q rounded to 10 decimals, so a discounted run may settle for an
    action that is worse by < 1e-10; over the effective horizon 1/(1-gamma) that is worth at most this much.
    (Undiscounted families have PD*GD <= 4: exact Q gaps are >= 1/384^2, far outside the window.)"""
    g = m["GN"] / m["GD"]
    return 1e-10 / (1 - g) if g < 1 else 0.0


def run_tolerance(m, rc, o=None):
    """Absolute slack of one run on top of 1e-9 relative: (value slack, policy-return slack).

    * rounding window of msdm's policy iteration (see rounding_window);
    * large-magnitude family: the real numbers are model value - B*lev, compared at 1e-9 relative to THEIR size;
    * rare-transition family: the record is the eps -> 0 limit of the real MDP.  With Rs = max |reward| of the limit
      model (it includes rho = eps * big) every policy value of either model is bounded by Vb = Rs / (1 - gamma), the
      two Bellman operators differ by at most d = eps * (Rs + 2 * gamma * Vb) at any such value function, hence
      optimal values and policy returns of the two models differ by at most d / (1 - gamma); a policy optimal for
      the real MDP is within 2 d / (1 - gamma) of the optimum of the limit model."""
    fx = rc.get("fx") or {}
    tol = rounding_window(m)
    if "lev" in fx:
        tol += 1e-9 * fx["B"] * max(fx["lev"])
    ptol = rounding_window(m)
    if "rmexp" in fx:
        # real numbers = model * 2**-rmexp (a power of two: the conversion itself is exact).  Real values are compared
        # at 1e-9 absolute plus msdm's own rounding window, the exact policy return at the rounding window alone
        # (2e-10 absolute at gamma = 1/2); both expressed in model units here.
        sc = 2.0 ** -fx["rmexp"]
        tol = (rounding_window(m) + 1e-9) / sc
        ptol = rounding_window(m) / sc
    if "rare" in fx:
        g = m["GN"] / m["GD"]
        rs = max(abs(x) for s in m["R"] for a in s for x in a) + abs(fx["rare"][3])
        vb = rs / (1 - g)
        d = (rs + 2 * g * vb) / EPS_DEN / (1 - g)
        tol += d
        ptol += 2 * d
    return tol, ptol


def compare_steps(real, rec, follow_log, tol=0.0):
    """('equal' | 'tie' | 'drift', detail).  rec: machine record with inits / hist / nodes (1-based)."""
    if "obs_error" in real:
        return "drift", f"could not observe the run: {real['obs_error']}"
    ev, hist = real["events"], rec["hist"]
    if [s + 1 for s in real["init"]] != list(rec["inits"]):
        return "drift", f"initial order {real['init']} vs machine {rec['inits']}"
    prev_vals = None
    for i, h in enumerate(hist):
        if i >= len(ev):
            return "drift", f"real run stopped after {len(ev)} iterations, the machine needs {len(hist)}"
        e = ev[i]
        if e["expand"] != [h["s"] - 1]:
            if not follow_log and len(e["expand"]) == 1 and prev_vals is not None:
                a, b_ = e["expand"][0], h["s"] - 1
                if a in prev_vals and b_ in prev_vals and 0 < prev_vals[a] - prev_vals[b_] <= 1e-9 + tol:
                    return "tie", f"iteration {i}: tips {a} / {b_} tie in floating point"
            return "drift", f"iteration {i}: expanded {e['expand']} vs machine {h['s'] - 1}"
        if set(e["anc"]) != {z - 1 for z in h["Z"]}:
            return "drift", f"iteration {i}: ancestors {sorted(e['anc'])} vs machine {sorted(z - 1 for z in h['Z'])}"
        held = {s for s in range(len(h["val"])) if h["val"][s][1] != 0}
        if set(e["vals"]) != held:
            return "drift", f"iteration {i}: visited {sorted(e['vals'])} vs machine {sorted(held)}"
        for s in held:
            if not near(e["vals"][s], frac(h["val"][s]), tol):
                return "drift", f"iteration {i}: value of {s} is {e['vals'][s]} vs machine {frac(h['val'][s])}"
        for z in h["Z"]:
            if e["opt"].get(z - 1) != h["opt"][z - 1] - 1:
                if e["opt"].get(z - 1, -9) + 1 in h["mx"][z - 1]:
                    return "tie", f"iteration {i}: best action of {z - 1} is another exact maximiser"
                return "drift", f"iteration {i}: best action of {z - 1} is {e['opt'].get(z - 1)} vs machine {h['opt'][z - 1] - 1}"
        prev_vals = e["vals"]
    if len(ev) != len(hist):
        return "drift", f"real run has {len(ev)} iterations, the machine terminates after {len(hist)}"
    for s, nd in enumerate(rec["nodes"]):
        rn = real["nodes"].get(s)
        if (nd["vo"] > 0) != (rn is not None):
            return "drift", f"final graph: node {s} present={rn is not None} vs machine {nd['vo'] > 0}"
        if rn is None:
            continue
        mine = (rn["vo"] + 1, [a + 1 for a in rn["ao"]], 1 if rn["exp"] else 0, rn["opt"] + 1, [p + 1 for p in rn["par"]],
                [[t + 1 for t in rn["ns"].get(a, [])] for a in range(len(nd["ns"]))])
        theirs = (nd["vo"], list(nd["ao"]), nd["exp"], nd["opt"], sorted(nd["par"]), [list(x) for x in nd["ns"]])
        if mine != theirs:
            return "drift", f"final graph: node {s} is {mine} vs machine {theirs}"
    return "equal", ""


# One signature for one phenomenon of the unchanged tree (found by the large-magnitude family): the value revision
# ranks actions by Q rounded to 10 *decimals*; at |Q| ~ 1e6..1e7 that is below the float resolution of Q, so exactly
# tied actions are ranked by cancellation noise, the inner policy iteration alternates between them and
# `assert converged` fails.  The same instance with rewards of ordinary size converges.
LARGE_TIE_SIG = "C03:ExplicitStateGraph._policy_iteration[assert converged]:large-magnitude-exact-tie"
LARGE_TIE_WHAT = ("LAOStar.plan_on raises AssertionError (inner policy iteration alternates between exactly tied actions) when "
                  "rewards / values are of size ~1e6-1e7: Q is rounded to 10 decimals, which is below float resolution there")


def large_magnitude_tie_failure(rc, o):
    return o.get("etype") == "AssertionError" and "lev" in (rc.get("fx") or {})


def shape_of(m, rc):
    und = m["GN"] == m["GD"]
    absinit = any(m["p0"][s] > 0 and m["abs"][s] for s in range(m["N"]))
    fx = rc.get("fx") or {}
    return (("undiscounted" if und else "discounted-0" if m["GN"] == 0 else "discounted") + ("/abs-init" if absinit else "")
            + ("/large-magnitude" if "lev" in fx else "") + ("/small-magnitude-near-tie" if "rmexp" in fx else "") + ("/rare-transition" if "rare" in fx else "")
            + ("/planner-reused" if rc.get("pair") else "") + f"/h={rc['hk']}")


def qstar_differs(m, vstar):
    for s in range(m["N"]):
        if m["abs"][s]:
            continue
        qs = {pyoracle.q_from_v(m, vstar, s, a) for a in gen.avail(m, s)}
        if len(qs) > 1:
            return True
    return False


def run_key(run):
    return digest({"m": run["m"], "rc": run["rc"]})


def judge_runs(ctx, runs, reals=None, mcref=None):
    """runs: [{m, rc[, vs]}] ; reals: injected results of the real code (selftest) ; mcref: {run index: mc record}.

    vs = V* as emitted by the oracle run; computed here (with the instance filter) when missing (replay)."""
    todo = [r for r in runs if "vs" not in r]
    if todo:
        distinct = {}
        for r in todo:
            distinct.setdefault(digest(r["m"]), r["m"])
        keys = list(distinct)
        orc = tlc_oracle(ctx, [distinct[k] for k in keys], name="oracle-replay")
        byk = dict(zip(keys, orc))
        for r in todo:
            o = byk[digest(r["m"])]
            f = o["filter"]
            if not (f["wf"] and f["few"] and f["acts"] and f["proper"]):
                raise TLCFailure("replayed instance does not satisfy the preconditions of the statement")
            r["vs"] = o["v"]
    if reals is None:
        reals = [run_real(r["m"], r["rc"]) for r in runs]
    ctx.evaluations += len(runs)
    batch, pos = [], {}
    for i, (r, o) in enumerate(zip(runs, reals)):
        if "error" in o:
            continue
        pos[i] = len(batch) + 1
        batch.append(trace_record(r["m"], r["rc"], o, i, r["vs"]))
    by = {}
    chunk = 1500
    for k in range(0, len(batch), chunk):
        part = batch[k:k + chunk]
        res = run_tlc(ctx.workdir / f"trace{k}", MODULE, CFG_MACHINE, files={"batch.json": part},
                      env={"BATCH_FILE": "batch.json", "MODE": "trace"})
        ctx.add_tlc(res, "trace: reference machine re-executes the recorded runs, (P) in every state, exact judge of the returned policy")
        check_design(res, "trace mode")
        for rec in res.records:
            if rec.get("kind") == "trace":
                by[rec["tag"]] = rec
    for i, (r, o) in enumerate(zip(runs, reals)):
        judge_one(ctx, i, r, o, by.get(i), (mcref or {}).get(i))


def judge_one(ctx, i, run, o, rec, mcrec):
    m, rc = run["m"], run["rc"]
    shape = shape_of(m, rc)
    ok = True

    def fail(site, what, extra=None):
        nonlocal ok
        ok = False
        ctx.violation(f"C03:{site}:{shape}", f"{site}: {what}", {"m": m, "rc": rc, "site": site, "extra": extra})

    if "error" in o:
        if large_magnitude_tie_failure(rc, o):
            ok = False
            ctx.violation(LARGE_TIE_SIG, LARGE_TIE_WHAT, {"m": m, "rc": rc, "site": "LAOStar.plan_on", "extra": o["error"]})
            return
        fail(f"LAOStar.plan_on[raised {o['etype']}]", f"raised {o['error']} on a valid instance (no convergence reported)")
        return
    if rec is None:
        raise TLCFailure(f"no trace record for run {i}")
    N = m["N"]
    vstar = [frac(x) for x in rec["v"]]
    vinit = frac(rec["vinit"])
    if any(not isinstance(x, F) for x in vstar) or not isinstance(vinit, F):
        raise TLCFailure(f"non-finite optimal value on a filtered instance (run {i}): {rec['v']}")
    # machinery cross-checks against the independent Fraction implementation
    if i % 7 == 0:
        pv = pyoracle.optimal_value(m)
        if any(pv[s] != vstar[s] for s in range(N)):
            raise TLCFailure(f"TLA+ V* and Python V* disagree (run {i}): {vstar} vs {pv}")
        ctx.count("oracle_crosschecks")
    # ---- clause: LAO* reports convergence
    if o["converged"] is not True:
        fail("PlanningResult.converged", f"converged={o['converged']} after {o['iterations']} iterations")
    # ---- clause: initial value = optimal value of the initial distribution
    rw, ptol = run_tolerance(m, rc)
    if not near(o["initial_value"], vinit, rw):
        fail("PlanningResult.initial_value", f"initial_value={o['initial_value']} but the optimum is {vinit} = {float(vinit)}"
             + (" (model units: B*lev added back)" if o.get("mag") else ""), {"vstar": [str(x) for x in vstar]})
    # ---- clause: every held value is an upper bound on V*
    for s, v in sorted(o.get("svm", {}).items()):
        if not (v >= float(vstar[s]) - rw - 1e-9 * max(1.0, abs(float(vstar[s])))):
            fail("PlanningResult.state_value_map", f"value {v} held for state {s} is below V*={vstar[s]} = {float(vstar[s])}")
            break
    if "svm" not in o:
        ctx.count("state_value_map_unobservable")
    # ---- clause: policy defined on its own closure, available actions only
    if o["polerr"] is not None:
        kind, s, det = o["polerr"]
        fail(f"PlanningResult.policy[{kind}]", f"policy at reachable state {s}: {kind} ({det})")
    # ---- clause: exact return of the returned policy is optimal (decided by the spec)
    if o["polerr"] is None:
        if rec["pinit"][1] == 0 and rec["pinit"][0] == 0:
            ctx.count("policy_not_uniform_over_support_judge_skipped")
        else:
            pinit = frac(rec["pinit"])
            if rec["polopt"] != 1 and 0 <= float(vinit - pinit) <= ptol:
                ctx.count("policy_return_within_derived_window")
            elif rec["polopt"] != 1:
                fail("PlanningResult.policy[return]", f"exact return of the returned policy is {pinit} but the optimum is {vinit}",
                     {"pol": {str(k): v for k, v in o["pol"].items()}})
            if i % 7 == 0:
                w = {}
                for s in range(N):
                    if not m["abs"][s]:
                        row = _pol_row(m, o, s)
                        w[s] = {a: (F(1, sum(row)) if row[a] else F(0)) for a in range(m["K"])}
                pv = pyoracle.policy_value(m, w)
                mine = [frac(x) for x in rec["pv"]]
                if any((pv[s] == pyoracle.NEG) != (mine[s] == float("-inf")) or (pv[s] != pyoracle.NEG and pv[s] != mine[s])
                       for s in range(N)):
                    raise TLCFailure(f"TLA+ policy value and Python policy value disagree (run {i}): {mine} vs {pv}")
                ctx.count("judge_crosschecks")
    if o.get("pol_raises_at_absorbing"):
        ctx.drift("policy-at-absorbing-state", {"run": run_key(run), "what": o["pol_raises_at_absorbing"]})
    # ---- DRIFT level: the reference machine explains the run step by step
    explained = False
    if rec["phase"] == "cut":
        ctx.skip("exactness cut: machine integers would leave 30 bits (" + rec["note"][-1]["w"] + ")")
    elif rec["phase"] == "reject":
        nt = rec["note"][-1]
        ctx.drift("trace-rejected:" + nt["w"], {"run": run_key(run), "iteration": nt["i"], "shape": shape})
    else:
        st, det = compare_steps(o, rec, follow_log=True, tol=rw)
        ties = [n for n in rec["note"] if n["w"] == "tip-not-exact-best"]
        bad = [n for n in rec["note"] if n["w"] == "best-action-not-a-maximiser"]
        if st == "drift":
            ctx.drift("machine-vs-run", {"run": run_key(run), "detail": det[:200], "shape": shape})
        elif bad:
            ctx.drift("best-action-not-a-maximiser", {"run": run_key(run), "iteration": bad[0]["i"], "state": bad[0]["x"] - 1})
        elif ties and not _tips_tie_in_float(o, rc, ties, rw):
            ctx.drift("tip-not-best", {"run": run_key(run), "iteration": ties[0]["i"]})
        else:
            explained = True
            if ties:
                ctx.count("float_tie_tip_choices")
    if mcrec is not None and "obs_error" not in o:
        st, det = compare_steps(o, mcrec, follow_log=False)
        if st == "equal":
            ctx.count("A_behaviours_replayed_equal")
        elif st == "tie":
            ctx.count("A_behaviours_float_tie")
        else:
            explained = False
            ctx.drift("mc-behaviour-vs-run", {"run": run_key(run), "detail": det[:200]})
    if ok and explained:
        ctx.validated += 1
    # ---- evidence
    ev = o.get("events", [])
    cc = ctx.extra.setdefault("config_counts", {})
    for key in (f"h={rc['hk']}", f"rao={rc['rao']},rno={rc['rno']}", f"rep={rc['rep']['rep']}/{rc['rep']['labels']}/{rc['rep']['dist']}",
                "gamma=%d/%d" % (m["GN"], m["GD"]), "init:" + ("absorbing" if "abs-init" in shape else "regular")
                + ("/several" if sum(1 for x in m["p0"] if x > 0) > 1 else "")):
        cc[key] = cc.get(key, 0) + 1
    ctx.count("real_iterations", len(ev))
    if rec["phase"] == "done":
        ctx.count("machine_Start", 1)
        ctx.count("machine_Expand", rec["its"])
        ctx.count("machine_Revise", rec["its"])
        ctx.count("machine_Terminate", 1)
    if (sum(1 for x in m["abs"] if not x) >= 2 and len(ev) >= 2 and any(len(e["anc"]) >= 2 for e in ev)
            and qstar_differs(m, vstar)):
        ctx.nontrivial(run_key(run))
    ctx.sample({"instance": inst_record(m), "config": rc, "vstar": [str(x) for x in vstar], "vinit": str(vinit),
                "real": {"converged": o["converged"], "initial_value": o["initial_value"], "iterations": o["iterations"],
                         "expanded": [e["expand"] for e in ev], "ancestors": [e["anc"] for e in ev]},
                "machine": {"phase": rec["phase"], "its": rec["its"], "pinit": rec["pinit"]}})


def judge_light(ctx, run, o, vstar, vinit):
    """Extra executions on the mirror-tie family, judged against the oracle run only (no machine, no exact policy
    judge): plan_on returns, reports convergence, optimal initial value, upper bounds, policy domain / availability."""
    m, rc = run["m"], run["rc"]
    shape = shape_of(m, rc) + ("" if rc.get("fx") else "/mirror-tie")
    ctx.evaluations += 1
    ctx.count("light_runs")

    def fail(site, what):
        ctx.violation(f"C03:{site}:{shape}", f"{site}: {what}", {"m": m, "rc": rc, "site": site, "extra": "light"})

    if "error" in o:
        if large_magnitude_tie_failure(rc, o):
            ctx.violation(LARGE_TIE_SIG, LARGE_TIE_WHAT, {"m": m, "rc": rc, "site": "LAOStar.plan_on", "extra": o["error"]})
            return
        fail(f"LAOStar.plan_on[raised {o['etype']}]", f"raised {o['error']} on a valid instance (no convergence reported)")
        return
    rw, _ = run_tolerance(m, rc)
    if o["converged"] is not True:
        fail("PlanningResult.converged", f"converged={o['converged']} after {o['iterations']} iterations")
    if not near(o["initial_value"], vinit, rw):
        fail("PlanningResult.initial_value", f"initial_value={o['initial_value']} but the optimum is {vinit} = {float(vinit)}")
    for s, v in sorted(o.get("svm", {}).items()):
        if not (v >= float(vstar[s]) - rw - 1e-9 * max(1.0, abs(float(vstar[s])))):
            fail("PlanningResult.state_value_map", f"value {v} held for state {s} is below V*={vstar[s]} = {float(vstar[s])}")
            break
    if o["polerr"] is not None:
        kind, s, det = o["polerr"]
        fail(f"PlanningResult.policy[{kind}]", f"policy at reachable state {s}: {kind} ({det})")


def _pol_row(m, o, s):
    sup = o["pol"].get(s)
    return [1 if a in sup else 0 for a in range(m["K"])] if sup else list(m["avail"][s])


def _tips_tie_in_float(o, rc, ties, tol=0.0):
    """Every flagged tip choice is explained by rounding noise in the values the real code held at that time."""
    ev = o.get("events", [])
    for n in ties:
        i = n["i"] - 1                      # iteration (0-based) in which the choice was made
        if i >= len(ev) or not ev[i]["expand"]:
            return False
        before = ev[i - 1]["vals"] if i > 0 else {s: float(frac(rc["H"][s])) for s in o["init"]}
        chosen, best = ev[i]["expand"][0], n["x"] - 1
        # the code takes the largest float: only a float that is larger by rounding noise excuses the choice
        if chosen not in before or best not in before or not (0 < before[chosen] - before[best] <= 1e-9 + tol):
            return False
    return True



# --------------------------------------------------------------------------------------------
# ladders: large instances given structurally (spec mode "chain")
# --------------------------------------------------------------------------------------------
def ladder_case(rng):
    """n = 215..260 rungs; rung k uses gadget k mod G: one non-absorbing state whose actions stay with probability
    stay/PD and climb otherwise (PD = 3, 7, 10: not representable in single precision), rewards <= 0."""
    PD, G, K = rng.choice([3, 10, 7, 10]), rng.choice([1, 2, 3]), rng.choice([2, 3])
    gs = []
    for _ in range(G):
        av = [0] * K
        while sum(av) < min(2, K):
            av = [1 if rng.random() < 0.8 else 0 for _ in range(K)]
        P = [[[0, 0] for _ in range(K)] for _ in range(2)]
        R = [[[0, 0] for _ in range(K)] for _ in range(2)]
        for a in range(K):
            stay = rng.randint(0, PD - 1)
            P[0][a] = [stay, PD - stay]
            R[0][a] = [rng.choice([-3, -2, -1, 0]), rng.choice([-3, -2, -1])]
            P[1][a] = [0, PD]
        gs.append({"N": 2, "K": K, "PD": PD, "GN": 1, "GD": 1, "ID": 2, "abs": [0, 1], "avail": [av, [1] * K],
                   "P": P, "R": R, "p0": [2, 0]})
    return {"gs": gs, "n": rng.randint(215, 260)}


def quit_ladder_case(rng, lo, hi):
    """A ladder whose rungs also have a `quit` action (to the goal at once, paying q < value of the first rung):
    revised as a whole from the uniform policy, climbing becomes attractive one rung further from the top per
    improvement round of msdm's inner policy iteration."""
    case = ladder_case(rng)
    case["n"] = rng.randint(lo, hi)
    lv1 = F(0)
    for k in range(case["n"]):
        g = case["gs"][k % len(case["gs"])]
        lv1 += max(F(g["P"][0][a][0] * g["R"][0][a][0] + g["P"][0][a][1] * g["R"][0][a][1], g["P"][0][a][1])
                   for a in range(g["K"]) if g["avail"][0][a])
    case["q"] = math.floor(lv1) - rng.randint(1, case["n"])
    return case


def run_ladder(case, rc):
    """The real LAOStar on the ladder; returns abstract results (rung index 0..n-1, goal = n)."""
    from msdm.algorithms.laostar import LAOStar
    from msdm.core.distributions import DictDistribution
    from msdm.core.mdp import QuickMDP
    gs, n = case["gs"], case["n"]
    G, K, PD = len(gs), gs[0]["K"], gs[0]["PD"]
    lab = (lambda k: k) if rc["labels"] == "int" else (lambda k: ("rung", k))
    idx = {lab(k): k for k in range(n + 1)}
    al = [f"a{a}" for a in range(K)]
    ai = {a: i for i, a in enumerate(al)}
    q = case.get("q", 0)

    def gad(k):
        return gs[k % G]

    def nsd(s, a):
        if a == "quit":
            return DictDistribution({lab(n): 1.0})
        k, j = idx[s], ai[a]
        if k == n:
            return DictDistribution({s: 1.0})
        stay, climb = gad(k)["P"][0][j]
        d = {lab(k + 1): climb / PD}
        if stay:
            d[s] = stay / PD
        return DictDistribution(d)

    def reward(s, a, ns):
        if a == "quit":
            return float(q)
        k, j = idx[s], ai[a]
        if k == n:
            return 0.0
        return float(gad(k)["R"][0][j][0 if ns == s else 1])
    mdp = QuickMDP(next_state_dist=nsd, reward=reward,
                   actions=lambda s: [al[a] for a in range(K) if idx[s] == n or gad(idx[s])["avail"][0][a]]
                   + (["quit"] if q and idx[s] != n else []),
                   initial_state_dist=DictDistribution({lab(0): 1.0}), is_absorbing=lambda s: idx[s] == n, discount_rate=1.0)
    try:
        with warnings.catch_warnings():
            warnings.simplefilter("ignore")
            r = LAOStar(heuristic=const_number(rc["hnum"], rc["hc"]), randomize_action_order=bool(rc["rao"]),
                        randomize_nextstate_order=bool(rc["rno"]), seed=rc["seed"]).plan_on(mdp)
    except Exception as e:                               # noqa: BLE001 - a clause failure ("reports convergence")
        return {"error": f"{type(e).__name__}: {e}"[:300], "etype": type(e).__name__}
    out = {"converged": bool(r.converged), "initial_value": float(r.initial_value),
           "svm": {idx[s]: float(v) for s, v in r.state_value_map.items()}}
    pol, polerr = {}, None
    out["quits"] = []
    for k in range(n):                                   # every rung is reached with positive probability
        try:
            d = r.policy.action_dist(lab(k))
            sup = {}
            for a in d.support:
                p = float(d.prob(a))
                if p > 0:
                    if a == "quit" and q:
                        out["quits"].append(k)
                        sup["quit"] = p
                        continue
                    if a not in ai or not gad(k)["avail"][0][ai[a]]:
                        polerr = ("unavailable-action", k, repr(a)[:60])
                        break
                    sup[ai[a]] = p
            if polerr is None and (not sup or abs(sum(sup.values()) - 1) > 1e-9):
                polerr = ("not-a-distribution", k, repr(sup)[:80])
        except Exception as e:                           # noqa: BLE001
            polerr = ("undefined", k, f"{type(e).__name__}: {e}"[:200])
        if polerr is not None:
            break
        pol[k] = sup
    out["pol"], out["polerr"] = pol, polerr
    return out


def judge_ladders(ctx, cases, reals=None):
    """cases: [{ladder, rc}].  One TLC run in mode "chain": exact value of every rung, exact return of the policy."""
    if reals is None:
        reals = [run_ladder(c["ladder"], c["rc"]) for c in cases]
    ctx.evaluations += len(cases)
    batch = []
    for i, (c, o) in enumerate(zip(cases, reals)):
        gs, n = c["ladder"]["gs"], c["ladder"]["n"]
        polok = "error" not in o and o["polerr"] is None
        groups = {}
        quits = len(o.get("quits", []))
        if polok:
            for k in range(n):
                sup = o["pol"][k]
                if "quit" in sup:
                    if k == o["quits"][0]:
                        break                             # nothing above the first quitting rung is reached
                    continue
                if any(abs(p - 1 / len(sup)) > 1e-9 for p in sup.values()):
                    polok = False
                    break
                key = (k % len(gs), tuple(sorted(sup)))
                groups[key] = groups.get(key, 0) + 1
        pols = [{"g": g + 1, "pol": [[1 if a in sup else 0 for a in range(gs[g]["K"])], [1] * gs[g]["K"]], "cnt": cnt}
                for (g, sup), cnt in sorted(groups.items())] if polok else []
        rec_ = {"gs": gs, "n": n, "hc": c["rc"]["hc"], "pols": pols, "polok": 1 if polok else 0, "tag": i, "quits": quits}
        if c["ladder"].get("q"):
            rec_["q"] = c["ladder"]["q"]
        batch.append(rec_)
    res = run_tlc(ctx.workdir / "chain", MODULE, CFG_ORACLE + "INVARIANT InstanceOK\n", files={"batch.json": batch},
                  env={"BATCH_FILE": "batch.json", "MODE": "chain"})
    ctx.add_tlc(res, "chain: ladders of 215-260 rungs given structurally: exact rung values and exact return of the returned policy")
    check_design(res, "chain mode")
    by = {r["tag"]: r for r in res.records if r.get("kind") == "chain"}
    for i, (c, o) in enumerate(zip(cases, reals)):
        rec = by.get(i)
        if rec is None:
            raise TLCFailure(f"no chain record for ladder {i}")
        n, rc = c["ladder"]["n"], c["rc"]
        shape = f"undiscounted/ladder>200/h=const[{rc['hnum']}]"
        ok = True

        def fail(site, what):
            nonlocal ok
            ok = False
            ctx.violation(f"C03:{site}:{shape}", f"{site}: {what}", {"ladder": c["ladder"], "rc": rc, "site": site})
        ctx.count("ladder_runs")
        if "error" in o and o["etype"] == "AssertionError" and rec["over100"] == 1:
            # predicate computed by the spec: the whole-ladder revision needs more improvement rounds than the
            # library's documented default budget (dynamic_programming_iterations = 100)
            ctx.violation(ROUNDS_SIG, ROUNDS_WHAT + f" ({n} rungs)", {"ladder": c["ladder"], "rc": rc, "site": "LAOStar.plan_on"})
            continue
        if "error" in o:
            fail(f"LAOStar.plan_on[raised {o['etype']}]", f"raised {o['error']} on a valid instance (no convergence reported)")
            continue
        lv = [frac(x) for x in rec["lv"]] + [F(0)]
        if i % 2 == 0:                                   # machinery cross-check: independent Fraction recursion
            acc, mine = F(0), []
            for k in range(n - 1, -1, -1):
                g = c["ladder"]["gs"][k % len(c["ladder"]["gs"])]
                best = max((F(g["P"][0][a][0] * g["R"][0][a][0] + g["P"][0][a][1] * g["R"][0][a][1], g["P"][0][a][1])
                            for a in range(g["K"]) if g["avail"][0][a]))
                acc += best
                mine.append(acc)
            if list(reversed(mine)) != lv[:-1]:
                raise TLCFailure(f"TLA+ ladder values and Python ladder values disagree (ladder {i})")
            ctx.count("oracle_crosschecks")
        if o["converged"] is not True:
            fail("PlanningResult.converged", f"converged={o['converged']}")
        if not near(o["initial_value"], lv[0]):
            fail("PlanningResult.initial_value", f"initial_value={o['initial_value']!r} but the optimum is {lv[0]} = {float(lv[0])!r} "
                                                 f"({n} rungs)")
        for k, v in sorted(o["svm"].items()):
            if not (v >= float(lv[k]) - 1e-9 * max(1.0, abs(float(lv[k])))):
                fail("PlanningResult.state_value_map", f"value {v!r} held for rung {k} is below V*={float(lv[k])!r}")
                break
        if o["polerr"] is not None:
            kind, k, det = o["polerr"]
            fail(f"PlanningResult.policy[{kind}]", f"policy at reachable rung {k}: {kind} ({det})")
        elif o.get("quits"):
            fail("PlanningResult.policy[return]", f"the returned policy quits at rung {o['quits'][0]} (paying {c['ladder']['q']}) although "
                                                  f"climbing on is worth {float(lv[o['quits'][0]])!r}")
        elif rec["ret"][1] == 0:
            ctx.count("policy_not_uniform_over_support_judge_skipped")
        elif rec["polopt"] != 1:
            fail("PlanningResult.policy[return]", f"exact return of the returned policy is {frac(rec['ret'])} but the optimum is {lv[0]}")
        if ok:
            ctx.count("ladder_runs_all_clauses_hold")
            if len(o["svm"]) > 200:
                ctx.nontrivial(digest({"ladder": c["ladder"], "rc": rc}))
        cc = ctx.extra.setdefault("config_counts", {})
        for key in (f"hnum={rc['hnum']}", "ladder"):
            cc[key] = cc.get(key, 0) + 1


ROUNDS_SIG = "C03:ExplicitStateGraph._policy_iteration[assert converged]:more-improvement-rounds-than-dynamic_programming_iterations"
ROUNDS_WHAT = ("LAOStar.plan_on raises AssertionError (`assert converged` of the inner policy iteration) instead of reporting "
               "non-convergence when one value revision needs more than dynamic_programming_iterations (default 100) improvement rounds")


def make_ladder_cases(rng, k):
    out = []
    seeds = [0, -3, 5, 2 ** 66, -(2 ** 40), 11]
    for i in range(k):
        out.append({"ladder": ladder_case(rng),
                    "rc": {"hc": rng.choice([0, 0, 1]), "hnum": CONST_KINDS[(i + rng.randrange(2)) % len(CONST_KINDS)],
                           "rao": FLAGS[i % 4][0], "rno": FLAGS[i % 4][1], "seed": seeds[i % len(seeds)],
                           "labels": "int" if i % 2 else "tuple"}})
    # ladders with a quit action: two that need 30..95 improvement rounds, one that needs more than the default 100
    for i, (lo, hi) in enumerate([(30, 60), (70, 95), (118, 135)] + [(30, 95)] * max(0, k // 3 - 2)):
        out.append({"ladder": quit_ladder_case(rng, lo, hi),
                    "rc": {"hc": 0, "hnum": CONST_KINDS[i % len(CONST_KINDS)], "rao": 0, "rno": 0, "seed": i, "labels": "int"}})
    return out


# --------------------------------------------------------------------------------------------
# tiers
# --------------------------------------------------------------------------------------------
def run(ctx):
    rng = random.Random(ctx.seed * 104729 + 3)
    t = TIERS[ctx.tier]
    n_inst, per_inst, n_mc, mc_cap = t["n_inst"], t["per_inst"], t["n_mc"], t["mc_cap"]
    ctx.rule = ("random members of MDPFam (1-3 non-absorbing + 0-2 explicitly absorbing states with ghost dynamics, 1-3 "
                "state-dependent actions, PD in {2,4}, gamma in {0,1/2,3/4,9/10} or gamma=1 with every policy proper, several / "
                "absorbing initial states; forward-only DAGs; mirror-tie instances with thirds..tenths; large-magnitude instances "
                "= potential-shaped rewards of size 4e6..1.2e7 (three of four needing two policy-improvement steps); rare-transition "
                "instances = one 1e-9 transition worth +-6..20 in expectation; planner reuse = the same LAOStar object plans a "
                "second MDP with the same labels before the first result's policy is read, or before this run) x heuristic kind (constant bound, exact V*, V*+1, V*+per-state slack) x "
                "randomize_action_order x randomize_nextstate_order x seed x representation (functional / subclass / "
                "from_matrices; label kinds; Dict incl. zero entries / Deterministic / Uniform distributions); non-trivial = "
                ">=2 non-absorbing states, two actions of different exact Q* somewhere, >=2 iterations of the real run "
                "and a revision over >=2 ancestors")
    ctx.assumptions = [
        "TLC evaluates the TLA+ oracles correctly (V* and the exact policy return are cross-checked against an independent "
        "Fraction implementation on every 7th run)",
        "floats are compared with exact rationals at 1e-9 relative (direct linear-algebra outputs, DESIGN 5.1)",
        "the exact machine runs where PD*GD <= 8 and its integers stay below 2^30 (guard Fits); other runs are judged on the "
        "clauses only and counted under skipped",
        "large-magnitude family: the spec works in model units (shaping by B*lev is value-preserving, tips ranked by lev first); "
        "real numbers are compared at 1e-9 relative to their own size",
        "rare-transition family: the record is the eps -> 0 limit of the real MDP; slack = derived perturbation bound "
        "eps*(Rs + 2*gamma*Rs/(1-gamma))/(1-gamma) (run_tolerance), discounted instances only, step-by-step machine not compared",
        "TLC -coverage cannot be used (its cost model runs out of memory on the shared oracle operators): per-action counts "
        "are computed from the emitted behaviours instead",
    ]
    instances = make_instances(rng, n_inst)
    # special families (own rng: the base families do not depend on them)
    srng = random.Random(ctx.seed * 31 + 5)
    pool = make_instances(srng, 40 * t["n_special"])
    special = []                                   # (instance, fx)
    hard = 0
    for k, m in enumerate(pool):
        if len(special) >= 2 * t["n_special"]:
            break
        if len(special) % 2 == 0:
            # large magnitudes; three of four such instances are ones on which policy iteration from the uniform
            # policy needs more than one improvement step (searched for in the pool while it lasts)
            if sum(1 for x in m["abs"] if not x) >= 2 and m["PD"] * m["GD"] <= 8:
                want_hard = (len(special) // 2) % 4 != 3 and k < len(pool) - 4 * t["n_special"]
                if want_hard and not first_improvement_not_optimal(m):
                    continue
                hard += want_hard
                special.append((m, shaped_fx(srng, m)))
        else:
            rr = rare_instance(srng, m)
            if rr is not None:
                special.append(rr)
    ctx.count("large_magnitude_instances_needing_two_improvement_steps", hard)
    special += [(m, {"rmexp": RM_EXP}) for m in near_tie_instances(t["n_near_tie"])]
    partners = {j: partner_instance(srng, instances[j]) for j in range(len(instances)) if j % 4 == 1}
    pj = sorted(partners)
    everything = instances + [m for m, _ in special] + [partners[j] for j in pj]
    orc_all = []
    for k in range(0, len(everything), 1200):
        orc_all += tlc_oracle(ctx, everything[k:k + 1200], name=f"oracle{k}")
    orc = orc_all[:len(instances)]
    orc_special = orc_all[len(instances):len(instances) + len(special)]
    orc_partner = dict(zip(pj, orc_all[len(instances) + len(special):]))

    def passes(o):
        f = o["filter"]
        return f["wf"] and f["few"] and f["acts"] and f["proper"]
    keep = []
    for j, (m, o) in enumerate(zip(instances, orc)):
        f = o["filter"]
        if not (f["wf"] and f["few"] and f["acts"] and f["proper"]):
            ctx.skip("precondition filter (not proper / malformed)")
            continue
        vs = [frac(x) for x in o["v"]]
        if j % 5 == 0:
            pv = pyoracle.optimal_value(m)
            if any(pv[s] != vs[s] for s in range(m["N"])):
                raise TLCFailure(f"TLA+ V* and Python V* disagree on instance {j}: {vs} vs {pv}")
            ctx.count("oracle_crosschecks")
        pr = None
        if j in partners and passes(orc_partner[j]):
            pr = (partners[j], [frac(x) for x in orc_partner[j]["v"]])
        keep.append((m, vs, o["v"], pr))
        # mirror-tie family (every 5th instance): many more seeds / configurations, judged against the oracle run
        if j % 5 == 4:
            lr = random.Random(ctx.seed * 7 + j)
            vi = frac(o["vinit"])
            for r in make_runs(lr, m, vs, t["n_light"]):
                judge_light(ctx, r, run_real(m, r["rc"]), vs, vi)
    # ---- MC: all behaviours on a sub-family
    mc_batch, mc_src = [], []
    for m, vs, raw, _pr in keep:
        if len(mc_batch) >= n_mc:
            break
        if m["PD"] * m["GD"] > 4:
            continue
        flags = [[0, 0]] + [[a, b] for a, b in FLAGS[1:] if behaviours_estimate(m, a, b) <= mc_cap]
        rec = inst_record(m)
        rec["zl"], rec["z0"] = no_zeros(m)
        hr = random.Random(digest(m))
        rec["hs"] = [{"hk": k, "H": heuristic_table(hr, k, vs)} for k in HKINDS]
        rec["flags"] = flags
        mc_batch.append(rec)
        mc_src.append((m, vs, raw))
        ctx.count("mc_flag_configs", len(flags) * len(HKINDS))
    res = run_tlc(ctx.workdir / "mc", MODULE, CFG_MACHINE, files={"batch.json": mc_batch},
                  env={"BATCH_FILE": "batch.json", "MODE": "mc"})
    ctx.add_tlc(res, "mc: every behaviour of the LAO* machine (all initial orders, all permutations when the flags are on) "
                     "x 4 heuristics; invariants (P) in every state")
    check_design(res, "mc mode")
    mcrecs = {}
    for r in res.records:
        if r.get("kind") == "mc":
            mcrecs[(r["iid"], r["hk"], tuple(r["inits"]))] = r
        elif r.get("kind") == "cut":
            ctx.skip("exactness cut in mc mode")
    ctx.extra["mc_flag_free_behaviours_emitted"] = len(mcrecs)
    # ---- runs of the real code
    runs, mcref = [], {}
    for m, vs, raw, pr in keep:
        for r in make_runs(rng, m, vs, per_inst, pair=pr):
            r["vs"] = raw
            runs.append(r)
        if pr:
            ctx.count("instances_with_planner_reuse")
    for (m, fx), o in zip(special, orc_special):
        if not passes(o):
            ctx.skip("precondition filter (not proper / malformed)")
            continue
        vs = [frac(x) for x in o["v"]]
        for r in make_runs(srng, m, vs, per_inst, fx=fx):
            r["vs"] = o["v"]
            runs.append(r)
        vi = frac(o["vinit"])
        for r in make_runs(srng, m, vs, t["n_light_special"], fx=fx):
            judge_light(ctx, r, run_real(m, r["rc"]), vs, vi)
        ctx.count("instances_large_magnitude" if "lev" in fx else "instances_small_magnitude_near_tie" if "rmexp" in fx
                  else "instances_rare_transition")
    # pipeline A: the flag-free behaviours TLC emitted, replayed (the seed only decides the initial order)
    plain = [r for r in REPS if r["dist"] not in ("dict_zeros", "sparse")]
    for j, (m, vs, raw) in enumerate(mc_src, start=1):
        for h in mc_batch[j - 1]["hs"]:
            want = {k[2] for k in mcrecs if k[0] == j and k[1] == h["hk"]}
            got = set()
            for seed in range(4):
                if got >= want:
                    break
                rc = {"hk": h["hk"], "H": h["H"], "rao": 0, "rno": 0, "seed": seed,
                      "rep": dict(plain[(j + seed) % len(plain)]), "lseed": j * 10 + seed}
                o = run_real(m, rc)
                order = tuple(s + 1 for s in o.get("init", []))
                if order in got and "error" not in o:
                    continue
                got.add(order)
                runs.append({"m": m, "rc": rc, "vs": raw, "_real": o})
                if (j, h["hk"], order) in mcrecs:
                    mcref[len(runs) - 1] = mcrecs[(j, h["hk"], order)]
    reals = [r.pop("_real") if "_real" in r else run_real(r["m"], r["rc"]) for r in runs]
    ctx.count("pipeline_A_runs", len(mcref))
    judge_runs(ctx, runs, reals=reals, mcref=mcref)
    # ---- ladders: revisions over more than 200 states
    judge_ladders(ctx, make_ladder_cases(random.Random(ctx.seed * 13 + 1), t["n_ladder"]))


def replay(ctx, case):
    if "ladder" in case:
        judge_ladders(ctx, [{"ladder": case["ladder"], "rc": case["rc"]}])
    else:
        judge_runs(ctx, [{"m": case["m"], "rc": case["rc"]}])


def selftest(ctx):
    """Binding demonstration: (1) corrupt a value returned by the real code, (2) drop a recorded event,
    (3) hand msdm an instance that differs from the one the spec sees.  All three must be reported."""
    rng = random.Random(11)
    instances = make_instances(rng, 16)
    orc = tlc_oracle(ctx, instances)
    runs = []
    for m, o in zip(instances, orc):
        for r in make_runs(rng, m, [frac(x) for x in o["v"]], 2):
            r["vs"] = o["v"]
            runs.append(r)
    reals = [run_real(r["m"], r["rc"]) for r in runs]
    a = next(i for i, o in enumerate(reals) if "error" not in o)
    reals[a]["initial_value"] += 0.5
    b = next(i for i, o in enumerate(reals) if i != a and "error" not in o and len(o["events"]) >= 3
             and runs[i]["m"]["PD"] * runs[i]["m"]["GD"] <= 4)
    del reals[b]["events"][1]
    c = next(i for i, o in enumerate(reals) if i not in (a, b) and "error" not in o and len(o["events"]) >= 2
             and not any(runs[i]["m"]["p0"][s] > 0 and runs[i]["m"]["abs"][s] for s in range(runs[i]["m"]["N"])))
    m2 = dict(runs[c]["m"])
    m2["R"] = [[[x - 3 for x in row] for row in act] for act in m2["R"]]
    reals[c] = run_real(m2, runs[c]["rc"])
    v0 = len(ctx.violations)
    judge_runs(ctx, [runs[a]], reals=[reals[a]])
    got_a = any("initial_value" in v[0] for v in ctx.violations[v0:])
    d0 = len(ctx.drifts)
    judge_runs(ctx, [runs[b]], reals=[reals[b]])
    got_b = len(ctx.drifts) > d0
    v1 = len(ctx.violations)
    judge_runs(ctx, [runs[c]], reals=[reals[c]])
    got_c = len(ctx.violations) > v1
    print(f"  selftest: corrupted initial value detected={got_a}; dropped event detected={got_b}; "
          f"perturbed instance detected={got_c}", flush=True)
    return got_a and got_b and got_c
