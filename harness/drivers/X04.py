"""X04 - tabular stochastic games expose consistent arrays and joint-action structure.

Pipeline A (spec -> code): members of the X04 family (spec/lib/StochGame.tla, spec/X04_GameViews.tla) are
written to a batch: random hand-built games (1-3 agents, <= 5 states, <= 2 actions per agent, terminal states
with ghost dynamics, state-dependent per-agent action lists, zero-probability entries, terminal initial
states, given or inferred lists, MAX_STATES cut-offs, optional joint policy) and instances *extracted* from
real TabularGridGame layouts through the functional interface only (probabilities become value ids).  TLC
explores the reference machine (search with every pop order and cut-off, list construction, joint-action
collection, row-by-row array construction, derived vectors, joint policy matrix), checks the design
invariants and prints per instance the exact keyed views.  The driver builds the same game as a
TabularStochasticGame subclass in several representations (label kinds, distribution classes, containers,
agent orders), runs the real code, projects lists / arrays through the game's own lists to abstract indices
and compares cell by cell with what TLC printed.

Pipeline B (code -> spec): roll-outs returned by TabularMultiAgentPolicy.run_on are recorded and validated
by spec/X04_Run.tla (MODE trace); MODE mc of the same module explores every roll-out of the reference
machine of run_on and checks that the judge accepts exactly those.

The third-party package `sparse` (pydata/sparse) that transitionmatrix and the policy module import is not
a declared dependency of msdm and is not installed here: when it cannot be imported a recording stand-in
(COO = dense array built from the coordinates msdm computed, duplicates summed) is put into sys.modules so
that msdm's own code can run; occupancy_matrix, whose result depends on pydata/sparse semantics, is skipped.
"""
import contextlib
import copy
import io
import itertools
import json
import random
import sys
import types
import warnings
from fractions import Fraction as F

import numpy as np

from ..core import digest
from ..tlc import run_tlc, TLCFailure

VIEWS_CFG = """INIT Init
NEXT Next
CHECK_DEADLOCK FALSE
INVARIANT Emit
INVARIANT ReachInv
INVARIANT ReachFixpoint
INVARIANT CutSemantics
INVARIANT ListOk
INVARIANT JalOk
INVARIANT ArraysAgree
INVARIANT RowsNormalised
INVARIANT DerivedAgree
INVARIANT PolicyProduct
INVARIANT InstancesWellFormed
INVARIANT Terminates
"""
VIEWS_INVS = ["ReachInv", "ReachFixpoint", "CutSemantics", "ListOk", "JalOk", "ArraysAgree", "RowsNormalised",
              "DerivedAgree", "PolicyProduct", "InstancesWellFormed", "Terminates"]
GEN_CFG = """INIT GenInit
NEXT GenNext
CHECK_DEADLOCK FALSE
INVARIANT GenValid
INVARIANT GenBounded
INVARIANT GenEnds
INVARIANT GenProgress
INVARIANT GenWellFormed
"""
GEN_INVS = ["GenValid", "GenBounded", "GenEnds", "GenProgress", "GenWellFormed"]
TRACE_CFG = """INIT TraceInit
NEXT TraceNext
CHECK_DEADLOCK FALSE
INVARIANT Verdict
INVARIANT TrInitial
INVARIANT TrLength
INVARIANT TrActions
INVARIANT TrSuccessors
INVARIANT TrRewards
INVARIANT TrTermination
"""
INF = -1


# --------------------------------------------------------------------------------------------
# the missing third-party package
# --------------------------------------------------------------------------------------------
def install_sparse():
    """Returns 'real' when pydata/sparse is importable, else installs the stand-in and returns 'stand-in'."""
    try:
        import sparse  # noqa: F401
        return "stand-in" if getattr(sys.modules["sparse"], "_x04_standin", False) else "real"
    except ImportError:
        pass
    mod = types.ModuleType("sparse")

    class COO(np.ndarray):
        def __new__(cls, coords, data=None, shape=None):
            arr = np.zeros(shape, dtype=float)
            idx = tuple(np.asarray(c, dtype=int) for c in coords)
            if len(idx) and len(idx[0]):
                np.add.at(arr, idx, np.asarray(data, dtype=float))      # COO sums duplicate coordinates
            return arr.view(cls)

        def todense(self):
            return np.asarray(self)
    mod.COO = COO
    mod.elemwise = lambda f, *a: f(*[np.asarray(x) for x in a])
    mod._x04_standin = True
    sys.modules["sparse"] = mod
    return "stand-in"


def dense(x):
    return np.asarray(x.todense() if hasattr(x, "todense") else x)


@contextlib.contextmanager
def quiet():
    with warnings.catch_warnings():
        warnings.simplefilter("ignore")
        with contextlib.redirect_stderr(io.StringIO()), contextlib.redirect_stdout(io.StringIO()):
            yield


def _err(e):
    return f"{type(e).__name__}: {e}"[:200]


# --------------------------------------------------------------------------------------------
# instance family (hand-built games)
# --------------------------------------------------------------------------------------------
def rand_row(rng, n, PD, targets=None):
    targets = list(range(n)) if targets is None else sorted(targets)
    k = 1 if rng.random() < 0.45 else rng.randint(1, min(len(targets), PD))
    cells = rng.sample(targets, k)
    row, left = [0] * n, PD
    for i, c in enumerate(cells):
        x = left if i == len(cells) - 1 else rng.randint(1, left - (len(cells) - 1 - i))
        row[c] += x
        left -= x
    return row


def javail(g, s):
    return [j for j in range(g["J"]) if all(g["avail"][s][i][g["comp"][j][i] - 1] for i in range(g["G"]))]


def py_reach(g, v):
    """Independent reachability: v = 0 positive probability, v = 1 every listed entry."""
    seen = {s for s in range(g["N"]) if g["p0"][s] > 0 or (v and g["Z0"][s])}
    todo = list(seen)
    while todo:
        s = todo.pop()
        if g["term"][s]:
            continue
        for j in javail(g, s):
            for t in range(g["N"]):
                if (g["P"][s][j][t] > 0 or (v and g["Z"][s][j][t])) and t not in seen:
                    seen.add(t)
                    todo.append(t)
    return seen


def _add_state(rng, g, rewards):
    """Append one state nobody points to."""
    N, J, G = g["N"], g["J"], g["G"]
    for s in range(N):
        for j in range(J):
            g["P"][s][j].append(0)
            g["Z"][s][j].append(0)
            g["R"][s][j].append([rng.choice(rewards) for _ in range(G)])
    g["P"].append([rand_row(rng, N + 1, g["PD"]) for _ in range(J)])
    g["Z"].append([[0] * (N + 1) for _ in range(J)])
    g["R"].append([[[rng.choice(rewards) for _ in range(G)] for _ in range(N + 1)] for _ in range(J)])
    g["avail"].append([[1] * k for k in g["K"]])
    g["term"].append(1 if rng.random() < 0.3 else 0)
    g["p0"].append(0)
    g["Z0"].append(0)
    g["pos"].append([])
    g["N"] = N + 1
    return N


STYLES = ["clean"] * 5 + ["policy"] * 5 + ["statedep"] * 3 + ["zeros_in"] * 2 + ["zeros_out"] * 2 + ["ghost"] * 2 \
    + ["terminit"] * 2 + ["unavail_out"]


def make_game(rng, style):
    """Random member of the family.  Clean styles never point outside the reachable set from a row the
    functional interface can be asked about; the corner styles do so on purpose."""
    rewards = (-2, -1, 0, 1, 2)
    while True:
        G = rng.choice([2, 2, 2, 2, 2, 3, 1])
        K = [rng.choice([1, 2, 2]) for _ in range(G)]
        comp = [list(c) for c in itertools.product(*[range(1, k + 1) for k in K])]
        J = len(comp)
        n_nt, n_t = rng.choice([1, 2, 2, 3]), rng.choice([0, 1, 1, 2])
        if style in ("ghost", "terminit") and n_t == 0:
            n_t = 1
        N = n_nt + n_t
        PD, ID = rng.choice([2, 4, 4, 3]), rng.choice([2, 4, 3])
        order = list(range(N))
        rng.shuffle(order)
        term = [0] * N
        for s in order[:n_t]:
            term[s] = 1
        statedep = style in ("statedep", "unavail_out") or (style in ("policy", "zeros_in", "ghost") and rng.random() < 0.35)
        avail = []
        for s in range(N):
            row = []
            for i in range(G):
                a = [1] * K[i]
                if statedep and K[i] > 1 and rng.random() < 0.45:
                    a[rng.randrange(K[i])] = 0
                row.append(a)
            avail.append(row)
        g = {"N": N, "G": G, "K": K, "J": J, "comp": comp, "PD": PD, "ID": ID, "term": term, "avail": avail,
             "P": [[rand_row(rng, N, PD) for _ in range(J)] for _ in range(N)],
             "Z": [[[0] * N for _ in range(J)] for _ in range(N)],
             "R": [[[[rng.choice(rewards) for _ in range(G)] for _ in range(N)] for _ in range(J)] for _ in range(N)],
             "p0": rand_row(rng, N, ID), "Z0": [0] * N, "pos": [[] for _ in range(N)], "big": 0, "pol": 0}
        if style == "statedep" and not any(len(javail(g, s)) < J for s in range(N)):
            continue
        if style == "terminit":
            st = rng.choice([s for s in range(N) if term[s]])
            if rng.random() < 0.4:
                g["p0"] = [0] * N
                g["p0"][st] = ID
            elif g["p0"][st] == 0:
                src = next(s for s in range(N) if g["p0"][s] > 0)
                g["p0"][src] -= 1
                g["p0"][st] += 1
        elif style == "policy":                      # roll-outs start somewhere
            if all(term[s] for s in range(N) if g["p0"][s] > 0):
                continue
        reach = py_reach(g, 0)
        # ghost rows (terminal states, unavailable joint actions) of reachable states stay inside
        for s in sorted(reach):
            av = set(javail(g, s))
            for j in range(J):
                if term[s] or j not in av:
                    g["P"][s][j] = rand_row(rng, N, PD, reach)
        if style == "ghost":
            cands = [s for s in sorted(reach) if term[s] and g["p0"][s] == 0]
            if not cands:
                continue
            s, u = rng.choice(cands), _add_state(rng, g, rewards)
            g["P"][s][rng.randrange(J)] = rand_row(rng, g["N"], PD, [u] if rng.random() < 0.6 else [u, s])
        elif style == "terminit" and rng.random() < 0.5:
            u = _add_state(rng, g, rewards)
            row = rand_row(rng, g["N"], PD, [u, st])
            if row[u] == 0:
                row = rand_row(rng, g["N"], PD, [u])
            g["P"][st][rng.choice(javail(g, st) or [0])] = row
        elif style == "unavail_out":
            cands = [(s, j) for s in sorted(reach) if not term[s] for j in range(J) if j not in javail(g, s)
                     and any(j in javail(g, x) for x in reach)]
            if not cands:
                continue
            (s, j), u = rng.choice(cands), _add_state(rng, g, rewards)
            g["P"][s][j] = rand_row(rng, g["N"], PD, [u])
        elif style == "zeros_out":
            cands = [(s, j) for s in sorted(reach) if not term[s] for j in javail(g, s)]
            if not cands:
                continue
            (s, j), u = rng.choice(cands), _add_state(rng, g, rewards)
            g["Z"][s][j][u] = 1
        elif style in ("clean", "policy") and rng.random() < 0.3:
            _add_state(rng, g, rewards)
        N = g["N"]
        explicit = 1 if (style in ("clean", "policy", "statedep", "zeros_in") and rng.random() < 0.25) else 0
        if style == "zeros_in" or (style in ("statedep", "policy") and rng.random() < 0.25):
            for _ in range(rng.randint(1, 4)):
                s, j, t = rng.randrange(N), rng.randrange(J), rng.randrange(N)
                if g["P"][s][j][t] == 0 and (explicit or t in reach):
                    g["Z"][s][j][t] = 1
            t = rng.randrange(N)
            if g["p0"][t] == 0 and (explicit or t in reach) and rng.random() < 0.5:
                g["Z0"][t] = 1
        g["explicit"] = explicit
        ncuts = rng.choice([1, 2, 2, 3])
        g["cuts"] = sorted(rng.sample(range(0, N + 2), ncuts))
        if style == "policy" or (style in ("statedep", "zeros_in") and rng.random() < 0.4):
            if any(not any(a) for row in g["avail"] for a in row):
                continue
            QD = rng.choice([2, 4, 4, 3])
            mode = rng.choice(["full", "avail", "positive"])
            W, WL = [], []
            for i in range(G):
                wi, li = [], []
                for s in range(N):
                    av = [a for a in range(K[i]) if g["avail"][s][i][a]]
                    w = rand_row(rng, K[i], QD, av)
                    wi.append(w)
                    li.append([1 if (mode == "full" or (mode == "avail" and a in av) or w[a] > 0) else 0 for a in range(K[i])])
                W.append(wi)
                WL.append(li)
            g.update(pol=1, QD=QD, W=W, WL=WL)
        return g


LABELS = ["int", "str", "tuple", "dict"]
AGENTS = [["A", "B", "C"], ["A0", "A1", "A2"], ["b", "a", "c"], ["z", "m", "k"]]


def make_rep(rng, g):
    return {"labels": rng.choice(LABELS), "alabels": rng.choice(LABELS), "agents": rng.choice(AGENTS)[:g["G"]],
            "dist": rng.choice(["dict", "pr"]), "acts": rng.choice(["list", "tuple", "gen"]),
            "rint": rng.random() < 0.3, "jad": 1 if rng.random() < 0.7 else 0,
            "unavail": "raise" if rng.random() < 0.2 else "dist",
            "qvals": rng.choice([None, "joint", "own"]),
            "seed": rng.randrange(1 << 30)}


def make_cases(rng, n):
    out = []
    for i in range(n):
        style = STYLES[i % len(STYLES)]
        g = make_game(rng, style)
        out.append({"kind": "hand", "g": g, "rep": make_rep(rng, g), "style": style})
    return out


# --------------------------------------------------------------------------------------------
# building msdm objects
# --------------------------------------------------------------------------------------------
def lkey(x):
    return json.dumps(x, sort_keys=True, default=str)


def _labels(kind, n, prefix, rng):
    if kind == "int":
        labs = list(range(n))
    elif kind == "str":
        labs = [f"{prefix}{i}" for i in range(n)]
    elif kind == "tuple":
        labs = [(prefix, i) for i in range(n)]
    else:                       # nested dictionaries, as the grid game uses for states and actions
        labs = [{"k": prefix, "p": {"x": i % 2, "y": i // 2}} for i in range(n)]
    perm = list(range(n))
    rng.shuffle(perm)           # decouple label order from abstract order (msdm sorts inferred lists)
    return [labs[perm[i]] for i in range(n)]


class Labels:
    """abstract index <-> label, for states, agents, per-agent actions and joint actions"""

    def __init__(self, g, rep, states=None, actions=None):
        rng = random.Random(rep["seed"])
        self.g = g
        self.agents = list(rep["agents"])
        self.s = states if states is not None else _labels(rep["labels"], g["N"], "s", rng)
        self.a = actions if actions is not None else [_labels(rep["alabels"], g["K"][i], f"a{i}", rng) for i in range(g["G"])]
        self._si = {lkey(l): i for i, l in enumerate(self.s)}
        self._ai = [{lkey(l): k for k, l in enumerate(self.a[i])} for i in range(g["G"])]
        self._ji = {tuple(c): j for j, c in enumerate(g["comp"])}
        self.rng = rng

    def sidx(self, lab):
        return self._si.get(lkey(lab))

    def aidx(self, i, lab):
        return self._ai[i].get(lkey(lab))

    def jidx(self, ja):
        """index of a joint action {agent: action label}; None when it is not one of the game's"""
        try:
            if set(ja.keys()) != set(self.agents):
                return None
            comp = tuple(self._ai[i][lkey(ja[ag])] + 1 for i, ag in enumerate(self.agents))
        except Exception:                                    # noqa: BLE001
            return None
        return self._ji.get(comp)

    def ja(self, j):
        return {ag: self.a[i][self.g["comp"][j][i] - 1] for i, ag in enumerate(self.agents)}

    def skey(self, lab):
        """msdm's documented sort key of state_list / joint_action_list"""
        return json.dumps(lab, sort_keys=True) if isinstance(lab, dict) else lab


class UnavailableJointAction(ValueError):
    pass


def build_game(g, rep):
    """The game as a TabularStochasticGame subclass.  The base constructor is bypassed the way
    TabularGridGame does (TabularStochasticGame.__init__ is exercised separately)."""
    from msdm.core.stochasticgame import TabularStochasticGame, StochasticGame
    from msdm.core.distributions import DictDistribution, DiscreteFactorTable
    L = Labels(g, rep)
    N, J, G = g["N"], g["J"], g["G"]
    hashable = rep["labels"] != "dict"

    def mk(pairs, den):
        if rep["dist"] == "dict" and hashable:
            return DictDistribution({e: float(F(p, den)) for e, p in pairs})
        return DiscreteFactorTable([e for e, _ in pairs], probs=[float(F(p, den)) for _, p in pairs])

    class HandGame(TabularStochasticGame):
        def __init__(self):
            StochasticGame.__init__(self, agent_names=list(L.agents))

        def initial_state_dist(self):
            return mk([(L.s[t], g["p0"][t]) for t in range(N) if g["p0"][t] > 0 or g["Z0"][t]], g["ID"])

        def joint_actions(self, s):
            si = L.sidx(s)
            out = {}
            for i, ag in enumerate(L.agents):
                acts = [L.a[i][a] for a in range(g["K"][i]) if g["avail"][si][i][a]]
                out[ag] = acts if rep["acts"] == "list" else tuple(acts) if rep["acts"] == "tuple" else (a for a in acts)
            return out

        def is_terminal(self, s):
            return bool(g["term"][L.sidx(s)])

        def next_state_dist(self, s, ja):
            si, j = L.sidx(s), L.jidx(ja)
            if rep["unavail"] == "raise" and j not in javail(g, si):
                raise UnavailableJointAction(f"joint action {ja} is not available in {s}")
            return mk([(L.s[t], g["P"][si][j][t]) for t in range(N) if g["P"][si][j][t] > 0 or g["Z"][si][j][t]], g["PD"])

        def joint_rewards(self, s, ja, ns):
            r = g["R"][L.sidx(s)][L.jidx(ja)][L.sidx(ns)]
            return {ag: (int(r[i]) if rep["rint"] else float(r[i])) for i, ag in enumerate(L.agents)}

    if rep["jad"]:
        def joint_action_dist(self, s):          # the uniform product, as reachable_states builds it
            acts = self.joint_actions(s)
            jas = [dict(zip(acts.keys(), v)) for v in itertools.product(*[list(x) for x in acts.values()])]
            return DiscreteFactorTable(jas)
        HandGame.joint_action_dist = joint_action_dist
    game = HandGame()
    if g["explicit"]:
        order = list(L.s)
        random.Random(rep["seed"] + 1).shuffle(order)
        game._states = order
        jorder = [L.ja(j) for j in range(J)]
        random.Random(rep["seed"] + 2).shuffle(jorder)
        game._joint_actions = jorder
    return game, L


# --------------------------------------------------------------------------------------------
# observing the real code (projection to abstract indices; everything json-able)
# --------------------------------------------------------------------------------------------
ARRAYS = ["transitionmatrix", "rewardmatrix", "stateactionrewardmatrix", "initialstatevec", "nonterminalstatevec",
          "reachablestatevec", "actionmatrix", "absorbingstatevec"]


def observe_game(game, L, g, *, grid=False):
    o = {"err": {}, "n": 0}

    def sset(xs):
        return sorted(-1 if L.sidx(s) is None else L.sidx(s) for s in xs)
    with quiet():
        try:
            o["reach"] = sset(game.reachable_states())
        except Exception as e:                                # noqa: BLE001
            o["err"]["reachable_states"] = _err(e)
        o["n"] += 1
        o["cuts"] = {}
        for k, c in enumerate(g["cuts"]):
            try:
                r = game.reachable_states(c) if k % 2 == 0 else game.reachable_states(MAX_STATES=c)
                o["cuts"][str(c)] = sset(r)
            except Exception as e:                            # noqa: BLE001
                o["err"][f"reachable_states({c})"] = _err(e)
            o["n"] += 1
        try:
            sl = list(game.state_list)
            o["sl"] = [L.sidx(s) for s in sl]
            try:
                o["sl_sorted"] = bool(sl == sorted(sl, key=L.skey))
            except TypeError:
                o["sl_sorted"] = None
        except Exception as e:                                # noqa: BLE001
            o["err"]["state_list"] = _err(e)
            return o
        try:
            jl = list(game.joint_action_list)
            o["jal"] = [L.jidx(a) if isinstance(a, dict) else None for a in jl]
            o["jal_agent_order_ok"] = True
            try:
                o["jal_sorted"] = bool(jl == sorted(jl, key=L.skey))
            except TypeError:
                o["jal_sorted"] = None
        except Exception as e:                                # noqa: BLE001
            o["err"]["joint_action_list"] = _err(e)
            return o
        o["n"] += 2
        o["agent_names"] = list(game.agent_names)
        for name in ARRAYS:
            try:
                arr = dense(getattr(game, name))
                o[name] = arr.tolist()
                o.setdefault("shape", {})[name] = list(arr.shape)
            except Exception as e:                            # noqa: BLE001
                o["err"][name] = _err(e)
            o["n"] += 1
        if grid:
            try:
                pl = list(game.position_list)
                o["position_list"] = [list(p) for p in pl]
            except Exception as e:                            # noqa: BLE001
                o["err"]["position_list"] = _err(e)
            o["n"] += 1
    return o


def observe_constructor():
    """TabularStochasticGame's own constructor, on a minimal subclass that relies on it."""
    from msdm.core.stochasticgame import TabularStochasticGame

    class Minimal(TabularStochasticGame):
        pass
    try:
        with quiet():
            m = Minimal(agent_names=["A", "B"])
        return {"ok": list(m.agent_names) == ["A", "B"], "err": None}
    except Exception as e:                                    # noqa: BLE001
        return {"ok": False, "err": _err(e)}


def _intval(x):
    try:
        return int(round(float(x))) if float(x) == round(float(x)) else 99999
    except Exception:                                         # noqa: BLE001
        return 99999


def observe_policy(game, L, g, rep, *, nruns=4):
    """SingleAgentPolicy per agent + TabularMultiAgentPolicy on the game; roll-outs through run_on."""
    from msdm.core.stochasticgame.policy.tabularpolicy import TabularMultiAgentPolicy, SingleAgentPolicy
    from msdm.core.assignment.assignmentmap import AssignmentMap
    o = {"err": {}, "n": 0, "agents": [], "runs": []}
    G, N, QD = g["G"], g["N"], g["QD"]
    rng = random.Random(rep["seed"] + 7)
    random.seed(rep["seed"] + 8)
    np.random.seed((rep["seed"] + 9) % (1 << 31))
    with quiet():
        try:
            sl, jl = list(game.state_list), list(game.joint_action_list)
        except Exception as e:                                # noqa: BLE001
            o["err"]["lists"] = _err(e)
            return o
        singles = {}
        for i, ag in enumerate(L.agents):
            pd = AssignmentMap()
            for s in range(N):
                inner = AssignmentMap()
                for a in range(g["K"][i]):
                    if g["WL"][i][s][a]:
                        inner[L.a[i][a]] = float(F(g["W"][i][s][a], QD))
                pd[L.s[s]] = inner
            qv, allact = None, True
            if rep["qvals"] == "joint":
                qv = AssignmentMap()
                for s in sl:
                    qv[s] = AssignmentMap()
                    for a in jl:
                        qv[s][a] = 1000.0 * (L.sidx(s) + 1) + (L.jidx(a) or 0) + 0.5 * i
            elif rep["qvals"] == "own":
                qv, allact = AssignmentMap(), False
                for s in sl:
                    qv[s] = AssignmentMap()
                    for a in range(g["K"][i]):
                        qv[s][L.a[i][a]] = 100.0 * (L.sidx(s) + 1) + a + 0.5 * i
            oa = {"err": {}}
            o["agents"].append(oa)
            try:
                sp = SingleAgentPolicy(ag, game, pd, q_vals=qv, all_actions=allact)
                singles[ag] = sp
            except Exception as e:                            # noqa: BLE001
                oa["err"]["construct"] = _err(e)
                continue
            o["n"] += 1
            oa["actions"] = [L.aidx(i, a) for a in sp._actions]
            oa["agent_name"] = sp.agent_name == ag
            for name in ("policy_matrix", "q_matrix"):
                try:
                    oa[name] = np.asarray(getattr(sp, name)).tolist()
                except Exception as e:                        # noqa: BLE001
                    oa["err"][name] = _err(e)
                o["n"] += 1
            oa["action_dist"] = {}
            try:
                for s in sl:
                    d = sp.action_dist(s)
                    oa["action_dist"][str(L.sidx(s))] = [[L.aidx(i, a), float(d.prob(a))] for a in d.support]
            except Exception as e:                            # noqa: BLE001
                oa["err"]["action_dist"] = _err(e)
            o["n"] += 1
        if len(singles) < G:
            return o
        try:
            mp = TabularMultiAgentPolicy(game, singles, discount_rate=0.5)
        except Exception as e:                                # noqa: BLE001
            o["err"]["construct"] = _err(e)
            return o
        o["n"] += 1
        o["jad"] = {}
        try:
            for s in sl:
                d = mp.joint_action_dist(s)
                o["jad"][str(L.sidx(s))] = [[L.jidx(a), float(d.prob(a))] for a in d.support]
        except Exception as e:                                # noqa: BLE001
            o["err"]["joint_action_dist"] = _err(e)
        try:
            o["jpm"] = np.asarray(mp.joint_policy_matrix).tolist()
        except Exception as e:                                # noqa: BLE001
            o["err"]["joint_policy_matrix"] = _err(e)
        try:
            o["state_list_same"] = bool(list(mp.state_list) == sl)
        except Exception as e:                                # noqa: BLE001
            o["err"]["state_list"] = _err(e)
        try:
            o["joint_action_list_same"] = bool(list(mp.joint_action_list) == jl)
        except Exception as e:                                # noqa: BLE001
            o["err"]["joint_action_list"] = _err(e)
        try:
            o["policy_dict_same"] = bool(all(mp.policy_dict[s][ag] == singles[ag].policy_dict[s] for s in sl for ag in L.agents))
        except Exception as e:                                # noqa: BLE001
            o["err"]["policy_dict"] = _err(e)
        o["n"] += 5
        starts = [s for s in sl if not game.is_terminal(s)]
        for r in range(nruns):
            mx = rng.choice([1, 2, 3, 3, 5])
            init = rng.choice(starts) if (starts and rng.random() < 0.4) else None
            run = {"mx": mx, "init": 0 if init is None else L.sidx(init) + 1}
            try:
                tr = mp.run_on(game, initialState=init, maxSteps=mx)
                st, ac, rw = tr["stateTraj"], tr["actionTraj"], tr["rewardTraj"]
                run["lens"] = [len(st), len(ac), len(rw)]
                run["ev"] = [{"s": (L.sidx(s) if L.sidx(s) is not None else -1) + 1,
                              "j": (L.jidx(a) if L.jidx(a) is not None else -1) + 1,
                              "r": [_intval(x.get(ag)) for ag in L.agents]} for s, a, x in zip(st, ac, rw)]
                run["keys"] = sorted(tr.keys())
            except Exception as e:                            # noqa: BLE001
                run["err"] = _err(e)
            o["runs"].append(run)
            o["n"] += 1
    return o


# --------------------------------------------------------------------------------------------
# independent Python oracle (cross-check of the TLA+ oracle; a disagreement is a machinery failure)
# --------------------------------------------------------------------------------------------
def py_cut_results(g, c, v):
    tm = {s for s in range(g["N"]) if g["term"][s]}
    s0 = frozenset(s for s in range(g["N"]) if g["p0"][s] > 0 or (v and g["Z0"][s]))
    adj = {}
    for s in range(g["N"]):
        adj[s] = frozenset(t for j in javail(g, s) for t in range(g["N"]) if g["P"][s][j][t] > 0 or (v and g["Z"][s][j][t]))
    out, seen, stack = set(), set(), [(s0, s0)]
    while stack:
        fr, vis = stack.pop()
        if (fr, vis) in seen:
            continue
        seen.add((fr, vis))
        if not fr or (c != INF and len(vis) > c):
            out.add(vis)
            continue
        for s in ([min(fr)] if g["big"] else fr):
            if s in tm:
                stack.append((fr - {s}, vis))
            else:
                new = adj[s] - vis
                stack.append(((fr - {s}) | new, vis | new))
    return out


def py_views(g):
    N, J, G = g["N"], g["J"], g["G"]
    av = [set(javail(g, s)) for s in range(N)]
    T = [[[g["P"][s][j][t] if j in av[s] else 0 for t in range(N)] for j in range(J)] for s in range(N)]
    R = [[[[g["R"][s][j][t][i] if T[s][j][t] > 0 else 0 for i in range(G)] for t in range(N)] for j in range(J)] for s in range(N)]
    absv = {s for s in range(N) if all(g["term"][t] for j in av[s] for t in range(N) if g["P"][s][j][t] > 0)}
    out = {"reach": py_reach(g, 0), "reach1": py_reach(g, 1), "T": T, "R": R, "absv": absv,
           "A": [[1 if j in av[s] else 0 for j in range(J)] for s in range(N)]}
    if g["pol"]:
        out["jpm"] = [[int(np.prod([g["W"][i][s][g["comp"][j][i] - 1] for i in range(G)])) for j in range(J)] for s in range(N)]
    return out


def py_judge_run(g, mx, init, ev):
    """Independent judge of a roll-out (events 1-based as sent to TLC); mirrors the clauses by name."""
    bad, n = set(), len(ev)
    P, R, term = g["P"], g["R"], g["term"]

    def jprob(s, j):
        return int(np.prod([g["W"][i][s][g["comp"][j][i] - 1] for i in range(g["G"])]))
    for l, e in enumerate(ev, start=1):
        s, j = e["s"] - 1, e["j"] - 1
        if l == 1 and init == 0 and g["p0"][s] == 0:
            bad.add("initial-state-outside-initial-support")
        if l == 1 and init != 0 and e["s"] != init:
            bad.add("initial-state-not-the-given-one")
        if l == 1 and term[s]:
            bad.add("step-from-terminal-initial-state")
        if l > mx:
            bad.add("longer-than-max-steps")
        if j not in javail(g, s):
            bad.add("joint-action-unavailable")
        if jprob(s, j) == 0:
            bad.add("joint-action-has-zero-policy-probability")
        if l < n:
            t = ev[l]["s"] - 1
            if P[s][j][t] == 0:
                bad.add("successor-has-zero-probability")
            if R[s][j][t] != e["r"]:
                bad.add("reward")
            if term[t]:
                bad.add("continued-after-terminal-state")
        else:
            cands = [t for t in range(g["N"]) if P[s][j][t] > 0 and R[s][j][t] == e["r"]]
            if not cands:
                bad.add("reward")
            elif n < mx and not any(term[t] for t in cands):
                bad.add("stopped-before-terminal-state")
    return bad


def crosscheck(i, g, rec):
    pv = py_views(g)
    one = lambda xs: {x - 1 for x in xs}            # noqa: E731
    if one(rec["reach"]) != pv["reach"] or one(rec["reach1"]) != pv["reach1"] or rec["T"] != pv["T"] or rec["R"] != pv["R"] \
            or rec["A"] != pv["A"] or one(rec["absv"]) != pv["absv"] or (g["pol"] and rec["jpm"] != pv["jpm"]):
        raise TLCFailure(f"TLA+ views and the independent Python oracle disagree on case {i}")
    for k, c in enumerate(g["cuts"]):
        for v, key in ((0, "cuts0"), (1, "cuts1")):
            if {frozenset(one(x)) for x in rec[key][k]} != {frozenset(x) for x in py_cut_results(g, c, v)}:
                raise TLCFailure(f"TLA+ CutResults and the Python oracle disagree on case {i} cut {c} variant {v}")
