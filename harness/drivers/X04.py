"""X04 - tabular stochastic games expose consistent arrays and joint-action structure.

Pipeline A (spec -> code): members of the X04 family (spec/lib/StochGame.tla, spec/X04_GameViews.tla) are
written to a batch: random hand-built games (1-3 agents, <= 5 states, <= 2 actions per agent, terminal states
with ghost dynamics, state-dependent per-agent action lists, zero-probability entries, terminal initial
states, given or inferred lists, MAX_STATES cut-offs, optional joint policy) and instances *extracted* from
real TabularGridGame layouts through the functional interface only (probabilities become value ids).  TLC
explores the reference machine (search with every pop order and cut-off, list construction, joint-action
collection, row-by-row array construction, derived vectors, joint policy matrix), checks the design
invariants and prints per instance the exact keyed views.  The driver builds the same game as a
TabularStochasticGame subclass in several representations (label kinds, distribution classes, containers,
agent orders), runs the real code, projects lists / arrays through the game's own lists to abstract indices
and compares cell by cell with what TLC printed.

Pipeline B (code -> spec): roll-outs returned by TabularMultiAgentPolicy.run_on are recorded and validated
by spec/X04_Run.tla (MODE trace); MODE mc of the same module explores every roll-out of the reference
machine of run_on and checks that the judge accepts exactly those.

The third-party package `sparse` (pydata/sparse) that transitionmatrix and the policy module import is not
a declared dependency of msdm and is not installed here: when it cannot be imported a recording stand-in
(COO = dense array built from the coordinates msdm computed, duplicates summed) is put into sys.modules so
that msdm's own code can run; occupancy_matrix, whose result depends on pydata/sparse semantics, is skipped.
"""
import contextlib
import copy
import io
import itertools
import json
import random
import sys
import types
import warnings
from fractions import Fraction as F

import numpy as np

from ..core import digest
from ..tlc import run_tlc, TLCFailure

VIEWS_CFG = """INIT Init
NEXT Next
CHECK_DEADLOCK FALSE
INVARIANT Emit
INVARIANT ReachInv
INVARIANT ReachFixpoint
INVARIANT CutSemantics
INVARIANT ListOk
INVARIANT JalOk
INVARIANT ArraysAgree
INVARIANT RowsNormalised
INVARIANT DerivedAgree
INVARIANT PolicyProduct
INVARIANT InstancesWellFormed
INVARIANT Terminates
"""
VIEWS_INVS = ["ReachInv", "ReachFixpoint", "CutSemantics", "ListOk", "JalOk", "ArraysAgree", "RowsNormalised",
              "DerivedAgree", "PolicyProduct", "InstancesWellFormed", "Terminates"]
GEN_CFG = """INIT GenInit
NEXT GenNext
CHECK_DEADLOCK FALSE
INVARIANT GenValid
INVARIANT GenBounded
INVARIANT GenEnds
INVARIANT GenProgress
INVARIANT GenWellFormed
"""
GEN_INVS = ["GenValid", "GenBounded", "GenEnds", "GenProgress", "GenWellFormed"]
TRACE_CFG = """INIT TraceInit
NEXT TraceNext
CHECK_DEADLOCK FALSE
INVARIANT Verdict
INVARIANT TrInitial
INVARIANT TrLength
INVARIANT TrActions
INVARIANT TrSuccessors
INVARIANT TrRewards
INVARIANT TrTermination
"""
INF = -1


# --------------------------------------------------------------------------------------------
# the missing third-party package
# --------------------------------------------------------------------------------------------
def install_sparse():
    """Returns 'real' when pydata/sparse is importable, else installs the stand-in and returns 'stand-in'."""
    try:
        import sparse  # noqa: F401
        return "stand-in" if getattr(sys.modules["sparse"], "_x04_standin", False) else "real"
    except ImportError:
        pass
    mod = types.ModuleType("sparse")

    class COO(np.ndarray):
        def __new__(cls, coords, data=None, shape=None):
            arr = np.zeros(shape, dtype=float)
            idx = tuple(np.asarray(c, dtype=int) for c in coords)
            if len(idx) and len(idx[0]):
                np.add.at(arr, idx, np.asarray(data, dtype=float))      # COO sums duplicate coordinates
            return arr.view(cls)

        def todense(self):
            return np.asarray(self)
    mod.COO = COO
    mod.elemwise = lambda f, *a: f(*[np.asarray(x) for x in a])
    mod._x04_standin = True
    sys.modules["sparse"] = mod
    return "stand-in"


def dense(x):
    return np.asarray(x.todense() if hasattr(x, "todense") else x)


@contextlib.contextmanager
def quiet():
    with warnings.catch_warnings():
        warnings.simplefilter("ignore")
        with contextlib.redirect_stderr(io.StringIO()), contextlib.redirect_stdout(io.StringIO()):
            yield


def _err(e):
    return f"{type(e).__name__}: {e}"[:200]


# --------------------------------------------------------------------------------------------
# instance family (hand-built games)
# --------------------------------------------------------------------------------------------
def rand_row(rng, n, PD, targets=None):
    targets = list(range(n)) if targets is None else sorted(targets)
    k = 1 if rng.random() < 0.45 else rng.randint(1, min(len(targets), PD))
    cells = rng.sample(targets, k)
    row, left = [0] * n, PD
    for i, c in enumerate(cells):
        x = left if i == len(cells) - 1 else rng.randint(1, left - (len(cells) - 1 - i))
        row[c] += x
        left -= x
    return row


def javail(g, s):
    return [j for j in range(g["J"]) if all(g["avail"][s][i][g["comp"][j][i] - 1] for i in range(g["G"]))]


def py_reach(g, v):
    """Independent reachability: v = 0 positive probability, v = 1 every listed entry."""
    seen = {s for s in range(g["N"]) if g["p0"][s] > 0 or (v and g["Z0"][s])}
    todo = list(seen)
    while todo:
        s = todo.pop()
        if g["term"][s]:
            continue
        for j in javail(g, s):
            for t in range(g["N"]):
                if (g["P"][s][j][t] > 0 or (v and g["Z"][s][j][t])) and t not in seen:
                    seen.add(t)
                    todo.append(t)
    return seen


def _add_state(rng, g, rewards):
    """Append one state nobody points to."""
    N, J, G = g["N"], g["J"], g["G"]
    for s in range(N):
        for j in range(J):
            g["P"][s][j].append(0)
            g["Z"][s][j].append(0)
            g["R"][s][j].append([rng.choice(rewards) for _ in range(G)])
    g["P"].append([rand_row(rng, N + 1, g["PD"]) for _ in range(J)])
    g["Z"].append([[0] * (N + 1) for _ in range(J)])
    g["R"].append([[[rng.choice(rewards) for _ in range(G)] for _ in range(N + 1)] for _ in range(J)])
    g["avail"].append([[1] * k for k in g["K"]])
    g["term"].append(1 if rng.random() < 0.3 else 0)
    g["p0"].append(0)
    g["Z0"].append(0)
    g["pos"].append([])
    g["N"] = N + 1
    return N


STYLES = ["clean"] * 5 + ["policy"] * 5 + ["statedep"] * 3 + ["zeros_in"] * 2 + ["zeros_out"] * 2 + ["ghost"] * 2 \
    + ["terminit"] * 2 + ["unavail_out"]


def make_game(rng, style):
    """Random member of the family.  Clean styles never point outside the reachable set from a row the
    functional interface can be asked about; the corner styles do so on purpose."""
    rewards = (-2, -1, 0, 1, 2)
    while True:
        G = rng.choice([2, 2, 2, 2, 2, 3, 1])
        K = [rng.choice([1, 2, 2]) for _ in range(G)]
        comp = [list(c) for c in itertools.product(*[range(1, k + 1) for k in K])]
        J = len(comp)
        n_nt, n_t = rng.choice([1, 2, 2, 3]), rng.choice([0, 1, 1, 2])
        if style in ("ghost", "terminit") and n_t == 0:
            n_t = 1
        N = n_nt + n_t
        PD, ID = rng.choice([2, 4, 4, 3]), rng.choice([2, 4, 3])
        order = list(range(N))
        rng.shuffle(order)
        term = [0] * N
        for s in order[:n_t]:
            term[s] = 1
        statedep = style in ("statedep", "unavail_out") or (style in ("policy", "zeros_in", "ghost") and rng.random() < 0.35)
        avail = []
        for s in range(N):
            row = []
            for i in range(G):
                a = [1] * K[i]
                if statedep and K[i] > 1 and rng.random() < 0.45:
                    a[rng.randrange(K[i])] = 0
                row.append(a)
            avail.append(row)
        g = {"N": N, "G": G, "K": K, "J": J, "comp": comp, "PD": PD, "ID": ID, "term": term, "avail": avail,
             "P": [[rand_row(rng, N, PD) for _ in range(J)] for _ in range(N)],
             "Z": [[[0] * N for _ in range(J)] for _ in range(N)],
             "R": [[[[rng.choice(rewards) for _ in range(G)] for _ in range(N)] for _ in range(J)] for _ in range(N)],
             "p0": rand_row(rng, N, ID), "Z0": [0] * N, "pos": [[] for _ in range(N)], "big": 0, "pol": 0}
        if style == "statedep" and not any(len(javail(g, s)) < J for s in range(N)):
            continue
        if style == "terminit":
            st = rng.choice([s for s in range(N) if term[s]])
            if rng.random() < 0.4:
                g["p0"] = [0] * N
                g["p0"][st] = ID
            elif g["p0"][st] == 0:
                src = next(s for s in range(N) if g["p0"][s] > 0)
                g["p0"][src] -= 1
                g["p0"][st] += 1
        elif style == "policy":                      # roll-outs start somewhere
            if all(term[s] for s in range(N) if g["p0"][s] > 0):
                continue
        reach = py_reach(g, 0)
        # ghost rows (terminal states, unavailable joint actions) of reachable states stay inside
        for s in sorted(reach):
            av = set(javail(g, s))
            for j in range(J):
                if term[s] or j not in av:
                    g["P"][s][j] = rand_row(rng, N, PD, reach)
        if style == "ghost":
            cands = [s for s in sorted(reach) if term[s] and g["p0"][s] == 0]
            if not cands:
                continue
            s, u = rng.choice(cands), _add_state(rng, g, rewards)
            g["P"][s][rng.randrange(J)] = rand_row(rng, g["N"], PD, [u] if rng.random() < 0.6 else [u, s])
        elif style == "terminit" and rng.random() < 0.5:
            u = _add_state(rng, g, rewards)
            row = rand_row(rng, g["N"], PD, [u, st])
            if row[u] == 0:
                row = rand_row(rng, g["N"], PD, [u])
            g["P"][st][rng.choice(javail(g, st) or [0])] = row
        elif style == "unavail_out":
            cands = [(s, j) for s in sorted(reach) if not term[s] for j in range(J) if j not in javail(g, s)
                     and any(j in javail(g, x) for x in reach)]
            if not cands:
                continue
            (s, j), u = rng.choice(cands), _add_state(rng, g, rewards)
            g["P"][s][j] = rand_row(rng, g["N"], PD, [u])
        elif style == "zeros_out":
            cands = [(s, j) for s in sorted(reach) if not term[s] for j in javail(g, s)]
            if not cands:
                continue
            (s, j), u = rng.choice(cands), _add_state(rng, g, rewards)
            g["Z"][s][j][u] = 1
        elif style in ("clean", "policy") and rng.random() < 0.3:
            _add_state(rng, g, rewards)
        N = g["N"]
        explicit = 1 if (style in ("clean", "policy", "statedep", "zeros_in") and rng.random() < 0.25) else 0
        if style == "zeros_in" or (style in ("statedep", "policy") and rng.random() < 0.25):
            for _ in range(rng.randint(1, 4)):
                s, j, t = rng.randrange(N), rng.randrange(J), rng.randrange(N)
                if g["P"][s][j][t] == 0 and (explicit or t in reach):
                    g["Z"][s][j][t] = 1
            t = rng.randrange(N)
            if g["p0"][t] == 0 and (explicit or t in reach) and rng.random() < 0.5:
                g["Z0"][t] = 1
        g["explicit"] = explicit
        ncuts = rng.choice([1, 2, 2, 3])
        g["cuts"] = sorted(rng.sample(range(0, N + 2), ncuts))
        if style == "policy" or (style in ("statedep", "zeros_in") and rng.random() < 0.4):
            if any(not any(a) for row in g["avail"] for a in row):
                continue
            QD = rng.choice([2, 4, 4, 3])
            mode = rng.choice(["full", "avail", "positive"])
            W, WL = [], []
            for i in range(G):
                wi, li = [], []
                for s in range(N):
                    av = [a for a in range(K[i]) if g["avail"][s][i][a]]
                    w = rand_row(rng, K[i], QD, av)
                    wi.append(w)
                    li.append([1 if (mode == "full" or (mode == "avail" and a in av) or w[a] > 0) else 0 for a in range(K[i])])
                W.append(wi)
                WL.append(li)
            g.update(pol=1, QD=QD, W=W, WL=WL)
        return g


LABELS = ["int", "str", "tuple", "dict"]
AGENTS = [["A", "B", "C"], ["A0", "A1", "A2"], ["b", "a", "c"], ["z", "m", "k"]]


def make_rep(rng, g):
    return {"labels": rng.choice(LABELS), "alabels": rng.choice(LABELS), "agents": rng.choice(AGENTS)[:g["G"]],
            "dist": rng.choice(["dict", "pr"]), "acts": rng.choice(["list", "tuple", "gen"]),
            "rint": rng.random() < 0.3, "jad": 1 if rng.random() < 0.7 else 0,
            "unavail": "raise" if rng.random() < 0.2 else "dist",
            "qvals": rng.choice([None, "joint", "own"]),
            "seed": rng.randrange(1 << 30)}


def make_cases(rng, n):
    out = []
    for i in range(n):
        style = STYLES[i % len(STYLES)]
        g = make_game(rng, style)
        out.append({"kind": "hand", "g": g, "rep": make_rep(rng, g), "style": style})
    return out


# --------------------------------------------------------------------------------------------
# building msdm objects
# --------------------------------------------------------------------------------------------
def lkey(x):
    return json.dumps(x, sort_keys=True, default=str)


def _labels(kind, n, prefix, rng):
    if kind == "int":
        labs = list(range(n))
    elif kind == "str":
        labs = [f"{prefix}{i}" for i in range(n)]
    elif kind == "tuple":
        labs = [(prefix, i) for i in range(n)]
    else:                       # nested dictionaries, as the grid game uses for states and actions
        labs = [{"k": prefix, "p": {"x": i % 2, "y": i // 2}} for i in range(n)]
    perm = list(range(n))
    rng.shuffle(perm)           # decouple label order from abstract order (msdm sorts inferred lists)
    return [labs[perm[i]] for i in range(n)]


class Labels:
    """abstract index <-> label, for states, agents, per-agent actions and joint actions"""

    def __init__(self, g, rep, states=None, actions=None):
        rng = random.Random(rep["seed"])
        self.g = g
        self.agents = list(rep["agents"])
        self.s = states if states is not None else _labels(rep["labels"], g["N"], "s", rng)
        self.a = actions if actions is not None else [_labels(rep["alabels"], g["K"][i], f"a{i}", rng) for i in range(g["G"])]
        self._si = {lkey(l): i for i, l in enumerate(self.s)}
        self._ai = [{lkey(l): k for k, l in enumerate(self.a[i])} for i in range(g["G"])]
        self._ji = {tuple(c): j for j, c in enumerate(g["comp"])}
        self.rng = rng

    def sidx(self, lab):
        return self._si.get(lkey(lab))

    def aidx(self, i, lab):
        return self._ai[i].get(lkey(lab))

    def jidx(self, ja):
        """index of a joint action {agent: action label}; None when it is not one of the game's"""
        try:
            if set(ja.keys()) != set(self.agents):
                return None
            comp = tuple(self._ai[i][lkey(ja[ag])] + 1 for i, ag in enumerate(self.agents))
        except Exception:                                    # noqa: BLE001
            return None
        return self._ji.get(comp)

    def ja(self, j):
        return {ag: self.a[i][self.g["comp"][j][i] - 1] for i, ag in enumerate(self.agents)}

    def skey(self, lab):
        """msdm's documented sort key of state_list / joint_action_list"""
        return json.dumps(lab, sort_keys=True) if isinstance(lab, dict) else lab


class UnavailableJointAction(ValueError):
    pass


def build_game(g, rep):
    """The game as a TabularStochasticGame subclass.  The base constructor is bypassed the way
    TabularGridGame does (TabularStochasticGame.__init__ is exercised separately)."""
    from msdm.core.stochasticgame import TabularStochasticGame, StochasticGame
    from msdm.core.distributions import DictDistribution, DiscreteFactorTable
    L = Labels(g, rep)
    N, J, G = g["N"], g["J"], g["G"]
    hashable = rep["labels"] != "dict"

    def mk(pairs, den):
        if rep["dist"] == "dict" and hashable:
            return DictDistribution({e: float(F(p, den)) for e, p in pairs})
        return DiscreteFactorTable([e for e, _ in pairs], probs=[float(F(p, den)) for _, p in pairs])

    class HandGame(TabularStochasticGame):
        def __init__(self):
            StochasticGame.__init__(self, agent_names=list(L.agents))

        def initial_state_dist(self):
            return mk([(L.s[t], g["p0"][t]) for t in range(N) if g["p0"][t] > 0 or g["Z0"][t]], g["ID"])

        def joint_actions(self, s):
            si = L.sidx(s)
            out = {}
            for i, ag in enumerate(L.agents):
                acts = [L.a[i][a] for a in range(g["K"][i]) if g["avail"][si][i][a]]
                out[ag] = acts if rep["acts"] == "list" else tuple(acts) if rep["acts"] == "tuple" else (a for a in acts)
            return out

        def is_terminal(self, s):
            return bool(g["term"][L.sidx(s)])

        def next_state_dist(self, s, ja):
            si, j = L.sidx(s), L.jidx(ja)
            if rep["unavail"] == "raise" and j not in javail(g, si):
                raise UnavailableJointAction(f"joint action {ja} is not available in {s}")
            return mk([(L.s[t], g["P"][si][j][t]) for t in range(N) if g["P"][si][j][t] > 0 or g["Z"][si][j][t]], g["PD"])

        def joint_rewards(self, s, ja, ns):
            r = g["R"][L.sidx(s)][L.jidx(ja)][L.sidx(ns)]
            return {ag: (int(r[i]) if rep["rint"] else float(r[i])) for i, ag in enumerate(L.agents)}

    if rep["jad"]:
        def joint_action_dist(self, s):          # the uniform product, as reachable_states builds it
            acts = self.joint_actions(s)
            jas = [dict(zip(acts.keys(), v)) for v in itertools.product(*[list(x) for x in acts.values()])]
            return DiscreteFactorTable(jas)
        HandGame.joint_action_dist = joint_action_dist
    game = HandGame()
    if g["explicit"]:
        order = list(L.s)
        random.Random(rep["seed"] + 1).shuffle(order)
        game._states = order
        jorder = [L.ja(j) for j in range(J)]
        random.Random(rep["seed"] + 2).shuffle(jorder)
        game._joint_actions = jorder
    return game, L


# --------------------------------------------------------------------------------------------
# observing the real code (projection to abstract indices; everything json-able)
# --------------------------------------------------------------------------------------------
ARRAYS = ["transitionmatrix", "rewardmatrix", "stateactionrewardmatrix", "initialstatevec", "nonterminalstatevec",
          "reachablestatevec", "actionmatrix", "absorbingstatevec"]


def observe_game(game, L, g, *, grid=False):
    o = {"err": {}, "n": 0}

    def sset(xs):
        return sorted(-1 if L.sidx(s) is None else L.sidx(s) for s in xs)
    with quiet():
        try:
            o["reach"] = sset(game.reachable_states())
        except Exception as e:                                # noqa: BLE001
            o["err"]["reachable_states"] = _err(e)
        o["n"] += 1
        o["cuts"] = {}
        for k, c in enumerate(g["cuts"]):
            try:
                r = game.reachable_states(c) if k % 2 == 0 else game.reachable_states(MAX_STATES=c)
                o["cuts"][str(c)] = sset(r)
            except Exception as e:                            # noqa: BLE001
                o["err"][f"reachable_states({c})"] = _err(e)
            o["n"] += 1
        try:
            sl = list(game.state_list)
            o["sl"] = [L.sidx(s) for s in sl]
            try:
                o["sl_sorted"] = bool(sl == sorted(sl, key=L.skey))
            except TypeError:
                o["sl_sorted"] = None
        except Exception as e:                                # noqa: BLE001
            o["err"]["state_list"] = _err(e)
            return o
        try:
            jl = list(game.joint_action_list)
            o["jal"] = [L.jidx(a) if isinstance(a, dict) else None for a in jl]
            o["jal_agent_order_ok"] = True
            try:
                o["jal_sorted"] = bool(jl == sorted(jl, key=L.skey))
            except TypeError:
                o["jal_sorted"] = None
        except Exception as e:                                # noqa: BLE001
            o["err"]["joint_action_list"] = _err(e)
            return o
        o["n"] += 2
        o["agent_names"] = list(game.agent_names)
        for name in ARRAYS:
            try:
                arr = dense(getattr(game, name))
                o[name] = arr.tolist()
                o.setdefault("shape", {})[name] = list(arr.shape)
            except Exception as e:                            # noqa: BLE001
                o["err"][name] = _err(e)
            o["n"] += 1
        if grid:
            try:
                pl = list(game.position_list)
                o["position_list"] = [list(p) for p in pl]
            except Exception as e:                            # noqa: BLE001
                o["err"]["position_list"] = _err(e)
            o["n"] += 1
    return o


def observe_constructor():
    """TabularStochasticGame's own constructor, on a minimal subclass that relies on it."""
    from msdm.core.stochasticgame import TabularStochasticGame

    class Minimal(TabularStochasticGame):
        pass
    try:
        with quiet():
            m = Minimal(agent_names=["A", "B"])
        return {"ok": list(m.agent_names) == ["A", "B"], "err": None}
    except Exception as e:                                    # noqa: BLE001
        return {"ok": False, "err": _err(e)}


def _intval(x):
    try:
        return int(round(float(x))) if float(x) == round(float(x)) else 99999
    except Exception:                                         # noqa: BLE001
        return 99999


def observe_policy(game, L, g, rep, *, nruns=4):
    """SingleAgentPolicy per agent + TabularMultiAgentPolicy on the game; roll-outs through run_on."""
    from msdm.core.stochasticgame.policy.tabularpolicy import TabularMultiAgentPolicy, SingleAgentPolicy
    from msdm.core.assignment.assignmentmap import AssignmentMap
    o = {"err": {}, "n": 0, "agents": [], "runs": []}
    G, N, QD = g["G"], g["N"], g["QD"]
    rng = random.Random(rep["seed"] + 7)
    random.seed(rep["seed"] + 8)
    np.random.seed((rep["seed"] + 9) % (1 << 31))
    with quiet():
        try:
            sl, jl = list(game.state_list), list(game.joint_action_list)
        except Exception as e:                                # noqa: BLE001
            o["err"]["lists"] = _err(e)
            return o
        singles = {}
        for i, ag in enumerate(L.agents):
            pd = AssignmentMap()
            for s in range(N):
                inner = AssignmentMap()
                for a in range(g["K"][i]):
                    if g["WL"][i][s][a]:
                        inner[L.a[i][a]] = float(F(g["W"][i][s][a], QD))
                pd[L.s[s]] = inner
            qv, allact = None, True
            if rep["qvals"] == "joint":
                qv = AssignmentMap()
                for s in sl:
                    qv[s] = AssignmentMap()
                    for a in jl:
                        qv[s][a] = 1000.0 * (L.sidx(s) + 1) + (L.jidx(a) or 0) + 0.5 * i
            elif rep["qvals"] == "own":
                qv, allact = AssignmentMap(), False
                for s in sl:
                    qv[s] = AssignmentMap()
                    for a in range(g["K"][i]):
                        qv[s][L.a[i][a]] = 100.0 * (L.sidx(s) + 1) + a + 0.5 * i
            oa = {"err": {}}
            o["agents"].append(oa)
            try:
                sp = SingleAgentPolicy(ag, game, pd, q_vals=qv, all_actions=allact)
                singles[ag] = sp
            except Exception as e:                            # noqa: BLE001
                oa["err"]["construct"] = _err(e)
                continue
            o["n"] += 1
            oa["actions"] = [L.aidx(i, a) for a in sp._actions]
            oa["agent_name"] = sp.agent_name == ag
            for name in ("policy_matrix", "q_matrix"):
                try:
                    oa[name] = np.asarray(getattr(sp, name)).tolist()
                except Exception as e:                        # noqa: BLE001
                    oa["err"][name] = _err(e)
                o["n"] += 1
            oa["action_dist"] = {}
            try:
                for s in sl:
                    d = sp.action_dist(s)
                    oa["action_dist"][str(L.sidx(s))] = [[L.aidx(i, a), float(d.prob(a))] for a in d.support]
            except Exception as e:                            # noqa: BLE001
                oa["err"]["action_dist"] = _err(e)
            o["n"] += 1
        if len(singles) < G:
            return o
        try:
            mp = TabularMultiAgentPolicy(game, singles, discount_rate=0.5)
        except Exception as e:                                # noqa: BLE001
            o["err"]["construct"] = _err(e)
            return o
        o["n"] += 1
        o["jad"] = {}
        try:
            for s in sl:
                d = mp.joint_action_dist(s)
                o["jad"][str(L.sidx(s))] = [[L.jidx(a), float(d.prob(a))] for a in d.support]
        except Exception as e:                                # noqa: BLE001
            o["err"]["joint_action_dist"] = _err(e)
        try:
            o["jpm"] = np.asarray(mp.joint_policy_matrix).tolist()
        except Exception as e:                                # noqa: BLE001
            o["err"]["joint_policy_matrix"] = _err(e)
        try:
            o["state_list_same"] = bool(list(mp.state_list) == sl)
        except Exception as e:                                # noqa: BLE001
            o["err"]["state_list"] = _err(e)
        try:
            o["joint_action_list_same"] = bool(list(mp.joint_action_list) == jl)
        except Exception as e:                                # noqa: BLE001
            o["err"]["joint_action_list"] = _err(e)
        try:
            o["policy_dict_same"] = bool(all(mp.policy_dict[s][ag] == singles[ag].policy_dict[s] for s in sl for ag in L.agents))
        except Exception as e:                                # noqa: BLE001
            o["err"]["policy_dict"] = _err(e)
        o["n"] += 5
        starts = [s for s in sl if not game.is_terminal(s)]
        for r in range(nruns):
            mx = rng.choice([1, 2, 3, 3, 5])
            init = rng.choice(starts) if (starts and rng.random() < 0.4) else None
            run = {"mx": mx, "init": 0 if init is None else L.sidx(init) + 1}
            try:
                tr = mp.run_on(game, initialState=init, maxSteps=mx)
                st, ac, rw = tr["stateTraj"], tr["actionTraj"], tr["rewardTraj"]
                run["lens"] = [len(st), len(ac), len(rw)]
                run["ev"] = [{"s": (L.sidx(s) if L.sidx(s) is not None else -1) + 1,
                              "j": (L.jidx(a) if L.jidx(a) is not None else -1) + 1,
                              "r": [_intval(x.get(ag)) for ag in L.agents]} for s, a, x in zip(st, ac, rw)]
                run["keys"] = sorted(tr.keys())
            except Exception as e:                            # noqa: BLE001
                run["err"] = _err(e)
            o["runs"].append(run)
            o["n"] += 1
    return o


# --------------------------------------------------------------------------------------------
# independent Python oracle (cross-check of the TLA+ oracle; a disagreement is a machinery failure)
# --------------------------------------------------------------------------------------------
def py_cut_results(g, c, v):
    tm = {s for s in range(g["N"]) if g["term"][s]}
    s0 = frozenset(s for s in range(g["N"]) if g["p0"][s] > 0 or (v and g["Z0"][s]))
    adj = {}
    for s in range(g["N"]):
        adj[s] = frozenset(t for j in javail(g, s) for t in range(g["N"]) if g["P"][s][j][t] > 0 or (v and g["Z"][s][j][t]))
    out, seen, stack = set(), set(), [(s0, s0)]
    while stack:
        fr, vis = stack.pop()
        if (fr, vis) in seen:
            continue
        seen.add((fr, vis))
        if not fr or (c != INF and len(vis) > c):
            out.add(vis)
            continue
        for s in ([min(fr)] if g["big"] else fr):
            if s in tm:
                stack.append((fr - {s}, vis))
            else:
                new = adj[s] - vis
                stack.append(((fr - {s}) | new, vis | new))
    return out


def py_views(g):
    N, J, G = g["N"], g["J"], g["G"]
    av = [set(javail(g, s)) for s in range(N)]
    T = [[[g["P"][s][j][t] if j in av[s] else 0 for t in range(N)] for j in range(J)] for s in range(N)]
    R = [[[[g["R"][s][j][t][i] if T[s][j][t] > 0 else 0 for i in range(G)] for t in range(N)] for j in range(J)] for s in range(N)]
    absv = {s for s in range(N) if all(g["term"][t] for j in av[s] for t in range(N) if g["P"][s][j][t] > 0)}
    out = {"reach": py_reach(g, 0), "reach1": py_reach(g, 1), "T": T, "R": R, "absv": absv,
           "A": [[1 if j in av[s] else 0 for j in range(J)] for s in range(N)]}
    if g["pol"]:
        out["jpm"] = [[int(np.prod([g["W"][i][s][g["comp"][j][i] - 1] for i in range(G)])) for j in range(J)] for s in range(N)]
    return out


def py_judge_run(g, mx, init, ev):
    """Independent judge of a roll-out (events 1-based as sent to TLC); mirrors the clauses by name."""
    bad, n = set(), len(ev)
    P, R, term = g["P"], g["R"], g["term"]

    def jprob(s, j):
        return int(np.prod([g["W"][i][s][g["comp"][j][i] - 1] for i in range(g["G"])]))
    for l, e in enumerate(ev, start=1):
        s, j = e["s"] - 1, e["j"] - 1
        if l == 1 and init == 0 and g["p0"][s] == 0:
            bad.add("initial-state-outside-initial-support")
        if l == 1 and init != 0 and e["s"] != init:
            bad.add("initial-state-not-the-given-one")
        if l == 1 and term[s]:
            bad.add("step-from-terminal-initial-state")
        if l > mx:
            bad.add("longer-than-max-steps")
        if j not in javail(g, s):
            bad.add("joint-action-unavailable")
        if jprob(s, j) == 0:
            bad.add("joint-action-has-zero-policy-probability")
        if l < n:
            t = ev[l]["s"] - 1
            if P[s][j][t] == 0:
                bad.add("successor-has-zero-probability")
            if R[s][j][t] != e["r"]:
                bad.add("reward")
            if term[t]:
                bad.add("continued-after-terminal-state")
        else:
            cands = [t for t in range(g["N"]) if P[s][j][t] > 0 and R[s][j][t] == e["r"]]
            if not cands:
                bad.add("reward")
            elif n < mx and not any(term[t] for t in cands):
                bad.add("stopped-before-terminal-state")
    return bad


def crosscheck(i, g, rec):
    pv = py_views(g)
    one = lambda xs: {x - 1 for x in xs}            # noqa: E731
    if one(rec["reach"]) != pv["reach"] or one(rec["reach1"]) != pv["reach1"] or rec["T"] != pv["T"] or rec["R"] != pv["R"] \
            or rec["A"] != pv["A"] or one(rec["absv"]) != pv["absv"] or (g["pol"] and rec["jpm"] != pv["jpm"]):
        raise TLCFailure(f"TLA+ views and the independent Python oracle disagree on case {i}")
    for k, c in enumerate(g["cuts"]):
        for v, key in ((0, "cuts0"), (1, "cuts1")):
            if {frozenset(one(x)) for x in rec[key][k]} != {frozenset(x) for x in py_cut_results(g, c, v)}:
                raise TLCFailure(f"TLA+ CutResults and the Python oracle disagree on case {i} cut {c} variant {v}")


# --------------------------------------------------------------------------------------------
# judging
# --------------------------------------------------------------------------------------------
TOL = 1e-9      # sums / products of <= 40 floats that are exact to a few ulp (DESIGN 5.1: direct algebraic results)


class Judge:
    def __init__(self, ctx, case, rec):
        self.ctx, self.case, self.rec = ctx, case, rec
        self.g = g = case["g"]
        self.N, self.J, self.G = g["N"], g["J"], g["G"]
        one = lambda xs: {x - 1 for x in xs}            # noqa: E731
        self.reach, self.reach1 = one(rec["reach"]), one(rec["reach1"])
        self.term, self.absv, self.absv1 = one(rec["term"]), one(rec["absv"]), one(rec["absv1"])
        self.T, self.R, self.A = rec["T"], rec["R"], rec["A"]
        self.lst, self.jal = [x - 1 for x in rec["lst"]], [x - 1 for x in rec["jal"]]
        self.cuts0 = [{frozenset(one(x)) for x in sets} for sets in rec["cuts0"]]
        self.cuts1 = [{frozenset(one(x)) for x in sets} for sets in rec["cuts1"]]
        self.values = case.get("values")
        self.ok = True
        self.seen = set()

    # expected float of a probability entry (numerator over PD, or value id of an extracted instance)
    def pval(self, x):
        return float(F(x, self.g["PD"])) if self.g["PD"] else self.values[x]

    def fail(self, site, shape, what, obj="game"):
        self.ok = False
        if (site, shape) in self.seen:
            return
        self.seen.add((site, shape))
        self.ctx.violation(f"X04:{site}:{shape}", what, {"case": self.case, "object": obj, "clause": shape})

    # ---------------------------------------------------------------- reachable_states
    def reachability(self, o):
        g = self.g
        if "reachable_states" in o["err"]:
            self.fail("reachable_states", "error", f"raised {o['err']['reachable_states']}")
        elif "reach" in o:
            got = set(o["reach"])
            if got != self.reach:
                if got == self.reach1:
                    shape = "zero-probability-successor-included"
                elif got - self.reach:
                    shape = "unreachable-state-included"
                else:
                    shape = "reachable-state-missing"
                self.fail("reachable_states", shape,
                          f"returned states {sorted(got)} but the states reachable with positive probability "
                          f"(terminal states not expanded) are {sorted(self.reach)}")
        s0 = {s for s in range(self.N) if g["p0"][s] > 0}
        for k, c in enumerate(g["cuts"]):
            key = f"reachable_states({c})"
            if key in o["err"]:
                self.fail("reachable_states", "MAX_STATES-error", f"MAX_STATES={c} raised {o['err'][key]}")
                continue
            if str(c) not in o["cuts"]:
                continue
            got = frozenset(o["cuts"][str(c)])
            if got in self.cuts0[k]:
                continue
            why = None
            if not (s0 <= got):
                why = "initial support missing"
            elif not (got <= self.reach):
                why = "contains states that are not reachable with positive probability"
            elif len(self.reach) <= c and got != self.reach:
                why = "cut although the limit was never exceeded"
            elif len(got) < min(c, len(self.reach)):
                why = "stopped before the limit was reached"
            adm = sorted(map(sorted, self.cuts0[k]))
            if got in self.cuts1[k] and why and not (got <= self.reach):
                self.fail("reachable_states", "zero-probability-successor-included",
                          f"MAX_STATES={c}: returned {sorted(got)}: {why}; explained only by following zero-probability "
                          f"entries (admissible results {adm})")
            elif why:
                self.fail("reachable_states", "MAX_STATES-cutoff", f"MAX_STATES={c}: returned {sorted(got)}: {why} (admissible {adm})")
            elif got in self.cuts1[k]:      # explained by the machine variant that also lists zero-probability entries
                self.ctx.drift("reachable_states-cutoff-lists-zero-probability-initial-entry",
                               {"case": digest(self.case), "cut": c, "got": sorted(got)})
            else:       # only reachable states, limit honoured: which states were expanded first is implementation-shaped
                self.ctx.drift("reachable_states-cutoff-machine", {"case": digest(self.case), "cut": c, "got": sorted(got)})

    # ---------------------------------------------------------------- lists and arrays
    def arrays(self, o, rep, *, grid=False):
        g, ctx = self.g, self.ctx
        explicit = bool(g["explicit"])
        if "state_list" in o["err"]:
            self.fail("state_list", "error", f"raised {o['err']['state_list']}")
            return
        if "joint_action_list" in o["err"]:
            self.fail("joint_action_list", "error", f"raised {o['err']['joint_action_list']}")
            return
        sl, jl = o["sl"], o["jal"]
        if None in sl or len(set(sl)) != len(sl):
            self.fail("state_list", "duplicates-or-unknown", f"state list projects to {sl}")
            return
        if None in jl or len(set(jl)) != len(jl):
            self.fail("joint_action_list", "duplicates-or-unknown", f"joint action list projects to {jl}")
            return
        want = set(range(self.N)) if explicit else self.reach
        if set(sl) != want:
            if not explicit and set(sl) == self.reach1:
                self.fail("reachable_states", "zero-probability-successor-included",
                          f"state_list {sorted(sl)} contains states only listed with probability 0; reachable: {sorted(want)}")
            else:
                shape = ("not-the-given-list" if explicit else
                         "unreachable-state-included" if set(sl) - want else "reachable-state-missing")
                self.fail("state_list", shape, f"state list {sorted(sl)} but expected {sorted(want)}")
        wantj = set(range(self.J)) if explicit else {j for j in range(self.J) if any(self.A[s][j] for s in sl)}
        if set(sl) == set(self.lst) and set(self.jal) != wantj:
            raise TLCFailure("joint action list of the machine differs from the union of the emitted availability rows")
        if set(jl) != wantj:
            shape = ("not-the-given-list" if explicit else
                     "available-joint-action-missing" if wantj - set(jl) else "not-a-product-of-the-listed-states-action-lists")
            self.fail("joint_action_list", shape, f"joint action list {sorted(jl)} but the union over the listed states of the "
                      f"products of the per-agent action lists is {sorted(wantj)}")
            if wantj - set(jl):
                return
        if o.get("sl_sorted") is False and not explicit:
            ctx.drift("state_list-order", {"case": digest(self.case)})
        if o.get("jal_sorted") is False and not explicit:
            ctx.drift("joint_action_list-order", {"case": digest(self.case)})
        if o["agent_names"] != list(rep["agents"]):
            self.fail("agent_names", "changed", f"agent_names {o['agent_names']} != {rep['agents']}")
            return
        n, k, G = len(sl), len(jl), self.G
        L = set(sl)
        # rows that list a state outside the list / rows of unavailable joint actions, on the real lists
        outof = [(s, j) for s in sl for j in jl
                 if any((g["P"][s][j][t] > 0 or g["Z"][s][j][t]) and t not in L for t in range(self.N))]
        if sl == self.lst and sorted(jl) == sorted(self.jal) and sorted(map(tuple, outof)) != sorted((a - 1, b - 1) for a, b in self.rec["outof"]):
            raise TLCFailure("OutOf of the spec differs from the driver's projection")

        def root_shape(msg):
            if "UnavailableJointAction" in msg:
                return "unavailable-joint-action-row"
            if "is not in list" in msg and outof:
                s, j = outof[0]
                if s in self.term:
                    return "terminal-successor-outside-state-list"
                if not self.A[s][j]:
                    return "unavailable-joint-action-row"
                return "zero-probability-successor-outside-state-list"
            return "error"
        shapes = {"transitionmatrix": [n, k, n], "rewardmatrix": [n, k, n, G], "stateactionrewardmatrix": [n, k, G],
                  "initialstatevec": [n], "nonterminalstatevec": [n], "reachablestatevec": [n], "actionmatrix": [n, k],
                  "absorbingstatevec": [n]}
        have = {}
        for name, shp in shapes.items():
            if name in o["err"]:
                msg = o["err"][name]
                if name in ("actionmatrix", "absorbingstatevec") and "joint_action_dist" in msg and not rep.get("jad"):
                    self.fail(name, "joint_action_dist-undefined", f"raised {msg}: the property calls self.joint_action_dist, "
                              "which neither StochasticGame nor TabularStochasticGame (nor TabularGridGame) defines")
                elif name == "stateactionrewardmatrix" and "transitionmatrix" in o["err"]:
                    ctx.skip("stateactionrewardmatrix not compared: transitionmatrix could not be built")
                else:
                    self.fail(name, root_shape(msg), f"raised {msg} (state list {sl})")
            elif o.get("shape", {}).get(name) != shp:
                self.fail(name, "shape", f"shape {o.get('shape', {}).get(name)} != {shp}")
            else:
                have[name] = o[name]
        PD = g["PD"]
        tm, rm = have.get("transitionmatrix"), have.get("rewardmatrix")
        for si, s in enumerate(sl):
            for ji, j in enumerate(jl):
                av = self.A[s][j]
                if tm is not None:
                    for ti, t in enumerate(sl):
                        e = self.pval(self.T[s][j][t])
                        if tm[si][ji][ti] != e:
                            if not av and tm[si][ji][ti] == self.pval(g["P"][s][j][t]):
                                self.fail("transitionmatrix", "unavailable-joint-action-row",
                                          f"transitionmatrix[{s},{j},{t}] = {tm[si][ji][ti]}: joint action {j} is not offered by "
                                          f"joint_actions({s}), the row should be zero")
                            else:
                                self.fail("transitionmatrix", "terminal-state-row" if s in self.term else "cell",
                                          f"transitionmatrix[{s},{j},{t}] = {tm[si][ji][ti]} but next_state_dist gives {e}")
                    if av and s not in self.term and all(t in L for t in range(self.N) if g["P"][s][j][t] > 0):
                        tot = float(np.sum(tm[si][ji]))
                        if abs(tot - 1.0) > TOL:
                            self.fail("transitionmatrix", "row-not-normalised", f"transitionmatrix[{s},{j},:] sums to {tot}")
                if rm is not None:
                    for ti, t in enumerate(sl):
                        for i in range(G):
                            e = float(self.R[s][j][t][i])
                            got = rm[si][ji][ti][i]
                            if got != e:
                                raw = float(g["R"][s][j][t][i])
                                listed = g["P"][s][j][t] > 0 or g["Z"][s][j][t]
                                if got == raw and listed and av and g["P"][s][j][t] == 0:
                                    ctx.drift("rewardmatrix-zero-probability-entry", {"case": digest(self.case), "cell": [s, j, t]})
                                elif got == raw and listed and not av:
                                    self.fail("rewardmatrix", "unavailable-joint-action-row",
                                              f"rewardmatrix[{s},{j},{t},{i}] = {got}: joint action {j} is not offered by "
                                              f"joint_actions({s}), the row should be zero")
                                else:
                                    self.fail("rewardmatrix", "terminal-state-row" if s in self.term else "cell",
                                              f"rewardmatrix[{s},{j},{t},agent {i}] = {got} but joint_rewards gives {e}")
                if "stateactionrewardmatrix" in have:
                    for i in range(G):
                        terms = [self.pval(self.T[s][j][t]) * self.R[s][j][t][i] for t in sl]
                        e = float(sum(terms))
                        got = have["stateactionrewardmatrix"][si][ji][i]
                        if abs(got - e) > TOL * max(1.0, sum(abs(x) for x in terms)):
                            raw = float(sum(self.pval(g["P"][s][j][t]) * g["R"][s][j][t][i] for t in sl))
                            if not av and abs(got - raw) <= TOL * max(1.0, abs(raw)):
                                self.fail("stateactionrewardmatrix", "unavailable-joint-action-row",
                                          f"stateactionrewardmatrix[{s},{j},{i}] = {got}: unavailable joint action, should be 0")
                            else:
                                self.fail("stateactionrewardmatrix", "cell",
                                          f"stateactionrewardmatrix[{s},{j},agent {i}] = {got} but sum_t T*R = {e}")
                        if PD and sl == self.lst and sorted(jl) == sorted(self.jal):
                            e2 = float(F(self.rec["lsar"][si][self.jal.index(j)][i], PD))
                            if abs(e - e2) > TOL * max(1.0, abs(e2)):
                                raise TLCFailure("spec's list-keyed state-action rewards differ from the keyed views")
                if "actionmatrix" in have and have["actionmatrix"][si][ji] != av:
                    self.fail("actionmatrix", "cell", f"actionmatrix[{s},{j}] = {have['actionmatrix'][si][ji]} but available = {av}")
            if "initialstatevec" in have:
                e = float(F(g["p0"][s], g["ID"]))
                if have["initialstatevec"][si] != e:
                    self.fail("initialstatevec", "cell", f"initialstatevec[{s}] = {have['initialstatevec'][si]} != {e}")
            if "nonterminalstatevec" in have and have["nonterminalstatevec"][si] != (0 if s in self.term else 1):
                self.fail("nonterminalstatevec", "cell", f"nonterminalstatevec[{s}] = {have['nonterminalstatevec'][si]}")
            if "reachablestatevec" in have and bool(have["reachablestatevec"][si]) != (s in self.reach):
                if s in self.reach1:
                    self.fail("reachable_states", "zero-probability-successor-included",
                              f"reachablestatevec[{s}] = 1 for a state only listed with probability 0")
                else:
                    self.fail("reachablestatevec", "cell", f"reachablestatevec[{s}] = {have['reachablestatevec'][si]}")
            if "absorbingstatevec" in have and bool(have["absorbingstatevec"][si]) != (s in self.absv):
                if bool(have["absorbingstatevec"][si]) == (s in self.absv1):
                    ctx.drift("absorbingstatevec-zero-probability-entry", {"case": digest(self.case), "state": s})
                else:
                    self.fail("absorbingstatevec", "cell", f"absorbingstatevec[{s}] = {have['absorbingstatevec'][si]} but "
                              f"'every outcome of every available joint action is terminal' is {s in self.absv}")
        if "initialstatevec" in have and set(sl) >= {s for s in range(self.N) if g["p0"][s] > 0} \
                and abs(sum(have["initialstatevec"]) - 1.0) > TOL:
            self.fail("initialstatevec", "not-normalised", f"sums to {sum(have['initialstatevec'])}")
        if grid:
            if "position_list" in o["err"]:
                self.fail("position_list", "error", f"raised {o['err']['position_list']}")
            elif set(sl) == set(self.lst):
                got = [self.case["posid"].get(f"{p[0]},{p[1]}") for p in o["position_list"]]
                if None in got or len(set(got)) != len(got) or set(got) != set(self.rec["positions"]):
                    self.fail("position_list", "set", f"position_list {o['position_list']} is not the set of agent positions "
                              "of the listed states")

    # ---------------------------------------------------------------- policy classes
    def policy(self, o, go, rep):
        """o: observe_policy result, go: observe_game result (real lists)."""
        g, ctx = self.g, self.ctx
        if "lists" in o["err"] or "sl" not in go or "jal" not in go or None in go["sl"] or None in go["jal"]:
            ctx.skip("policy classes not compared: the game's lists could not be built")
            return []
        sl, jl, QD, G = go["sl"], go["jal"], g["QD"], self.G
        s0 = [s for s in range(self.N) if g["p0"][s] > 0]
        for i, oa in enumerate(o["agents"]):
            site = "SingleAgentPolicy"
            if "construct" in oa["err"]:
                self.fail(site, "error", f"constructor raised {oa['err']['construct']}", "policy")
                continue
            acts = oa["actions"]
            cand = [sorted(a for a in range(g["K"][i]) if g["avail"][s][i][a]) for s in s0]
            if None in acts or len(set(acts)) != len(acts) or sorted(acts) not in cand:
                ctx.drift("SingleAgentPolicy._actions", {"case": digest(self.case), "agent": i, "got": acts, "expected one of": cand})
                continue
            if not oa.get("agent_name"):
                self.fail(site + ".agent_name", "changed", "agent_name differs from the constructor argument", "policy")
            if "policy_matrix" in oa["err"]:
                self.fail(site + ".policy_matrix", "error", f"raised {oa['err']['policy_matrix']}", "policy")
            else:
                pm = oa["policy_matrix"]
                if np.asarray(pm).shape != (len(sl), len(acts)):
                    self.fail(site + ".policy_matrix", "shape", f"shape {np.asarray(pm).shape}", "policy")
                else:
                    for si, s in enumerate(sl):
                        for ai, a in enumerate(acts):
                            e = float(F(g["W"][i][s][a], QD))
                            if abs(pm[si][ai] - e) > TOL:
                                self.fail(site + ".policy_matrix", "cell", f"agent {i}: policy_matrix[{s},{a}] = {pm[si][ai]} "
                                          f"but the policy gives {e}", "policy")
            if "action_dist" in oa["err"]:
                self.fail(site + ".action_dist", "error", f"raised {oa['err']['action_dist']}", "policy")
            else:
                for s in sl:
                    got = {a: p for a, p in oa["action_dist"][str(s)] if p > 0}
                    exp = {a: float(F(w, QD)) for a, w in enumerate(g["W"][i][s]) if w > 0}
                    if set(got) != set(exp) or any(abs(got[a] - exp[a]) > TOL for a in exp):
                        self.fail(site + ".action_dist", "cell", f"agent {i}: action_dist({s}) = {got} but the policy is {exp}", "policy")
            if "q_matrix" in oa["err"]:
                self.fail(site + ".q_matrix", "error", f"raised {oa['err']['q_matrix']}", "policy")
            else:
                qm = np.asarray(oa["q_matrix"])
                if rep["qvals"] == "own":
                    exp = np.array([[100.0 * (s + 1) + a + 0.5 * i for a in acts] for s in sl])
                elif rep["qvals"] == "joint":
                    exp = np.array([[1000.0 * (s + 1) + j + 0.5 * i for j in jl] for s in sl])
                else:
                    exp = np.zeros((len(sl), len(jl)))
                if qm.shape != exp.shape:
                    self.fail(site + ".q_matrix", "shape", f"shape {qm.shape} != {exp.shape}", "policy")
                elif not np.array_equal(qm, exp):
                    self.fail(site + ".q_matrix", "cell", f"agent {i}: q_matrix differs from the stored q-values "
                              f"(first difference at {np.argwhere(qm != exp)[0].tolist()})", "policy")
        if len([oa for oa in o["agents"] if "construct" not in oa["err"]]) < G:
            return []
        site = "TabularMultiAgentPolicy"
        if "construct" in o["err"]:
            self.fail(site, "error", f"constructor raised {o['err']['construct']}", "policy")
            return []
        den = float(QD ** G)
        jpm = self.rec["jpm"]
        if "joint_action_dist" in o["err"]:
            self.fail(site + ".joint_action_dist", "error", f"raised {o['err']['joint_action_dist']}", "policy")
        else:
            for s in sl:
                got = {j: p for j, p in o["jad"][str(s)] if p > 0}
                exp = {j: jpm[s][j] / den for j in range(self.J) if jpm[s][j] > 0}
                if None in got or set(got) != set(exp) or any(abs(got[j] - exp[j]) > TOL for j in exp):
                    self.fail(site + ".joint_action_dist", "not-the-product", f"joint_action_dist({s}) = {got} but the product of "
                              f"the agents' policies is {exp}", "policy")
        missing = [(s, j) for s in sl for j in jl if any(not g["WL"][i][s][g["comp"][j][i] - 1] for i in range(G))]
        if sl == self.lst and sorted(jl) == sorted(self.jal) and sorted(missing) != sorted((a - 1, b - 1) for a, b in self.rec["polmissing"]):
            raise TLCFailure("PolMissing of the spec differs from the driver's projection")
        if "joint_policy_matrix" in o["err"]:
            msg = o["err"]["joint_policy_matrix"]
            shape = "action-missing-from-policy-dict" if ("KeyError" in msg and missing) else "error"
            self.fail(site + ".joint_policy_matrix", shape, f"raised {msg}" + (
                f": an agent's policy dictionary has no entry for its component of joint action {missing[0][1]} at state "
                f"{missing[0][0]} (probability 0)" if missing else ""), "policy")
        else:
            m = np.asarray(o["jpm"])
            if m.shape != (len(sl), len(jl)):
                self.fail(site + ".joint_policy_matrix", "shape", f"shape {m.shape}", "policy")
            else:
                for si, s in enumerate(sl):
                    for ji, j in enumerate(jl):
                        if abs(m[si][ji] - jpm[s][j] / den) > TOL:
                            self.fail(site + ".joint_policy_matrix", "not-the-product", f"joint_policy_matrix[{s},{j}] = {m[si][ji]} "
                                      f"but the product of the agents' policies is {jpm[s][j] / den}", "policy")
        for name in ("state_list", "joint_action_list", "policy_dict"):
            if name in o["err"]:
                self.fail(f"{site}.{name}", "error", f"raised {o['err'][name]}", "policy")
            elif o.get(f"{name}_same") is False:
                self.fail(f"{site}.{name}", "differs", f"{name} of the joint policy differs from the game's / agents'", "policy")
        ctx.skip("occupancy_matrix not evaluated: its result depends on pydata/sparse, which is not installed")
        # roll-outs: structural checks here, validity by TLC (X04_Run, MODE trace)
        traces = []
        for r in o["runs"]:
            if "err" in r:
                self.fail("MultiAgentPolicy.run_on", "error", f"maxSteps={r['mx']} raised {r['err']}", "policy")
                continue
            if r["keys"] != ["actionTraj", "rewardTraj", "stateTraj"] or len(set(r["lens"])) != 1 or r["lens"][0] < 1:
                self.fail("MultiAgentPolicy.run_on", "result-shape", f"keys {r['keys']} lengths {r['lens']}", "policy")
                continue
            if any(e["s"] < 1 or e["j"] < 1 for e in r["ev"]):
                self.fail("MultiAgentPolicy.run_on", "unknown-state-or-joint-action", f"trajectory {r['ev']}", "policy")
                continue
            traces.append(r)
        return traces

    def run_verdict(self, r, bad):
        """bad: the set of clause names X04_Run found broken on roll-out r."""
        if not bad:
            return True
        if bad == {"step-from-terminal-initial-state"}:
            self.ctx.drift("run_on-steps-from-terminal-initial-state", {"case": digest(self.case), "run": r})
            return True
        for c in sorted(bad - {"step-from-terminal-initial-state"}):
            self.fail("MultiAgentPolicy.run_on", c, f"maxSteps={r['mx']} initialState={r['init']} returned {r['ev']}: {c}", "policy")
        return False


# --------------------------------------------------------------------------------------------
# instances extracted from TabularGridGame layouts (functional interface only)
# --------------------------------------------------------------------------------------------
GRID_ACTIONS = [{"x": 0, "y": 0}, {"x": 1, "y": 0}, {"x": -1, "y": 0}, {"x": 0, "y": 1}, {"x": 0, "y": -1}]
GRID_SIZES = [(3, 1), (4, 1), (2, 2), (3, 2), (2, 3), (5, 1), (3, 1), (2, 2)]


def make_layout(rng):
    W, H = rng.choice(GRID_SIZES)
    cells = [(x, y) for y in range(H) for x in range(W)]
    rng.shuffle(cells)
    grid = {c: "." for c in cells}
    grid[cells[0]], grid[cells[1]] = "A0", "A1"
    rest = cells[2:]
    mode = rng.choice(["own", "own", "shared", "both"])
    goals = {"own": ["G0", "G1"], "shared": ["G"], "both": ["G0", "G1", "G"]}[mode]
    for sym in goals:
        if rest:
            grid[rest.pop()] = sym
    for c in rest:
        r = rng.random()
        if r < 0.15:
            grid[c] = "#"
        elif r < 0.35:
            grid[c] = rng.choice(["[", "]", "^", "_", "{", "}", "~", "u"])
    if rng.random() < 0.3:
        grid[cells[0]] = "A0." + rng.choice(["{", "}", "~", "u", "]", "^"])
    layout = "\n".join(" ".join(grid[(x, y)] for x in range(W)) for y in range(H))
    params = {"goal_reward": rng.choice([10, 5]), "step_cost": rng.choice([-1, -1, 0, -2]),
              "collision_cost": rng.choice([0, -3]), "fence_success_prob": rng.choice([0.5, 0.25, 1.0])}
    return layout, params


def build_grid(layout, params):
    from msdm.domains.gridgame.tabulargridgame import TabularGridGame
    with quiet():
        return TabularGridGame(layout, **params)


def extract_grid(rng, layout, params, *, policy, max_states=48):
    """The abstract instance of a grid game, read off its functional interface (joint_actions, is_terminal,
    next_state_dist, joint_rewards, initial_state_dist) on the closure of the initial state and of a few
    other placements of the agents.  Returns a case or None when the layout is unusable."""
    gg = build_grid(layout, params)
    agents = list(gg.agent_names)
    if len(agents) != 2:
        return None
    G, K = 2, [5, 5]
    comp = [list(c) for c in itertools.product(range(1, 6), range(1, 6))]
    J = 25

    def ja(j):
        return {ag: GRID_ACTIONS[comp[j][i] - 1] for i, ag in enumerate(agents)}
    states, index, rows = [], {}, {}

    def add(s):
        k = lkey(s)
        if k not in index:
            index[k] = len(states)
            states.append(copy.deepcopy(s))
            return True
        return False

    def close(start):
        """expand through positive-probability outcomes; returns False when some row is unusable"""
        todo = [start]
        add(start)
        while todo:
            s = todo.pop()
            k = lkey(s)
            if k in rows:
                continue
            rows[k] = []
            with quiet():
                acts = gg.joint_actions(s)
                if [list(acts[ag]) for ag in agents] != [GRID_ACTIONS, GRID_ACTIONS]:
                    return False
                for j in range(J):
                    d = gg.next_state_dist(s, ja(j))
                    ent = [(t, float(d.prob(t))) for t in d.support]
                    if not any(p > 0 for _, p in ent) or len({lkey(t) for t, _ in ent}) != len(ent):
                        return False
                    rw = []
                    for t, p in ent:
                        r = gg.joint_rewards(s, ja(j), t)
                        rw.append([_intval(r[ag]) for ag in agents])
                        if add(t):
                            todo.append(t)
                    rows[k].append((ent, rw))
            if len(states) > max_states:
                return False
        return True
    with quiet():
        init = gg.initial_state_dist()
        isupp = [(s, float(init.prob(s))) for s in init.support]
    if len(isupp) != 1 or isupp[0][1] != 1.0 or not close(isupp[0][0]):
        return None
    # a few other placements (usually unreachable): the reachable set is decided by TLC, not assumed
    free = [(x, y) for x in range(gg.width) for y in range(gg.height)
            if not any((o["x"], o["y"]) == (x, y) for o in gg.obstacles)]
    for _ in range(3):
        if len(free) < 2 or len(states) > max_states - 12:
            break
        c0, c1 = rng.sample(free, 2)
        s = copy.deepcopy(isupp[0][0])
        for ag, c in zip(agents, (c0, c1)):
            s[ag]["x"], s[ag]["y"] = c
        if lkey(s) in index:
            continue
        keep = (list(states), dict(index), dict(rows))
        if not close(s):
            states[:], index, rows = keep[0], keep[1], keep[2]
            index = {lkey(x): i for i, x in enumerate(states)}
            rows = {k: v for k, v in rows.items() if k in index}
    N = len(states)
    if N > max_states or any(lkey(s) not in rows for s in states):
        return None
    values, vid = [0.0], {0.0: 0}
    P = [[[0] * N for _ in range(J)] for _ in range(N)]
    Z = [[[0] * N for _ in range(J)] for _ in range(N)]
    R = [[[[0, 0] for _ in range(N)] for _ in range(J)] for _ in range(N)]
    for si, s in enumerate(states):
        for j in range(J):
            ent, rw = rows[lkey(s)][j]
            for (t, p), r in zip(ent, rw):
                ti = index[lkey(t)]
                if p > 0:
                    if p not in vid:
                        vid[p] = len(values)
                        values.append(p)
                    P[si][j][ti] = vid[p]
                else:
                    Z[si][j][ti] = 1
                R[si][j][ti] = r
    posid, pos = {}, []
    for s in states:
        ps = []
        if not gg.is_terminal(s):
            for ag in agents:
                key = f"{s[ag]['x']},{s[ag]['y']}"
                posid.setdefault(key, len(posid) + 1)
                ps.append(posid[key])
        pos.append(ps)
    g = {"N": N, "G": G, "K": K, "J": J, "comp": comp, "PD": 0, "ID": 1,
         "term": [1 if gg.is_terminal(s) else 0 for s in states],
         "avail": [[[1] * 5, [1] * 5] for _ in range(N)], "P": P, "Z": Z, "R": R,
         "p0": [1 if i == index[lkey(isupp[0][0])] else 0 for i in range(N)], "Z0": [0] * N, "pos": pos,
         "big": 1, "pol": 0, "explicit": 0, "cuts": []}
    if policy:
        W = [[rand_row(rng, 5, 4) for _ in range(N)] for _ in range(G)]
        g.update(pol=1, QD=4, W=W, WL=[[[1] * 5 for _ in range(N)] for _ in range(G)])
    rep = {"agents": agents, "labels": "dict", "alabels": "dict", "jad": 0, "qvals": rng.choice([None, "joint", "own"]),
           "seed": rng.randrange(1 << 30)}
    return {"kind": "grid", "g": g, "rep": rep, "style": "grid", "layout": layout, "params": params,
            "states": states, "values": values, "posid": posid}


def grid_objects(case):
    gg = build_grid(case["layout"], case["params"])
    L = Labels(case["g"], case["rep"], states=case["states"], actions=[GRID_ACTIONS, GRID_ACTIONS])
    return gg, L


def make_grid_cases(rng, n):
    out, tries = [], 0
    while len(out) < n and tries < 20 * n + 20:
        tries += 1
        layout, params = make_layout(rng)
        try:
            c = extract_grid(rng, layout, params, policy=(len(out) % 2 == 0))
        except Exception:                                     # noqa: BLE001
            c = None
        if c is not None:
            out.append(c)
    return out


# --------------------------------------------------------------------------------------------
# running the real code for a case; TLC runs; verdicts
# --------------------------------------------------------------------------------------------
def run_real(case):
    """All executions of the real code for one case: {'game': observation, 'policy': observation | None}."""
    g, rep = case["g"], case["rep"]
    grid = case["kind"] == "grid"
    try:
        game, L = grid_objects(case) if grid else build_game(g, rep)
    except Exception as e:                                    # noqa: BLE001
        return {"game": {"err": {"construct": _err(e)}, "n": 1}, "policy": None}
    out = {"game": observe_game(game, L, g, grid=grid), "policy": None}
    if g["pol"] and "state_list" not in out["game"]["err"] and "joint_action_list" not in out["game"]["err"]:
        try:
            out["policy"] = observe_policy(game, L, g, rep, nruns=(6 if grid else 4))
        except ImportError as e:
            out["policy"] = {"err": {"import": _err(e)}, "n": 0, "agents": [], "runs": []}
    return out


def _tlc_g(g):
    """the fields TLC reads (no floats)"""
    return {k: v for k, v in g.items()}


def judge_cases(ctx, cases, *, real=None, tag=""):
    batch = [_tlc_g(c["g"]) for c in cases]
    res = run_tlc(ctx.workdir / f"views{tag}", "X04_GameViews", VIEWS_CFG, files={"batch.json": batch},
                  env={"BATCH_FILE": "batch.json"}, coverage=(ctx.tier == "thorough" and tag == "0"), timeout=1500)
    ctx.add_tlc(res, "mc: search machine (all pop orders x MAX_STATES cut-offs x positive-probability / listed-entry variants), "
                     "list, joint-action collection, row-by-row arrays, derived vectors, joint policy matrix; keyed-view oracle")
    bad = [v for v in res.violated if v in VIEWS_INVS]
    if bad:
        raise TLCFailure(f"design-level invariant violated in X04_GameViews: {sorted(set(bad))}\n"
                         + (res.traces[0][:3000] if res.traces else ""))
    views, mach = {}, {}
    for r in res.records:
        if r["kind"] == "views":
            views[r["iid"]] = r
        else:
            mach.setdefault((r["iid"], r["cut"], r["variant"]), set()).add(frozenset(x - 1 for x in r["visited"]))
    judges, alltraces = [], []
    pol_games = []
    for i, c in enumerate(cases, start=1):
        g = c["g"]
        rec = views.get(i)
        if rec is None:
            raise TLCFailure(f"no views record for case {i}")
        J = Judge(ctx, c, rec)
        for k, cut in enumerate(g["cuts"]):       # the machine's terminal states are exactly the oracle's results
            if mach.get((i, cut, 0), set()) != J.cuts0[k]:
                raise TLCFailure(f"machine terminals != CutResults for case {i} cut {cut} variant 0")
            if (i, cut, 1) in mach and mach[(i, cut, 1)] != J.cuts1[k]:
                raise TLCFailure(f"machine terminals != CutResults for case {i} cut {cut} variant 1")
        if i % 3 == 0 or len(cases) < 20 or c["kind"] == "grid":
            crosscheck(i, g, rec)
            ctx.count("oracle_crosschecks")
        obs = real[i - 1] if real is not None else run_real(c)
        ctx.evaluations += obs["game"].get("n", 0) + (obs["policy"] or {}).get("n", 0)
        go = obs["game"]
        if "construct" in go["err"]:
            J.fail("TabularGridGame" if c["kind"] == "grid" else "TabularStochasticGame", "error",
                   f"construction raised {go['err']['construct']}")
            judges.append((J, c, obs, []))
            continue
        J.reachability(go)
        J.arrays(go, c["rep"], grid=(c["kind"] == "grid"))
        traces = []
        if obs["policy"] is not None:
            if "import" in obs["policy"]["err"]:
                ctx.skip("policy classes not importable: " + obs["policy"]["err"]["import"])
            else:
                traces = J.policy(obs["policy"], go, c["rep"])
                if traces:
                    pol_games.append(i)
        for r in traces:
            alltraces.append((J, r, {"gid": i, "mx": r["mx"], "init": r["init"], "ev": r["ev"]}))
        judges.append((J, c, obs, traces))
    # ---- roll-outs: generator MC over the policy games, validation of the recorded roll-outs
    if alltraces:
        # games without a policy are replaced by a stub so that gid indexes the same batch
        small = [i for i in pol_games if cases[i - 1]["kind"] == "hand"]
        gen_games = [batch[i - 1] for i in small]
        if gen_games:
            rg = run_tlc(ctx.workdir / f"gen{tag}", "X04_Run", GEN_CFG, files={"batch.json": {"games": gen_games, "traces": []}},
                         env={"BATCH_FILE": "batch.json", "MODE": "mc"}, timeout=1500)
            ctx.add_tlc(rg, "mc: reference machine of run_on, every roll-out for maxSteps 1..3; the judge accepts each")
            badg = [v for v in rg.violated if v in GEN_INVS]
            if badg:
                raise TLCFailure(f"design-level invariant violated in X04_Run (mc): {sorted(set(badg))}\n"
                                 + (rg.traces[0][:3000] if rg.traces else ""))
        games = [b if (k + 1) in pol_games else {"N": 0} for k, b in enumerate(batch)]
        rt = run_tlc(ctx.workdir / f"trace{tag}", "X04_Run", TRACE_CFG,
                     files={"batch.json": {"games": games, "traces": [t for _, _, t in alltraces]}},
                     env={"BATCH_FILE": "batch.json", "MODE": "trace"}, timeout=1500)
        ctx.add_tlc(rt, "trace: recorded run_on roll-outs, one Check action per event")
        verdicts = {r["tid"]: set(r["bad"]) for r in rt.records if "tid" in r}
        for tid, (J, r, t) in enumerate(alltraces, start=1):
            if tid not in verdicts:
                raise TLCFailure(f"no verdict for roll-out {tid}")
            pyb = py_judge_run(cases[t["gid"] - 1]["g"], t["mx"], t["init"], t["ev"])
            if pyb != verdicts[tid]:
                raise TLCFailure(f"X04_Run and the independent Python judge disagree on roll-out {tid}: {verdicts[tid]} vs {pyb}")
            if J.run_verdict(r, verdicts[tid]):
                ctx.validated += 1
                ctx.count("rollouts_accepted")
                if len(r["ev"]) >= 2 and len({e["s"] for e in r["ev"]}) >= 2:
                    ctx.count("rollouts_visiting_two_states")
    # ---- accounting
    for J, c, obs, traces in judges:
        g = c["g"]
        if J.ok:
            ctx.validated += 1
        listed = set(range(g["N"])) if g["explicit"] else J.reach
        statedep = any(not J.A[s][j] for s in listed for j in range(g["J"]))
        ghost = any(s in J.term for s in listed)
        if len(listed) >= 3 and g["J"] >= 2 and ghost and (statedep or J.reach != set(range(g["N"])) or g["pol"]):
            ctx.nontrivial(digest([g, c["rep"]]))
        ctx.count(f"style_{c['style']}")
        if c["kind"] == "hand":
            ctx.sample({"instance": {k: g[k] for k in ("N", "G", "K", "PD", "ID", "term", "avail", "P", "p0", "explicit", "cuts", "pol")},
                        "rep": c["rep"], "reach": sorted(J.reach), "jal": J.jal, "real_state_list": obs["game"].get("sl"),
                        "rollouts": [t["ev"] for t in traces][:2]}, limit=3)
        else:
            ctx.sample({"layout": c["layout"], "params": c["params"], "states": g["N"], "reach": len(J.reach),
                        "distinct_probabilities": len(c["values"]), "real_state_list": obs["game"].get("sl")}, limit=5)
    return judges


def judge_constructor(ctx):
    oc = observe_constructor()
    ctx.evaluations += 1
    if oc["ok"]:
        ctx.validated += 1
    else:
        ctx.violation("X04:TabularStochasticGame.__init__:error",
                      f"a subclass that relies on TabularStochasticGame.__init__(agent_names=[...]) cannot be constructed: {oc['err']}",
                      {"case": {"kind": "constructor"}, "object": "game", "clause": "constructor"})


# --------------------------------------------------------------------------------------------
def run(ctx):
    mode = install_sparse()
    rng = random.Random(ctx.seed * 104729 + 404)
    quick = ctx.tier == "quick"
    ctx.rule = ("hand-built games (1-3 agents, 1-2 actions each, 1-3 non-terminal + 0-2 terminal states with ghost dynamics, optional "
                "unreachable state, state-dependent per-agent action lists, zero-probability entries inside / outside the reachable "
                "set, terminal initial states, given or inferred lists, MAX_STATES 0..N+1, optional joint policy with full / sparse "
                "dictionaries) x label kinds (int, str, tuple, nested dict) x distribution classes x agent orders, plus instances "
                "extracted from random TabularGridGame layouts (<= 6 cells); non-trivial = >= 3 listed states, >= 2 joint actions, "
                "a listed terminal state, and (a listed state with an unavailable joint action, or an unreachable state, or a policy)")
    ctx.assumptions = [
        "TLC evaluates the TLA+ views correctly (cross-checked against an independent Python oracle on every 3rd hand-built and "
        "every grid instance; machine terminals are compared with the recursive CutResults oracle; X04_Run's verdict on every "
        "roll-out is compared with an independent Python judge)",
        f"pydata/sparse: {mode}" + (" (not installed and not declared by msdm: COO is a dense stand-in that sums duplicate "
                                    "coordinates; occupancy_matrix is not evaluated)" if mode != "real" else ""),
        "grid instances: the abstract game is read off the real functional interface, so the check there is arrays / lists / "
        "policies / roll-outs against next_state_dist, joint_rewards, is_terminal, joint_actions - not the movement rules (C18)",
        "probability cells are compared exactly; sums and products with 1e-9 (<= 40 terms exact to a few ulp)"]
    ctx.extra["sparse"] = mode
    judge_constructor(ctx)
    n_hand = 330 if quick else 3000
    n_grid = 8 if quick else 60
    cases = make_cases(rng, n_hand)
    grids = make_grid_cases(rng, n_grid)
    ctx.count("grid_layouts", len(grids))
    chunk = 330 if quick else 600
    k = 0
    for a in range(0, len(cases), chunk):
        judge_cases(ctx, cases[a:a + chunk], tag=str(k))
        k += 1
    gchunk = 8 if quick else 10
    for a in range(0, len(grids), gchunk):
        judge_cases(ctx, grids[a:a + gchunk], tag=f"g{k}")
        k += 1


def replay(ctx, case):
    install_sparse()
    c = case["case"]
    if c.get("kind") == "constructor":
        judge_constructor(ctx)
        return
    judge_cases(ctx, [c])


def selftest(ctx):
    """Binding demonstration.  Cases are judged untouched (whatever they report is the baseline), then
    (1) one transitionmatrix cell returned by the real code is corrupted, (2) a state is dropped from the
    reachable set the real code returned, (3) msdm is handed a different game than TLC saw (initial state
    moved), (4) one event is dropped from a recorded roll-out, (5) one joint-policy cell is corrupted.
    Each must add a report that names the corrupted thing and that the baseline does not contain."""
    install_sparse()
    rng = random.Random(17)
    cases = [c for c in make_cases(rng, 120) if c["style"] in ("clean", "policy") and not c["g"]["explicit"]]
    real = [run_real(c) for c in cases]

    def usable(c, o):
        return not o["game"]["err"].get("transitionmatrix") and len(o["game"].get("sl", [])) >= 2 \
            and sum(1 for x in c["g"]["p0"] if x > 0) == 1
    picks = [i for i, (c, o) in enumerate(zip(cases, real)) if usable(c, o)]
    pol = [i for i in picks if real[i]["policy"] and "jpm" in real[i]["policy"]
           and any(len(r.get("ev", [])) >= 2 and len({e["s"] for e in r["ev"]}) >= 2 for r in real[i]["policy"]["runs"])]
    if len(picks) < 3 or not pol:
        return False

    def sigs(cs, rs):
        before = len(ctx.violations)
        judge_cases(ctx, cs, real=rs, tag="st")
        return {v[0] for v in ctx.violations[before:]}
    outcomes = []
    # (1)
    i = picks[0]
    base = sigs([cases[i]], [real[i]])
    r = copy.deepcopy(real[i])
    r["game"]["transitionmatrix"][0][0][0] += 0.25
    outcomes.append(any("transitionmatrix" in s for s in sigs([cases[i]], [r]) - base))
    # (2)
    i = picks[1]
    base = sigs([cases[i]], [real[i]])
    r = copy.deepcopy(real[i])
    r["game"]["reach"] = r["game"]["reach"][:-1]
    outcomes.append(any("reachable_states" in s for s in sigs([cases[i]], [r]) - base))
    # (3)
    i = picks[2]
    base = sigs([cases[i]], [real[i]])
    other = copy.deepcopy(cases[i])
    p0 = other["g"]["p0"]
    j0 = next(k for k in range(len(p0)) if p0[k] > 0)
    p0[(j0 + 1) % len(p0)], p0[j0] = p0[j0], 0
    outcomes.append(any("initialstatevec" in s or "state_list" in s or "reachable" in s
                        for s in sigs([cases[i]], [run_real(other)]) - base))
    # (4), (5)
    i = pol[0]
    base = sigs([cases[i]], [real[i]])
    r = copy.deepcopy(real[i])
    run_ = next(x for x in r["policy"]["runs"] if len(x.get("ev", [])) >= 2 and len({e["s"] for e in x["ev"]}) >= 2)
    k = next(k for k in range(len(run_["ev"]) - 1) if run_["ev"][k]["s"] != run_["ev"][k + 1]["s"])
    del run_["ev"][k + 1 if k + 2 < len(run_["ev"]) else k]
    run_["lens"] = [len(run_["ev"])] * 3
    got = sigs([cases[i]], [r]) - base
    outcomes.append(any("run_on" in s for s in got))
    r = copy.deepcopy(real[i])
    r["policy"]["jpm"][0][0] += 0.125
    outcomes.append(any("joint_policy_matrix" in s for s in sigs([cases[i]], [r]) - base))
    print(f"  selftest: corrupted cell detected={outcomes[0]}, dropped state detected={outcomes[1]}, foreign instance "
          f"detected={outcomes[2]}, dropped roll-out event detected={outcomes[3]}, corrupted policy cell detected={outcomes[4]}")
    return all(outcomes)
