"""C04 - LRTDP stays an upper bound and ends within the error margin of optimal.

spec/C04_LRTDP.tla holds the abstract problem, the exact oracle (V*, V^pi, N^pi), the reference
machine that mirrors msdm/algorithms/lrtdp.py step by step and the clauses of the statement.

  MC  TLC explores *every* trial history (= every seed) of the machine over a batch of proper MDPs x
      admissible heuristics (non-zero at absorbing states) x margins x action orders x
      max_trial_length, checks the design invariants in every state and evaluates the end-of-run
      clauses in every terminal state.  One record per terminal state leaves TLC with the history.
  A   every emitted history is replayed into the real LRTDP.plan_on: the MDP handed to it returns
      distributions whose sample() follows the history (randomised action orders: a seed whose private
      shuffles produce the emitted orders is searched).  Final V / labels / orders must equal the
      machine's (else DRIFT).
  B   free-running seeds of the real code (default trial length, randomize_action_order on/off, several
      concrete representations, zero-probability entries, mass on absorbing states); sampled choices and
      per-trial snapshots are recorded through the repository's own listener and validated by TLC
      against the same machine (mode "trace").
  R   planner reuse: about half of the A replays and 40% of the free runs are made on an LRTDP object that has
      already planned on the same MDP or on another one with overlapping labels but a different absorbing
      set / dynamics / heuristic; the judged run must be that of a fresh planner (same machine, same clauses).
  J   every real run (A, B and non-dyadic configurations: discount 9/10, margins 1e-2 .. 1e-4) is judged
      on its *own* output: TLC evaluates the returned policy exactly (mode "judge"); the clauses of the
      statement are compared with derived tolerances.  Only these raise VIOLATION.
"""
import math
import random
import warnings
from fractions import Fraction as F

from .. import gen, build, pyoracle
from ..build import frac
from ..core import digest
from ..tlc import run_tlc, TLCFailure

import os

MODULE = "C04_LRTDP"
# which fallback of the returned policy the reference machine describes: 1 = deterministic on the planner's own
# greedy action at every state with a stored action order (the repaired _tear_down_plan_on), 0 = deterministic
# only at states with a stored value (the behaviour before that repair; for experiments only)
# 2 = (proposal, for experiments) a labelled state plays the action its label certified
MODEL_REPAIR = {"uniform": 0, "first-maximiser": 1, "label-action": 2}.get(os.environ.get("C04_MODEL_FALLBACK"), 2)
# suffix of the two end-of-run signatures when the spec's predicates say that the failure is the known interaction of
# an admissible but inconsistent heuristic with the arg-max recomputed at tear-down
SUFFIX_INCONS = ":admissible-inconsistent-heuristic"
SIG_TIED = "C04:LRTDP.plan_on:policy-at-solved-never-updated-state:unverified-tied-action"
KB = 16
SC = 2 ** KB

CFG_MC = """INIT Init
NEXT Next
VIEW View
CHECK_DEADLOCK FALSE
CONSTRAINT Exactness
INVARIANT Emit
INVARIANT Upper
INVARIANT SolvedClosed
INVARIANT CanProgress
INVARIANT GapBound
INVARIANT ReturnBound
INVARIANT AbsorbingZero
INVARIANT NoFlipIfMonotone
INVARIANT GapBoundNoFlip
INVARIANT ReturnBoundNoFlip
INVARIANT GapBoundLC
INVARIANT ReturnBoundLC
INVARIANT InstancesOK
"""
# every listed invariant must hold on the machine; a failure is a machinery failure (exit 2) unless it is
# one of the statement's clauses AND the real code reproduces it in the replay of the emitted histories
DESIGN_INVS = ["Upper", "SolvedClosed", "GapBoundLC", "ReturnBoundLC", "InstancesOK", "CanProgress", "AbsorbingZero",
               "NoFlipIfMonotone", "GapBoundNoFlip", "ReturnBoundNoFlip"]
CLAUSE_INVS = ["GapBound", "ReturnBound"]
# trace / judge: no exactness cut (an inexact trace is reported as such), same invariants
CFG_TJ = CFG_MC.replace("CONSTRAINT Exactness\n", "")

REPS = [
    dict(rep="quick", labels="int", alabels="int", explicit_list=False, dist="dict"),
    dict(rep="subclass", labels="str", alabels="str", explicit_list=True, dist="dict"),
    dict(rep="quick", labels="tuple", alabels="str", explicit_list=False, dist="det"),
    dict(rep="matrices", labels="frozendict", alabels="int", explicit_list=True, dist="dict"),
    dict(rep="subclass", labels="mixed", alabels="mixed", explicit_list=False, dist="uniform"),
    dict(rep="quick", labels="str", alabels="tuple", explicit_list=True, dist="dict"),
]


# =============================================================================================
# instances
# =============================================================================================
def ceil_to(x, q):
    return F(math.ceil(x / q)) * q


def steps_of(m, w):
    """Independent N^pi: minus the undiscounted value of the policy when every step pays -1."""
    m2 = dict(m)
    m2["GN"], m2["GD"] = 1, 1
    m2["R"] = [[[-1] * m["N"] for _ in range(m["K"])] for _ in range(m["N"])]
    v = pyoracle.policy_value(m2, w)
    return [None if x == pyoracle.NEG else -x for x in v]


def den_bound(m):
    """Largest denominator / numerator met by exact evaluation of any deterministic policy (values and steps)."""
    dmax, nmax = 1, 1
    for w in pyoracle.det_policies(m):
        for x in list(pyoracle.policy_value(m, w)) + [y for y in steps_of(m, w) if y is not None]:
            if x == pyoracle.NEG:
                return None
            dmax = max(dmax, x.denominator)
            nmax = max(nmax, abs(x.numerator))
    return dmax, nmax


def heuristic(rng, m, vs, kind, eps):
    """Admissible heuristic as Fractions on the 1/16 grid; deliberately non-zero at absorbing states."""
    if kind == "zero" and max(vs) > 0:
        kind = "const"
    top = F(math.ceil(max(max(vs), 0)))
    h = []
    for s in range(m["N"]):
        if m["abs"][s]:
            h.append(rng.choice([F(0), F(0), eps / 2, F(2), F(5)]))
        elif kind == "zero":
            h.append(F(0))
        elif kind == "tight":
            h.append(ceil_to(vs[s], F(1, 4)))
        elif kind == "loose":
            h.append(ceil_to(vs[s], F(1, 4)) + rng.choice([F(0), F(1, 2), F(1), F(2)]))
        else:
            h.append(top + 1)
    return h, kind


FAMS_MC = [
    dict(GN=1, GD=1, PD=2, rewards=(-2, -1, 0), n_na=(1, 2, 2, 3)),
    dict(GN=1, GD=2, PD=2, rewards=(-2, -1, 0, 1, 2), n_na=(1, 2, 2, 3)),
    dict(GN=1, GD=1, PD=2, rewards=(-2, -1, 0, 1), n_na=(1, 2, 2, 3)),
    dict(GN=3, GD=4, PD=2, rewards=(-2, -1, 0, 1), n_na=(1, 2, 2)),
    dict(GN=1, GD=1, PD=4, rewards=(-3, -1, 0), n_na=(1, 2, 2)),
    dict(GN=1, GD=1, PD=2, rewards=(-2, -1, 0), n_na=(1, 2, 2), rand=1),
    dict(GN=1, GD=2, PD=2, rewards=(-2, -1, 1), n_na=(1, 2), rand=1),
    dict(GN=0, GD=1, PD=2, rewards=(-3, -2, -1, 0, 1), n_na=(2, 3, 3)),      # discount 0: legal, myopic
]
FAMS_FLOAT = [
    dict(GN=9, GD=10, PD=2, rewards=(-2, -1, 0, 1, 2), n_na=(1, 2, 2)),
    dict(GN=9, GD=10, PD=4, rewards=(-3, -1, 0, 2), n_na=(1, 2)),
    dict(GN=1, GD=1, PD=2, rewards=(-2, -1, 0), n_na=(2, 3, 3)),
    dict(GN=1, GD=2, PD=2, rewards=(-2, -1, 0, 1, 2), n_na=(2, 3)),
    dict(GN=3, GD=4, PD=4, rewards=(-2, -1, 0, 1), n_na=(1, 2, 2)),
    dict(GN=1, GD=1, PD=4, rewards=(-3, -1, 0, 1), n_na=(2, 2, 3)),
    dict(GN=0, GD=1, PD=4, rewards=(-3, -2, -1, 0, 1), n_na=(2, 3)),
]


def base_instance(rng, fam, *, small, acyclic=False):
    n_na = rng.choice(fam["n_na"])
    n_abs = rng.choice([1, 1, 2])
    K = 2 if fam.get("rand") else rng.choice([1, 2, 2, 3])
    if fam.get("rand") and n_na + n_abs > 3:
        n_abs = 1
    m = gen.rand_mdp(rng, n_na=n_na, n_abs=n_abs, K=K, PD=fam["PD"], GN=fam["GN"], GD=fam["GD"],
                     rewards=fam["rewards"], ID=rng.choice([2, 4]), force_progress=True, init_on_abs=0.4)
    if acyclic:
        acyclify(rng, m)
        m["acyclic"] = 1
    if not gen.magnitude_ok(m, QD=6):
        return None
    vs = pyoracle.optimal_value(m)
    if any(v == pyoracle.NEG for v in vs):
        return None
    b = den_bound(m)
    if b is None or b[0] * b[0] * SC * 8 >= 2 ** 30 or b[1] * SC >= 2 ** 30:
        return None
    m["KB"] = KB
    m["rand"] = 1 if fam.get("rand") else 0
    aord = []
    for s in range(m["N"]):
        av = [a + 1 for a in range(m["K"]) if m["avail"][s][a]]
        rng.shuffle(av)
        aord.append(av)
    m["aord"] = aord
    m["zl"] = 0
    m["lst"] = [1] * m["N"]
    m["i0"] = [1 if p > 0 else 0 for p in m["p0"]]
    m["oracle"] = 1
    return m, vs


def acyclify(rng, m):
    """Redirect every transition of a non-absorbing state that does not go to a strictly later state (in a random
    order of the non-absorbing states, absorbing states last) to a later one: no self-loops, no cycles.  On such
    an MDP every value is final after one backward sweep, so LRTDP reaches residual exactly 0 in finitely many
    updates and bellman_error_margin = 0 (exact convergence requested) is a configuration the statement covers."""
    N, K = m["N"], m["K"]
    na = [s for s in range(N) if not m["abs"][s]]
    rng.shuffle(na)
    rank = {s: i for i, s in enumerate(na)}
    for s in range(N):
        if m["abs"][s]:
            rank[s] = N + 1
    for s in na:
        later = [t for t in range(N) if rank[t] > rank[s]]
        for a in range(K):
            for t in range(N):
                if m["P"][s][a][t] > 0 and rank[t] <= rank[s]:
                    m["P"][s][a][rng.choice(later)] += m["P"][s][a][t]
                    m["P"][s][a][t] = 0
    return m


def make_mc_instance(rng, fam, tier):
    r = base_instance(rng, fam, small=True, acyclic=(rng.random() < 0.12))
    if r is None:
        return None
    m, vs = r
    n_na = sum(1 for x in m["abs"] if not x)
    eps = F(0) if m.get("acyclic") else F(1, rng.choice([2, 4, 8]))
    kind = rng.choice(["zero", "tight", "loose", "loose", "const"])
    L = rng.choice([2, 3, 4])
    if m["rand"]:
        L = rng.choice([2, 3])
    h, kind = heuristic(rng, m, vs, kind, eps)
    m.update(EPS=int(eps * SC), L=L, h=[int(x * SC) for x in h], hkind=kind, mode="mc")
    # successor distributions with explicit zero-probability entries
    if rng.random() < 0.2:
        m["zl"] = 1
        r_ = gen.reach(m)
        m["lst"] = [1 if (s in r_ or rng.random() < 0.5) else 0 for s in range(m["N"])]
    # an initial support entry of probability zero (not an initial state: must not keep the trial loop alive)
    if rng.random() < 0.15:
        z = [s for s in range(m["N"]) if m["p0"][s] == 0]
        if z:
            m["i0"][rng.choice(z)] = 1
    return m


def machine_size(m, cap):
    """Number of states of the reference machine on this instance (all histories), or None above `cap`.
    A plain re-implementation of the actions of spec/C04_LRTDP.tla on integers, used *only* to keep the
    TLC batches inside the time budget (history spaces are very skewed); it decides nothing."""
    N, K = m["N"], m["K"]
    sc, dq, gn, gd, eps, L = 2 ** m["KB"], m["PD"] * m["GD"], m["GN"], m["GD"], m["EPS"], m["L"]
    ab, P, R = m["abs"], m["P"], m["R"]
    av = [[a for a in range(K) if m["avail"][s][a]] for s in range(N)]
    order = [[a - 1 for a in m["aord"][s]] for s in range(N)]
    ipos = [s for s in range(N) if m["p0"][s] > 0]
    ilist = [s for s in range(N) if m["i0"][s]]

    def qnum(v, s, a):
        if ab[s]:
            return 0
        return sum(P[s][a][t] * (R[s][a][t] * sc * gd + gn * (0 if ab[t] else v[t])) for t in range(N) if P[s][a][t])

    def exact(v, s):
        return all(qnum(v, s, a) % dq == 0 for a in av[s])

    def maxq(v, s):
        return max(qnum(v, s, a) // dq for a in av[s])

    def greedy(v, s):
        mx = maxq(v, s)
        return next(a for a in order[s] if qnum(v, s, a) // dq == mx)

    def supp(s, a):
        return [t for t in range(N) if P[s][a][t] > 0 or (m["zl"] and m["lst"][t])]

    def upd(v, s):
        v = list(v)
        v[s] = maxq(v, s)
        return tuple(v)

    mult = 1
    if m["rand"]:
        for s in range(N):
            mult *= math.factorial(len(av[s]))
    start = (tuple(0 if ab[s] else m["h"][s] for s in range(N)), frozenset(), (), "idle")
    seen = {start}
    todo = [start]
    while todo:
        if len(seen) * mult > cap:
            return None
        v, solved, stack, pc = todo.pop()
        nxt = []
        if pc == "idle":
            if all(s in solved for s in ilist):
                continue
            for s0 in ipos:
                nxt.append((v, solved, (s0,), "eot" if s0 in solved else "trial"))
        elif pc == "trial":
            s = stack[-1]
            if not exact(v, s):
                continue
            v1 = upd(v, s)
            if not exact(v1, s):
                continue
            a = greedy(v1, s)
            for t in range(N):
                if P[s][a][t] > 0:
                    sv = solved | {t} if ab[t] else solved
                    stop = len(stack) + 1 > L or t in solved or ab[t]
                    nxt.append((v1, sv, stack + (t,), "eot" if stop else "trial"))
        elif pc == "eot":
            nxt.append((v, solved, stack, "check"))
        else:
            s, rest = stack[-1], stack[:-1]
            opn = [] if s in solved else [s]
            closed, flag, ok = [], True, True
            while opn:
                x = opn.pop()
                closed.append(x)
                if not exact(v, x):
                    ok = False
                    break
                a = greedy(v, x)
                if abs(v[x] - qnum(v, x, a) // dq) > eps:
                    flag = False
                else:
                    for t in supp(x, a):
                        if t not in solved and t not in opn and t not in closed:
                            opn.append(t)
            if not ok:
                continue
            if flag:
                sv, v1 = solved | set(closed), v
            else:
                sv, v1 = solved, v
                for x in reversed(closed):
                    if not exact(v1, x):
                        ok = False
                        break
                    v1 = upd(v1, x)
                if not ok:
                    continue
            if flag and rest:
                nxt.append((v1, frozenset(sv), rest, "check"))
            else:
                nxt.append((v1, frozenset(sv), (), "idle"))
        for st in nxt:
            if st not in seen:
                seen.add(st)
                todo.append(st)
    return len(seen) * mult


# =============================================================================================
# running the real code: scripted or free sampling, recorded through the listener
# =============================================================================================
class ScriptDiverged(Exception):
    pass


class Runaway(BaseException):
    """One plan_on call drew more samples than any terminating run on these instances can (<= 5 states, every
    policy proper, at most 4000 trials): the run is cut and judged as not terminating."""


MAX_SAMPLES = 100000


def _proxy_classes():
    from msdm.core.distributions.distributions import FiniteDistribution
    from msdm.core.distributions import DictDistribution, DeterministicDistribution, UniformDistribution
    from msdm.algorithms.lrtdp import LRTDPEventListener

    # the planner must see objects of the library's own distribution classes (code may branch on them):
    # logging / scripted subclasses of each concrete class, the generic proxy only for anything else
    class DetProxy(DeterministicDistribution):
        def __init__(self, base, rec, key):
            DeterministicDistribution.__init__(self, base.value)
            self.base, self.rec, self.key = base, rec, key

        def sample(self, *, rng=random, k=1):
            return self.rec.on_sample(self.key, self.base, rng)

    class DictProxy(DictDistribution):
        def __init__(self, base, rec, key):
            dict.__init__(self, base)
            self.base, self.rec, self.key = base, rec, key

        def sample(self, *, rng=random, k=1):
            return self.rec.on_sample(self.key, self.base, rng)

    class UniProxy(UniformDistribution):
        def __init__(self, base, rec, key):
            UniformDistribution.__init__(self, base.support)
            self.base, self.rec, self.key = base, rec, key

        def sample(self, *, rng=random, k=1):
            return self.rec.on_sample(self.key, self.base, rng)

    def wrap(base, rec, key):
        for cls, prox in ((DeterministicDistribution, DetProxy), (DictDistribution, DictProxy), (UniformDistribution, UniProxy)):
            if type(base) is cls:
                return prox(base, rec, key)
        return Dist(base, rec, key)

    class Dist(FiniteDistribution):
        """A successor / initial distribution of the wrapped MDP whose sample() is logged or scripted."""

        def __init__(self, base, rec, key):
            self.base, self.rec, self.key = base, rec, key

        @property
        def support(self):
            return self.base.support

        def prob(self, e):
            return self.base.prob(e)

        def items(self):
            return self.base.items()

        def __len__(self):
            return len(self.base)

        def sample(self, *, rng=random, k=1):
            return self.rec.on_sample(self.key, self.base, rng)

    class Listener(LRTDPEventListener):
        rec = None

        def end_of_lrtdp_trial(self, localvars):
            type(self).rec.snapshot("eot")

        def end_of_lrtdp_timestep(self, localvars):
            pass

    return wrap, DictDistribution, Listener


class Relabelled:
    """The built MDP under other state labels (label kinds that harness/build.py does not offer): signed integers
    -1, -2, ... and tuples (-1, 0), (-2, 0), ...  In CPython hash(-1) == hash(-2), so these are distinct live
    states with equal hashes."""

    def __init__(self, b, kind):
        from msdm.core.distributions import DictDistribution
        self.DD = DictDistribution
        self.inner = b.mdp
        self.ext = [-(i + 1) if kind == "negint" else (-(i + 1), 0) for i in range(len(b.slabel))]
        self.to_in = {e: l for e, l in zip(self.ext, b.slabel)}
        self.to_ext = {i: e for i, e in enumerate(self.ext)}
        self.idx = b.sidx
        self.discount_rate = b.mdp.discount_rate

    def _map(self, d):
        return self.DD({self.to_ext[self.idx(ns)]: p for ns, p in d.items()})

    def actions(self, s):
        return self.inner.actions(self.to_in[s])

    def reward(self, s, a, ns):
        return self.inner.reward(self.to_in[s], a, self.to_in[ns])

    def is_absorbing(self, s):
        return self.inner.is_absorbing(self.to_in[s])

    def next_state_dist(self, s, a):
        return self._map(self.inner.next_state_dist(self.to_in[s], a))

    def initial_state_dist(self):
        return self._map(self.inner.initial_state_dist())


class Recorder:
    """Wraps a built MDP; hands out logging / scripted distributions; snapshots the planner's tables."""

    def __init__(self, b, m, script=None):
        self.b, self.m = b, m
        self.Dist, self.DD, L = _proxy_classes()
        self.Listener = type("L", (L,), {"rec": self})
        self.script = list(script) if script is not None else None
        self.pos = 0
        self.choices = []
        self.snaps = []
        self.planner = None
        self.discount_rate = b.mdp.discount_rate
        # representation of actions(): a fresh tuple per call, or ONE list / tuple object shared by all states
        # (what QuickMDP(actions=[...]) does); only possible when every state lists the same actions in the same order
        self.shared = None
        kind = m.get("shared_actions")
        if kind and all(m["aord"][t] == m["aord"][0] for t in range(m["N"])):
            objs = [b.alabel[a - 1] for a in m["aord"][0]]
            self.shared = objs if kind == "list" else tuple(objs)

    # ---- the MDP interface LRTDP uses
    def actions(self, s):
        if self.shared is not None:
            return self.shared
        i = self.b.sidx(s)
        return tuple(self.b.alabel[a - 1] for a in self.m["aord"][i])

    def reward(self, s, a, ns):
        return self.b.mdp.reward(s, a, ns)

    def is_absorbing(self, s):
        return self.b.mdp.is_absorbing(s)

    def next_state_dist(self, s, a):
        base = self.b.mdp.next_state_dist(s, a)
        if self.m["zl"]:
            i, j = self.b.sidx(s), self.b.aidx(a)
            base = self.DD({self.b.slabel[t]: self.m["P"][i][j][t] / self.m["PD"] for t in range(self.m["N"])
                            if self.m["P"][i][j][t] > 0 or self.m["lst"][t]})
        return self.Dist(base, self, ("step", s, a))

    def initial_state_dist(self):
        base = self.b.mdp.initial_state_dist()
        if any(self.m["i0"][t] and not self.m["p0"][t] for t in range(self.m["N"])):
            base = self.DD({self.b.slabel[t]: self.m["p0"][t] / self.m["ID"] for t in range(self.m["N"]) if self.m["i0"][t]})
        return self.Dist(base, self, ("init",))

    # ---- recording
    def snapshot(self, kind):
        res = self.planner.res
        keys = sorted(self.b.sidx(s) for s in res.V.keys())
        vals = {self.b.sidx(s): float(v) for s, v in res.V.items()}
        solved = sorted(self.b.sidx(s) for s, v in res.solved.items() if v)
        self.snaps.append({"kind": kind, "keys": keys, "vals": vals, "solved": solved})

    def on_sample(self, key, base, rng):
        self.nsamples = getattr(self, "nsamples", 0) + 1
        if self.nsamples > MAX_SAMPLES:
            raise Runaway()
        if key[0] == "init":
            self.snapshot("idle")
            want = (0, 0, 0)
        else:
            want = (1, self.b.sidx(key[1]) + 1, self.b.aidx(key[2]) + 1)
        if self.script is None:
            out = base.sample(rng=rng)
            t = self.b.sidx(out) + 1
        else:
            if self.pos >= len(self.script):
                raise ScriptDiverged(f"script exhausted at {key[0]} sample {len(self.choices) + 1}")
            c = self.script[self.pos]
            if (c["k"], c["s"], c["a"]) != want:
                raise ScriptDiverged(f"choice {self.pos + 1}: code samples {want}, script has {(c['k'], c['s'], c['a'])}")
            t = c["t"]
            out = self.b.slabel[t - 1]
            if not base.prob(out) > 0:
                raise ScriptDiverged(f"choice {self.pos + 1}: scripted successor {t} has probability 0")
            self.pos += 1
        self.choices.append({"k": want[0], "s": want[1], "a": want[2], "t": t})
        return out


def real_run(m, rep, *, script=None, seed=0, randomize=False, iterations=3000, listener=True, warm=None, post=None):
    """Run msdm's LRTDP on the instance; returns a json-able description of everything observable.

    warm: an abstract instance the *same planner object* is first run on (free sampling, result discarded):
    planner-reuse histories.  Its labels are of the same kind (so they overlap with the instance's) but its
    absorbing set, dynamics and heuristic are its own; warm = the instance itself plans the same MDP twice.
    Whatever the planner kept from the first call, the judged run must be that of a fresh planner.
    post: (instance, "same" | "new"): after the judged call and BEFORE its result is read, one more plan_on call
    is made on that instance - by the same planner object or by a new one - again with labels of the same kind.
    A result must not change because somebody plans again."""
    from msdm.algorithms.lrtdp import LRTDP, LRTDPEventListener
    rep = dict(rep)
    if rep["rep"] == "matrices":
        rep["explicit_list"] = True
    out = {"seed": seed, "randomize": bool(randomize), "rep": rep, "scripted": script is not None, "warm": warm is not None,
           "post": post[1] if post is not None else None}
    margin = m["margin"] if "margin" in m else m["EPS"] / 2 ** m["KB"]
    cur = {}

    class Listener(LRTDPEventListener):
        def end_of_lrtdp_trial(self, localvars):
            cur["rec"].snapshot("eot")

        def end_of_lrtdp_timestep(self, localvars):
            pass

    def enter(inst, scr):
        b_ = build.build_mdp(inst, rng=random.Random(digest([inst["P"], inst["R"], rep])), **rep)
        if m.get("relabel"):
            ad = Relabelled(b_, m["relabel"])
            b_ = build.Built(mdp=ad, m=b_.m, slabel=list(ad.ext), alabel=b_.alabel, rep=b_.rep, explicit_list=b_.explicit_list)
        r_ = Recorder(b_, inst, script=scr)
        r_.planner = cur["planner"]
        cur.update(b=b_, rec=r_, hv=hvals(inst))
        return b_, r_
    try:
        L = m["L"] if m["L"] < 10 ** 6 else None
        planner = LRTDP(heuristic=lambda s: cur["hv"][cur["b"].sidx(s)], bellman_error_margin=margin, iterations=iterations,
                        randomize_action_order=randomize, max_trial_length=L,
                        event_listener_class=Listener if listener else None, seed=seed)
        cur["planner"] = planner
        with warnings.catch_warnings(record=True) as wlist:
            warnings.simplefilter("always")
            if warm is not None:
                b0, rec0 = enter(warm, None)
                planner.plan_on(rec0)
            wlist.clear()
            b, rec = enter(m, script)
            res = planner.plan_on(rec)
            hv = cur["hv"]
            out["capped"] = any("not converged" in str(w.message) for w in wlist)
            if post is not None:
                if post[1] == "new":
                    cur["planner"] = LRTDP(heuristic=lambda s: cur["hv"][cur["b"].sidx(s)], bellman_error_margin=margin,
                                           iterations=max(iterations, 200), randomize_action_order=randomize, max_trial_length=L,
                                           event_listener_class=Listener if listener else None, seed=seed + 1)
                b1, rec1 = enter(post[0], None)
                cur["planner"].plan_on(rec1)
                cur.update(b=b, rec=rec, hv=hv)       # the heuristic function answers for the judged MDP again
    except ScriptDiverged as e:
        out["status"] = "diverged"
        out["why"] = str(e)
        return out
    except Runaway:
        out["status"] = "runaway"
        return out
    except Exception as e:                       # noqa: BLE001 - judged as a failed termination clause
        out["status"] = "error"
        out["why"] = f"{type(e).__name__}: {e}"[:300]
        return out
    out["status"] = "ok"
    out["unconsumed"] = (len(script) - rec.pos) if script is not None else 0
    out["choices"] = rec.choices
    out["snaps"] = rec.snaps
    N, Kn = m["N"], m["K"]
    out["V"] = {b.sidx(s): float(v) for s, v in res.V.items()}
    out["solved"] = sorted(b.sidx(s) for s, v in res.solved.items() if v)
    out["init_support"] = sorted(b.sidx(s) for s in rec.initial_state_dist().support)
    out["init_solved"] = {b.sidx(s): bool(res.solved[s]) for s in rec.initial_state_dist().support}
    try:
        out["Q"] = {b.sidx(s): {b.aidx(a): float(q) for a, q in row.items()} for s, row in res.Q.items()}
    except Exception as e:                       # noqa: BLE001 - a differently shaped Q table is not a clause of the statement
        out["Q"] = {}
        out["q_unreadable"] = f"{type(e).__name__}: {e}"[:200]
    out["initial_value"] = float(res.initial_value)
    out["orders"] = {b.sidx(s): [b.aidx(a) + 1 for a in o] for s, o in res.action_orders.items()}
    out["has_converged_attr"] = hasattr(res, "converged")
    pol = {}
    for s in range(N):
        if m["abs"][s]:
            res.policy.action_dist(b.slabel[s])      # the returned policy is queried at every state
            continue
        try:
            d = res.policy.action_dist(b.slabel[s])
            items = [(a, float(p)) for a, p in d.items() if p > 0]
        except Exception as e:                   # noqa: BLE001 - judged: the returned policy cannot be evaluated
            out.setdefault("pol_broken", {})[s] = f"{type(e).__name__}: {e}"[:200]
            pol[s] = {}
            continue
        pol[s] = {}
        for a, p in items:
            if a in b.alabel:
                pol[s][b.aidx(a)] = p
            else:                                # not even an action of this MDP
                out.setdefault("pol_broken", {})[s] = f"plays {a!r}, which is not an action of this MDP"
    out["pol"] = pol
    out["pol_unavailable"] = {s: sorted(a for a in acts if not m["avail"][s][a]) for s, acts in pol.items()
                              if any(not m["avail"][s][a] for a in acts)}
    # reads of the value table (stored or defaulted) at every absorbing state
    out["V_read_abs"] = {s: float(res.V[b.slabel[s]]) for s in range(N) if m["abs"][s]}
    return out


# =============================================================================================
# judging a real run on its own output (the only source of VIOLATIONs)
# =============================================================================================
def judge_record(m, run, tag, oracle=1):
    if "collapse" in m:                          # TLC sees the collapsed instance (see make_rare_case)
        m = m["collapse"]["m"]
    rec = {k: m[k] for k in ("N", "K", "PD", "GN", "GD", "ID", "abs", "avail", "P", "R", "p0", "KB", "EPS", "L", "h",
                             "aord", "rand", "zl", "lst", "i0")}
    pol = [[1 if a in run["pol"].get(s, {}) else 0 for a in range(m["K"])] for s in range(m["N"])]
    for s in range(m["N"]):
        if not any(pol[s]):
            pol[s] = list(m["avail"][s])
    rec.update(mode="judge", oracle=oracle, pol=pol, tag=tag, script=[], snaps=[])
    return rec


def judge_record2(m, run, tag):
    """Two-scale rewards: the record carries the two integer reward layers and the heuristic as pairs."""
    rec = {k: m[k] for k in ("N", "K", "PD", "GN", "GD", "ID", "abs", "avail", "P", "p0", "RA", "RB", "hA", "hB",
                             "aord", "zl", "lst", "i0")}
    pol = [[1 if a in run["pol"].get(s, {}) else 0 for a in range(m["K"])] for s in range(m["N"])]
    for s in range(m["N"]):
        if not any(pol[s]):
            pol[s] = list(m["avail"][s])
    rec.update(mode="judge2", oracle=0, R=m["RA"], KB=KB, EPS=1, L=1, h=[0] * m["N"], rand=0, pol=pol, tag=tag,
               script=[], snaps=[])
    return rec


def fin(x):
    return isinstance(x, F)


def judge_run(ctx, m, run, jr, case, *, pyx=False, orc=None, mach=None):
    """Clauses of the statement on the output of one real run.  jr = TLC's judge record for its policy;
    orc = the record that carries the oracle of the instance (default: jr).  Returns True iff no clause failed."""
    ok = True
    N = m["N"]
    margin = m["margin"] if "margin" in m else m["EPS"] / 2 ** m["KB"]
    hv = hvals(m)

    def fail(sig, what):
        nonlocal ok
        ok = False
        ctx.violation(sig, what, case)

    if run["status"] == "error":
        fail("C04:LRTDP.plan_on:raises", f"plan_on raised {run['why']}")
        return False
    if run["status"] == "runaway":
        fail("C04:LRTDP.lrtdp_trial:does-not-terminate",
             f"plan_on drew more than {MAX_SAMPLES} samples on a {N}-state proper MDP without returning (cut by the harness)")
        return False
    # ---- clause 1: terminates with every initial state labelled
    # (entries of probability 0 in the listed initial support are not initial states)
    unl = [s for s, v in run["init_solved"].items() if not v]
    pos_unl = [s for s in unl if m["p0"][s] > 0]
    if run["capped"] or pos_unl:
        if run["capped"]:
            fail("C04:LRTDP.lrtdp:not-converged-within-iteration-cap",
                 f"no convergence within {run.get('iterations')} trials; unlabelled entries of the initial support {unl} "
                 f"(of positive probability: {pos_unl})")
        else:
            fail("C04:LRTDP.lrtdp:returned-with-unlabelled-initial-state", f"plan_on returned with initial states {pos_unl} not labelled solved")
        return False
    if run.get("pol_broken"):
        fail("C04:LRTDP.plan_on:returned-policy-cannot-be-evaluated",
             f"the returned policy is not a policy of the planned MDP: {run['pol_broken']}")
        return False
    if run.get("pol_unavailable"):
        fail("C04:LRTDP.plan_on:returned-policy-plays-unavailable-action",
             f"the returned policy puts mass on actions that are not available: {run['pol_unavailable']} (policy {run['pol']})")
        return False
    if jr is None:
        raise TLCFailure(f"no judge record for {case.get('tag')}")
    orc = orc if orc is not None else jr
    two = "ka" in m
    mx = m
    col = m.get("collapse")
    if two:
        # two-scale rewards: TLC's values are pairs (A, B) of the symbolic scales; V = 2^ka * A + 2^kb * B
        if not jr["ok"]:
            raise TLCFailure(f"no uniformly lexicographically optimal policy: {case.get('tag')}")
        sa, sb = F(2) ** m["ka"], F(2) ** m["kb"]
        comb = lambda xa, xb: [sa * frac(p_) + sb * frac(q_) for p_, q_ in zip(xa, xb)]
        vstar = comb(jr["astar"], jr["bstar"])
        tpv = comb(jr["apv"], jr["bpv"])
        steps = [frac(x) for x in jr["steps"]]
        w0 = [F(m["p0"][s], m["ID"]) for s in range(N)]
        vinit = sum(w0[s] * vstar[s] for s in range(N))
        pinit = sum(w0[s] * tpv[s] for s in range(N))
        ninit = sum(w0[s] * steps[s] for s in range(N))
        mx = dict(m, R=[[[sa * m["RA"][s][a][t] + sb * m["RB"][s][a][t] for t in range(N)] for a in range(m["K"])] for s in range(N)])
        pyx = True                 # always cross-checked: the symbolic scale is an assumption of the encoding
    else:
        vstar = [frac(x) for x in orc["vstar"]]
        steps = [frac(x) for x in jr["steps"]]
        vinit, pinit, ninit = frac(orc["vinit"]), frac(jr["pinit"]), frac(jr["ninit"])
        tpv = [frac(x) for x in jr["pv"]]
        if col:
            # TLC evaluated the collapsed instance; the extra state `bad` has one action, straight to an absorbing
            # state: its value is that reward and it takes one step, under every policy
            vstar.append(F(col["vbad"]))
            tpv.append(F(col["vbad"]))
            steps.append(F(1))
            pyx = True             # the collapse is an assumption of the encoding: always cross-checked
    m_real, m = m, mx
    if pyx:
        # machinery cross-check of the TLA+ oracle against the independent Fraction implementation
        pv = pyoracle.optimal_value(m)
        if any(pv[s] != vstar[s] for s in range(N)):
            raise TLCFailure(f"TLA+ and Python oracles disagree on V*: {vstar} vs {pv}")
        w = {s: {a: (F(1, len(run["pol"][s])) if a in run["pol"][s] else F(0)) for a in range(m["K"])}
             for s in range(N) if not m["abs"][s]}
        ppv = pyoracle.policy_value(m, w)
        pst = steps_of(m, w)
        if col:                    # expected steps of the uncollapsed instance exceed the collapsed ones by <= 2^-29
            if any(not (0 <= pst[s] - steps[s] <= F(1, 2 ** (RARE - 1))) for s in range(N)):
                raise TLCFailure(f"collapsed and uncollapsed expected steps differ: {steps} vs {pst}")
            pst = steps
        if any(ppv[s] != tpv[s] for s in range(N)) or any(pst[s] != steps[s] for s in range(N)):
            raise TLCFailure(f"TLA+ and Python oracles disagree on the returned policy: {tpv}/{steps} vs {ppv}/{pst}")
        ctx.count("oracle_crosschecks")
    m = m_real
    if (jr if two else orc)["adm"] in ("bad", False) or not (jr if two else orc)["proper"]:
        raise TLCFailure(f"generator produced an inadmissible heuristic or improper MDP: {case.get('tag')}")
    if not all(fin(x) for x in vstar) or not all(fin(x) for x in steps) or not fin(vinit) or not fin(pinit):
        raise TLCFailure(f"non-finite oracle values on a proper MDP: {case.get('tag')}")
    # signature predicate, computed by the spec: the heuristic is not consistent (some backup of h exceeds h; field
    # `mono` of the oracle bundle) and - when the run is mirrored by the machine (mach = its terminal record) - some
    # labelled state's arg-max on the final values is no longer the action its label certified (term.flip)
    src = jr if (two or "mono" not in orc) else orc
    incons = (not src["mono"]) and (mach is None or "term" not in mach or len(mach["term"]["flip"]) > 0)
    sfx = SUFFIX_INCONS if incons else ""
    # float slack, derived: the real run works in doubles (unit round-off 1.1e-16); a backup adds a relative
    # error of a few units to numbers of magnitude <= M, the residual test is made on such numbers, and
    # (I - gamma P)^-1 amplifies a per-state error by at most N^pi.  1e-13 * M * (1 + N^pi) is ~100x that bound.
    # (A slack *relative* to the values, like 1e-9 * |V|, would hide a residual test that is off by as much.)
    # (the value of the rare `bad` state only ever enters a backup multiplied by 2^-30: it is left out of M)
    keep = [s for s in range(N) if not col or s != col["bad"]]
    M = max([1.0] + [abs(float(vstar[s])) for s in keep] + [abs(hv[s]) for s in keep]
            + [abs(x) for s_, x in run["V"].items() if s_ in keep])

    def slack(nsteps):
        return 1e-12 + 1e-13 * M * (1 + float(nsteps)) + (margin * 2.0 ** -(RARE - 1) if col else 0.0)
    # ---- clause 2: the values of the touched states never fall below the optimum
    for sn in run["snaps"] + [{"kind": "final", "keys": list(run["V"]), "vals": run["V"]}]:
        for s in sn["keys"]:
            v = sn["vals"][s]
            if F(v) < vstar[s] - F(slack(0)):
                fail("C04:LRTDP._bellman_update:value-below-optimum",
                     f"V[{s}]={v} fell below V*={float(vstar[s])} ({sn['kind']} snapshot)")
                break
        if not ok:
            break
    # ---- clause 3: initial states within margin * N^pi(s0) of the optimum
    for s in range(N):
        if m["p0"][s] > 0 and not m["abs"][s]:
            v = run["V"].get(s, hv[s])
            gapv = float(F(v) - vstar[s])
            if F(v) - vstar[s] > F(margin) * steps[s] + F(slack(steps[s])):
                fail("C04:LRTDP.plan_on:initial-state-value-outside-margin" + sfx,
                     f"V[{s}]={v} exceeds V*={float(vstar[s])} by {gapv} > margin*N^pi = {margin}*{float(steps[s])}")
    # ---- clause 4: exact return of the returned policy within margin * N^pi(p0) of the optimum
    if pinit > vinit:
        raise TLCFailure(f"policy return {pinit} above the optimum {vinit}: oracle broken ({case.get('tag')})")
    if vinit - pinit > F(margin) * ninit + F(slack(ninit)):
        unstored = [s for s in range(N) if not m["abs"][s] and s not in run["V"]]
        # own signature for one precise shape: a state the labelling procedure looked at (it has a stored action
        # order) but never updated, at which the returned policy is not the single action the labels certify
        tied = [s for s in unstored if s in run["orders"] and len(run["pol"].get(s, {})) > 1]
        fail(SIG_TIED if tied else "C04:LRTDP.plan_on:policy-return-outside-margin" + sfx,
             f"exact return {float(pinit)} of the returned policy vs optimum {float(vinit)}: gap {float(vinit - pinit)} > "
             f"margin*N^pi = {margin}*{float(ninit)} (returned policy {run['pol']}, states without a stored value {unstored})")
    # ---- clause 5: absorbing states are worth 0 in the reported values and the initial value
    if run.get("q_unreadable"):
        ctx.drift("reported-Q-shape", {"case": case.get("tag"), "why": run["q_unreadable"]})
    for s, v in run["V"].items():
        if m["abs"][s] and v != 0:
            fail("C04:LRTDP.res.V:absorbing-state-stored-nonzero", f"stored V[{s}]={v} at an absorbing state")
    # the value table read at every absorbing state that is in the initial support or was touched by the run
    touched = set(run["V"]) | set(run["solved"]) | set(run["init_support"]) | {c["t"] - 1 for c in run["choices"]}
    for sn in run["snaps"]:
        touched |= set(sn["keys"]) | set(sn["solved"])
    for s, v in run["V_read_abs"].items():
        if s in touched and s not in run["V"] and v != 0:
            fail("C04:LRTDP.res.V:absorbing-state-without-stored-value-reads-nonzero",
                 f"res.V read at absorbing state {s} (no stored value; heuristic {hv[s]}) gives {v}, not 0")
    for s, row in run["Q"].items():
        if m["abs"][s] and any(q != 0 for q in row.values()):
            fail("C04:LRTDP.res.Q:absorbing-state-nonzero", f"Q[{s}]={row} at an absorbing state")
    g = m["GN"] / m["GD"]
    for s, row in run["Q"].items():
        if m["abs"][s]:
            continue
        for a, q in row.items():
            masked = sum(m["P"][s][a][t] / m["PD"] * (m["R"][s][a][t] + g * (0.0 if m["abs"][t] else run["V"].get(t, hv[t])))
                         for t in range(N) if m["P"][s][a][t])
            unmasked = sum(m["P"][s][a][t] / m["PD"] * (m["R"][s][a][t] + g * run["V"].get(t, hv[t]))
                           for t in range(N) if m["P"][s][a][t])
            tol = 1e-9 * max(1.0, abs(masked))
            if abs(q - masked) > tol:
                if abs(q - unmasked) <= tol:
                    fail("C04:LRTDP.Q:absorbing-successor-not-worth-zero",
                         f"reported Q[{s}][{a}]={q} counts an absorbing successor at the heuristic value (0-valued: {masked})")
                else:
                    ctx.drift("reported-Q", {"case": case.get("tag"), "s": s, "a": a, "q": q, "lookahead": masked})
    ev0 = sum(m["p0"][s] / m["ID"] * run["V"].get(s, hv[s]) for s in range(N) if m["p0"][s] > 0 and not m["abs"][s])
    tol = 1e-9 * max(1.0, abs(ev0))
    if abs(run["initial_value"] - ev0) > tol:
        fail("C04:LRTDP._tear_down_plan_on.initial_value:not-expectation-of-values-with-absorbing-states-worth-zero",
             f"initial_value={run['initial_value']} but sum p0*V over the initial states (absorbing ones worth 0) = {ev0}; "
             f"absorbing states read {run['V_read_abs']}")
    if not run["has_converged_attr"]:
        ctx.count("result_without_converged_attribute")
    return ok


def hvals(m):
    """The heuristic handed to the real code, as floats."""
    return list(m["hfloat"]) if "hfloat" in m else [x / 2 ** m["KB"] for x in m["h"]]


def fget(f, i):
    """Entry i (1-based) of a TLA+ function printed by ToJson as an array (domain 1..n) or an object."""
    return f[str(i)] if isinstance(f, dict) else f[i - 1]


# =============================================================================================
# pipelines
# =============================================================================================
def check_design(res, what):
    bad = [v for v in res.violated if v in DESIGN_INVS]
    if bad:
        raise TLCFailure(f"design-level invariant violated in {MODULE} ({what}): {sorted(set(bad))}\n"
                         + (res.traces[0][:4000] if res.traces else ""))


def exact_units(run, m, kb):
    """The run's snapshots in integer units of 2^-kb, or None if some value is not on that grid."""
    sc = 2 ** kb
    snaps = []
    allsn = [sn for sn in run["snaps"]] + [{"keys": sorted(run["V"]), "vals": run["V"], "solved": run["solved"]}]
    for sn in allsn:
        vals = [0] * m["N"]
        for s in sn["keys"]:
            x = sn["vals"][s] * sc
            if x != int(x) or abs(x) >= 2 ** 25:
                return None
            vals[s] = int(x)
        snaps.append({"keys": [s + 1 for s in sn["keys"]], "vals": vals, "solved": [s + 1 for s in sn["solved"]]})
    return snaps


def trace_record(m, run, tag):
    """Pipeline B: the recorded run as a trace the spec validates."""
    kb = m["KB"]
    snaps = exact_units(run, m, kb)
    if snaps is None:
        return None
    rec = {k: m[k] for k in ("N", "K", "PD", "GN", "GD", "ID", "abs", "avail", "P", "R", "p0", "KB", "EPS", "L", "h",
                             "zl", "lst", "i0")}
    aord = [list(run["orders"].get(s) or m["aord"][s]) for s in range(m["N"])]
    rec.update(mode="trace", oracle=1, rand=0, repair=MODEL_REPAIR, aord=aord, tag=tag, snaps=snaps,
               script=[{"k": c["k"], "s": c["s"], "a": c["a"], "t": c["t"]} for c in run["choices"]])
    return rec


def run_tj(ctx, recs, what):
    if not recs:
        return {}
    res = run_tlc(ctx.workdir / "tj", MODULE, CFG_TJ, files={"batch.json": recs}, env={"BATCH_FILE": "batch.json"})
    ctx.add_tlc(res, what)
    check_design(res, what)
    return {r["tag"]: r for r in res.records}


def same_final(m, run, rec):
    """Does the real run end in the machine's terminal state?"""
    sc = 2 ** m["KB"]
    upd = {s - 1 for s in rec["upd"]}
    if set(run["V"]) != upd:
        return f"stored keys {sorted(run['V'])} vs machine {sorted(upd)}"
    for s in upd:
        if run["V"][s] * sc != rec["v"][s]:
            return f"V[{s}]={run['V'][s]} vs machine {rec['v'][s] / sc}"
    if set(run["solved"]) != {s - 1 for s in rec["solved"]}:
        return f"labels {run['solved']} vs machine {sorted(s - 1 for s in rec['solved'])}"
    for s, o in run["orders"].items():
        if list(o) != list(rec["ord"][s]):
            return f"action order of {s}: {o} vs machine {rec['ord'][s]}"
    if set(run["orders"]) != {s - 1 for s in rec["seen"]}:
        return f"states with a stored action order {sorted(run['orders'])} vs machine {sorted(s - 1 for s in rec['seen'])}"
    sup = rec["term"]["sup"]
    for s, acts in run["pol"].items():
        if {a + 1 for a in acts} != set(fget(sup, s + 1)):
            return f"returned policy at {s}: {sorted(acts)} vs machine {fget(sup, s + 1)}"
    if abs(run["initial_value"] - rec["term"]["ivn"] / (m["ID"] * sc)) > 1e-12:
        return f"initial_value {run['initial_value']} vs machine {rec['term']['ivn'] / (m['ID'] * sc)}"
    if run["unconsumed"]:
        return f"{run['unconsumed']} scripted samples not consumed"
    return None


def replay_history(m, rec, rep, warm=None, post=None):
    """Pipeline A: drive the real code through the history of one emitted terminal state (optionally on a
    planner object that has already planned on `warm`)."""
    script = rec["ch"]
    ntr = sum(1 for c in script if c["k"] == 0)
    if not m["rand"]:
        return real_run(m, rep, script=script, seed=0, iterations=(ntr + 3 if warm is None else max(ntr + 3, 200)), warm=warm,
                        post=post)
    want = rec["ord"]
    last = None
    for seed in range(96):
        run = real_run(m, rep, script=script, seed=seed, randomize=True, iterations=ntr + 3)
        last = run
        if run["status"] == "ok" and all(list(o) == list(want[s]) for s, o in run["orders"].items()) and not run["unconsumed"]:
            return run
    last = dict(last)
    last["seed_search_failed"] = True
    return last


def pipeline_mc(ctx, batch, reps, *, inject=None):
    """MC over the batch + replay of every emitted history + judgement of every real run."""
    for i, m in enumerate(batch):
        m["tag"] = f"mc{i + 1}"
        m["repair"] = MODEL_REPAIR
    # (-coverage is not used: with the recursive labelling operator it slows TLC down by orders of magnitude;
    #  per-action counts are taken from the emitted histories instead)
    res = run_tlc(ctx.workdir / "mc", MODULE, CFG_MC, files={"batch.json": batch}, env={"BATCH_FILE": "batch.json"})
    ctx.add_tlc(res, "mc: every trial history of the LRTDP machine over the batch, invariants, terminal clauses")
    check_design(res, "mc")
    # a clause of the statement broken on the machine: only the real code can turn it into a verdict
    clause_broken = sorted({v for v in res.violated if v in CLAUSE_INVS})
    nviol_before = len(ctx.violations)
    runs = []
    orcs = {r["iid"]: r for r in res.records if r.get("vstar")}
    for r in res.records:
        m = batch[r["iid"] - 1]
        rep = reps[(r["iid"] - 1) % len(reps)]
        if r["pc"] != "done":
            continue
        cov = ctx.extra.setdefault("machine_actions_in_emitted_histories", {"StartTrial": 0, "TrialStep": 0, "Finish": 0,
                                                                          "histories_with_failed_CheckStep": 0,
                                                                          "histories_with_successful_CheckStep": 0})
        cov["StartTrial"] += sum(1 for c in r["ch"] if c["k"] == 0)
        cov["TrialStep"] += sum(1 for c in r["ch"] if c["k"] == 1)
        cov["Finish"] += 1
        cov["histories_with_failed_CheckStep"] += r["fail"]
        cov["histories_with_successful_CheckStep"] += r["succ"]
        t = r["term"]
        if not r["mono"]:
            ctx.count("terminal_states_with_non_monotone_heuristic")
        if t["fallback"]:
            ctx.count("terminal_states_whose_returned_policy_uses_the_fallback_at_some_state")
        for k in ("gap", "ret"):
            if t[k] == "bad":
                ctx.count(f"model_level_{k}_clause_broken")
            if t[k] == "unk":
                ctx.skip(f"terminal {k} clause not computable in 30 bits (model level)")
        # planner-reuse histories: 2 in 10 replays on a planner that has planned the same MDP before, 3 in 10
        # on one that has planned another member of the batch (same label kind, other absorbing set / dynamics)
        pick = int(digest([m["tag"], r["ch"]]), 16) % 10
        warm = None
        if not m["rand"] and pick < 5:
            warm = m if pick < 2 else batch[(r["iid"] * 7 + 3) % len(batch)]
            ctx.count("planner_reuse_same_mdp" if warm is m else "planner_reuse_other_mdp")
        # results read late: 2 in 10 replays are followed, before their result is read, by another plan_on call
        # (same planner object / a new one) on another member of the batch with labels of the same kind
        post = None
        if not m["rand"] and pick in (5, 6):
            post = (batch[(r["iid"] * 5 + 1) % len(batch)], "same" if pick == 5 else "new")
            ctx.count("result_read_after_a_later_plan_on_call")
        run = replay_history(m, r, rep, warm, post)
        ctx.evaluations += 1
        runs.append((m, r, run, rep, warm, post))
    if inject is not None:
        inject(runs)
    # judge all real runs with one TLC run
    jrecs = []
    for k, (m, r, run, rep, warm, post) in enumerate(runs):
        if run["status"] == "ok" and not run["capped"]:
            jrecs.append(judge_record(m, run, f"j{k}", oracle=0))
    jby = run_tj(ctx, jrecs, "judge: exact evaluation of the policies returned by the replayed runs")
    for k, (m, r, run, rep, warm, post) in enumerate(runs):
        case = {"m": m, "rep": rep, "kind": "A", "script": r["ch"], "tag": f"{m['tag']}:{digest(r['ch'])}",
                "seed": run.get("seed", 0), "warm": warm, "post": list(post) if post else None}
        if run["status"] == "diverged":
            if run.get("seed_search_failed") or m["rand"]:
                ctx.skip("randomised action order: no seed among 96 reproduces the emitted orders")
            else:
                ctx.drift("replay-diverged", {"case": case["tag"], "why": run["why"]})
            continue
        if run.get("seed_search_failed"):
            ctx.skip("randomised action order: no seed among 96 reproduces the emitted orders")
            continue
        judge_run(ctx, m, run, jby.get(f"j{k}"), case, pyx=(k % 7 == 0), orc=orcs[r["iid"]], mach=r)
        if run["status"] != "ok":
            continue
        why = same_final(m, run, r)
        if why is None:
            ctx.validated += 1
            if r["fail"] and r["succ"]:
                ctx.nontrivial(case["tag"])
        else:
            ctx.drift("terminal-state", {"case": case["tag"], "why": why})
        if len(ctx.samples) < 2 and r["fail"] and r["succ"]:
            ctx.sample({"pipeline": "A", "instance": {k_: m[k_] for k_ in ("N", "K", "PD", "GN", "GD", "abs", "avail", "P", "R", "p0", "EPS", "L", "h", "aord", "KB")},
                        "history": r["ch"], "machine_V": r["v"], "real_V": run["V"], "solved": run["solved"], "rep": rep})
    if clause_broken and len(ctx.violations) == nviol_before:
        raise TLCFailure(f"{clause_broken} violated on the machine but no replayed run of the real code breaks a clause: "
                         f"the specification no longer describes msdm\n" + (res.traces[0][:4000] if res.traces else ""))
    return res


def pipeline_free(ctx, cases):
    """Free-running seeds: trace validation (dyadic configurations) and judgement (all)."""
    runs = []
    for k, c in enumerate(cases):
        m = c["m"]
        run = real_run(m, c["rep"], seed=c["seed"], randomize=c["randomize"], iterations=c["iterations"], warm=c.get("warm"),
                       post=c.get("post"))
        run["iterations"] = c["iterations"]
        if c.get("post") is not None:
            ctx.count("result_read_after_a_later_plan_on_call")
        if c.get("warm") is not None:
            ctx.count("planner_reuse_same_mdp" if c["warm"] is m else "planner_reuse_other_mdp")
        ctx.evaluations += 1
        runs.append(run)
    recs = []
    for k, (c, run) in enumerate(zip(cases, runs)):
        m = c["m"]
        if run["status"] != "ok" or run["capped"]:
            continue
        tr = trace_record(m, run, f"t{k}") if c["exact"] else None
        if c["exact"] and tr is None:
            ctx.skip("free run leaves the 2^-KB grid (trace not validated, still judged)")
        if tr is not None:
            recs.append(tr)
        recs.append(judge_record2(m, run, f"j{k}") if "ka" in m else judge_record(m, run, f"j{k}", oracle=0 if tr is not None else 1))
    by = run_tj(ctx, recs, "trace: recorded free runs validated against the machine; judge: their returned policies")
    for k, (c, run) in enumerate(zip(cases, runs)):
        m = c["m"]
        case = {"m": m, "rep": c["rep"], "kind": "B", "seed": c["seed"], "randomize": c["randomize"],
                "iterations": c["iterations"], "exact": c["exact"], "warm": c.get("warm"), "post": c.get("post"),
                "tag": f"free{k}:{digest([m, c['seed']])}"}
        tr = by.get(f"t{k}")
        good = judge_run(ctx, m, run, by.get(f"j{k}"), case, pyx=(k % 7 == 0), orc=tr,
                         mach=tr if (tr is not None and tr.get("pc") == "done" and tr.get("mism") == 0 and "term" in tr) else None)
        if run["status"] != "ok" or run["capped"]:
            continue
        ntrials = sum(1 for ch in run["choices"] if ch["k"] == 0)
        if c["exact"] and tr is not None:
            if tr["pc"] == "done" and tr.get("mism") == 0 and "term" in tr:
                ctx.validated += 1
                if tr["fail"] and tr["succ"]:
                    ctx.nontrivial(case["tag"])
                why = same_final(m, dict(run, unconsumed=0), tr)
                if why is not None:
                    ctx.drift("trace-terminal-state", {"case": case["tag"], "why": why})
            elif tr.get("inexact"):
                ctx.skip("machine leaves the 2^-KB grid on a recorded trace")
            else:
                ctx.drift("trace-rejected", {"case": case["tag"], "pc": tr["pc"], "first_mismatching_snapshot": tr.get("mism"),
                                             "choices_matched": tr.get("at")})
        elif not c["exact"]:
            if good:
                ctx.validated += 1
            if ntrials >= 2 and sum(1 for x in m["abs"] if not x) >= 2:
                ctx.nontrivial(case["tag"])
        if len(ctx.samples) < 4 and ntrials >= 3:
            ctx.sample({"pipeline": "B" if c["exact"] else "J", "instance": {k_: m[k_] for k_ in ("N", "K", "PD", "GN", "GD", "abs", "avail", "P", "R", "p0", "h", "KB")},
                        "margin": m.get("margin", m["EPS"] / 2 ** m["KB"]), "seed": c["seed"], "randomize": c["randomize"],
                        "trials": ntrials, "real_V": run["V"], "initial_value": run["initial_value"], "rep": c["rep"]})


def make_free_cases(rng, n, tier):
    cases = []
    while len(cases) < n:
        exact = len(cases) % 2 == 0
        if len(cases) % 32 in (7, 23):                # admissible but inconsistent heuristic (and its consistent control)
            m = make_incons_instance(rng, kb=20, mode="free", consistent=(len(cases) % 32 == 23))
            cases.append({"m": m, "rep": dict(REPS[rng.randrange(len(REPS))]), "seed": rng.randrange(10 ** 6),
                          "randomize": False, "iterations": 4000, "exact": True})
            continue
        if len(cases) % 16 in (5, 13):                # rare catastrophic outcome (probability 2^-30)
            cases.append(make_rare_case(rng))
            continue
        if len(cases) % 8 == 3:                       # two-scale rewards (extreme magnitudes / near-ties below 1e-8)
            cases.append(make_two_scale_case(rng, "big" if len(cases) % 16 == 3 else "fine"))
            continue
        if len(cases) % 16 in (12, 14):               # targeted family "exact tie into an unvisited optimistic region"
            m = make_tie_instance(rng, kb=20, mode="free", extra_init=True)
            m["shared_actions"] = m["shared_actions"] or "list"
            cases.append({"m": m, "rep": dict(REPS[rng.randrange(len(REPS))]), "seed": rng.randrange(10 ** 6),
                          "randomize": True, "iterations": 4000, "exact": True})
            continue
        if len(cases) % 16 in (2, 10):                # targeted family "exact tie at a labelled, never updated state"
            m = make_deeptie_instance(rng, kb=20, mode="free")
            rz = len(cases) % 16 == 10
            cases.append({"m": m, "rep": dict(REPS[rng.randrange(len(REPS))]), "seed": rng.randrange(10 ** 6),
                          "randomize": rz, "iterations": 4000, "exact": True})
            continue
        if len(cases) % 16 == 6:                      # targeted family "discount-sensitive fallback"
            m = make_flip_instance(rng, kb=20, mode="free")
            cases.append({"m": m, "rep": dict(REPS[rng.randrange(len(REPS))]), "seed": rng.randrange(10 ** 6),
                          "randomize": rng.random() < 0.5, "iterations": 4000, "exact": True})
            continue
        fam = rng.choice(FAMS_MC[:5] + FAMS_MC[7:]) if exact else rng.choice(FAMS_FLOAT)
        r = base_instance(rng, dict(fam, rand=0), small=False, acyclic=(rng.random() < 0.1))
        if r is None:
            continue
        m, vs = r
        if exact:
            eps = F(1, rng.choice([2, 4, 8, 16]))
            m["KB"] = 20
        else:
            eps = F(1, rng.choice([10, 100, 100, 1000, 10000]))
            m["margin"] = float(eps)
        if m.get("acyclic"):                         # exact convergence requested
            eps = F(0)
            if not exact:
                m["margin"] = 0.0
        kind = rng.choice(["zero", "tight", "loose", "loose", "const"])
        h, kind = heuristic(rng, m, vs, kind, (eps or F(1, 8)) if exact else F(1, 128))
        sc = 2 ** m["KB"]
        m.update(EPS=int(eps * sc) if exact else 1, L=rng.choice([10 ** 6, 10 ** 6, 2, 3, 5]), h=[int(x * sc) for x in h],
                 hkind=kind, mode="free")
        if rng.random() < 0.2:
            m["zl"] = 1
            r_ = gen.reach(m)
            m["lst"] = [1 if (s in r_ or rng.random() < 0.5) else 0 for s in range(m["N"])]
        its = 4000
        if rng.random() < 0.12:
            z = [s for s in range(m["N"]) if m["p0"][s] == 0]
            if z:
                m["i0"][rng.choice(z)] = 1
        cases.append({"m": m, "rep": dict(REPS[rng.randrange(len(REPS))]), "seed": rng.randrange(10 ** 6),
                      "randomize": rng.random() < 0.5, "iterations": its, "exact": exact})
    # label kinds with colliding hashes (hash(-1) == hash(-2)) and one shared actions() object
    for c in cases:
        x = rng.random()
        if x < 0.2:
            c["m"]["relabel"] = "negint" if x < 0.1 else "negtuple"
        if "shared_actions" not in c["m"] and rng.random() < 0.3:
            c["m"]["shared_actions"] = rng.choice(["list", "tuple"])
    # planner-reuse histories: the planner object has planned the same MDP (15%) or another case's MDP (25%) before
    for k, c in enumerate(cases):
        x = rng.random()
        if x < 0.15:
            c["warm"] = c["m"]
        elif x < 0.40:
            o = cases[rng.randrange(len(cases))]["m"]
            c["warm"] = o
        elif x < 0.60:                                # result read after a later plan_on call on another MDP
            c["post"] = [cases[rng.randrange(len(cases))]["m"], rng.choice(["same", "new"])]
    return cases


# corner instances kept in every first batch, independent of the seed: the member of the first family on
# which TLC originally found the return clause broken (a state labelled without ever being updated gets its
# action from the fallback of the returned policy; repaired in msdm by 9a59871)
CORNER_D3 = {"N": 4, "K": 3, "PD": 2, "GN": 1, "GD": 1, "ID": 4, "abs": [0, 0, 1, 0],
             "avail": [[1, 1, 1], [0, 1, 1], [1, 1, 1], [0, 1, 1]],
             "P": [[[0, 1, 1, 0], [0, 0, 0, 2], [0, 1, 1, 0]], [[0, 1, 1, 0], [0, 0, 2, 0], [2, 0, 0, 0]],
                   [[1, 1, 0, 0], [2, 0, 0, 0], [0, 2, 0, 0]], [[0, 0, 1, 1], [0, 1, 1, 0], [0, 0, 1, 1]]],
             "R": [[[1, 1, 0, 1], [0, -2, -1, -1], [0, -1, -1, -1]], [[0, -1, -2, -2], [-2, 1, 0, -2], [-1, 0, 1, -1]],
                   [[1, -1, 1, 0], [-1, -2, -2, 1], [0, -1, -2, -2]], [[0, -2, -1, -2], [-1, -1, 0, 0], [-1, 1, -2, 1]]],
             "p0": [4, 0, 0, 0], "KB": 16, "EPS": 8192, "L": 3, "h": [163840, 0, 0, -32768],
             "aord": [[1, 2, 3], [2, 3], [1, 3, 2], [2, 3]], "hkind": "loose", "rand": 0, "zl": 0, "lst": [1, 1, 1, 1],
             "i0": [1, 0, 0, 0], "oracle": 1, "mode": "mc"}


def make_flip_instance(rng, *, kb=KB, mode="mc"):
    """Targeted family "discount-sensitive fallback": discount 1/2 or 3/4, heuristic = exact V* (plus slack below
    the margin at some states).  s0 has a stochastic action x whose outcomes are an absorbing state g and a state
    u; under the histories in which u is never sampled, u (and w behind it) are labelled by _check_solved alone
    and never stored, so the returned policy at u comes from the fallback look-ahead.  At u two actions compete:
    a goes to g, b goes to w (worth -v or +v), with immediate rewards such that r + gamma*V(ns) and r + V(ns)
    rank them in opposite orders, the loss of the wrong one being a multiple of the margin."""
    g_n, g_d = rng.choice([(1, 2), (1, 2), (3, 4)])
    v = 8 if (g_n, g_d) == (3, 4) else rng.choice([4, 8])
    sign = rng.choice([-1, -1, 1])                     # w is worth sign * v
    mid = math.ceil(v * (1 + F(g_n, g_d)) / 2)
    rb = rng.choice([0, -1, 1])
    ra = rb + sign * mid
    perm = list(range(4))
    rng.shuffle(perm)
    s0, u, w, g = perm
    K = 2
    N = 4
    avail = [[0, 0] for _ in range(N)]
    P = [[[0] * N for _ in range(K)] for _ in range(N)]
    R = [[[0] * N for _ in range(K)] for _ in range(N)]
    # s0: x -> {u, g} with probability 1/2 each; optionally a second, clearly worse action straight to g
    x = rng.randrange(2)
    avail[s0][x] = 1
    P[s0][x][u], P[s0][x][g] = 1, 1
    R[s0][x][u], R[s0][x][g] = rng.choice([0, -1]), rng.choice([0, -1, -2])
    if rng.random() < 0.5:
        avail[s0][1 - x] = 1
        P[s0][1 - x][g] = 2
        R[s0][1 - x][g] = -20
    # u: a -> g, b -> w
    a = rng.randrange(2)
    avail[u] = [1, 1]
    P[u][a][g] = 2
    R[u][a][g] = ra
    P[u][1 - a][w] = 2
    R[u][1 - a][w] = rb
    # w: one action to g worth sign * v
    c = rng.randrange(2)
    avail[w][c] = 1
    P[w][c][g] = 2
    R[w][c][g] = sign * v
    # g: absorbing, ghost dynamics back into the non-absorbing part
    avail[g] = [1, 1]
    for k in range(K):
        P[g][k][rng.choice([s0, u, w, g])] = 2
        R[g][k] = [rng.choice([-3, 0, 4]) for _ in range(N)]
    p0 = [0] * N
    p0[s0] = 2
    m = {"N": N, "K": K, "PD": 2, "GN": g_n, "GD": g_d, "ID": 2, "abs": [1 if t == g else 0 for t in range(N)],
         "avail": avail, "P": P, "R": R, "p0": p0}
    vs = pyoracle.optimal_value(m)
    eps = F(1, rng.choice([8, 16]))
    sc = 2 ** kb
    h = []
    for t in range(N):
        if t == g:
            h.append(rng.choice([F(0), F(2), F(5)]))
        else:
            h.append(vs[t] + rng.choice([F(0), F(0), eps / 2]))
    aord = []
    for t in range(N):
        av = [k + 1 for k in range(K) if avail[t][k]]
        rng.shuffle(av)
        aord.append(av)
    m.update(KB=kb, EPS=int(eps * sc), L=rng.choice([3, 4, 10 ** 6]) if mode != "mc" else rng.choice([3, 4]),
             h=[int(y * sc) for y in h], hkind="flip", rand=0, aord=aord, zl=0, lst=[1] * N,
             i0=[1 if q > 0 else 0 for q in p0], oracle=1, mode=mode)
    assert all(int(y * sc) == y * sc for y in h)
    return m


def make_tie_instance(rng, *, kb=KB, mode="mc", extra_init=False):
    """Targeted family "exact tie into an unvisited optimistic region", for randomize_action_order: at s0
    action a goes straight to the absorbing g (reward r), action b goes to u (reward 0) whose heuristic is the
    optimistic r / gamma while its true value is lower by `loss`; Q(s0, a) = Q(s0, b) exactly as long as u is not
    visited.  Under the action orders that list a first the run ends with u never touched; the returned policy
    must then be a - the first maximiser in the order the *planner* fixed for s0, not in that of mdp.actions.
    Every state lists both actions (actions() may be one shared list object); extra_init adds a second initial
    state s1, so that new states can be met - and their orders shuffled - after s0 has been labelled."""
    g_n, g_d = rng.choice([(1, 1), (1, 2)])
    r = rng.choice([-1, -2])
    loss = rng.choice([2, 3])
    hu = F(r) * g_d / g_n                               # r / gamma
    N = 4 if extra_init else 3
    perm = list(range(N))
    rng.shuffle(perm)
    s0, u, g = perm[:3]
    s1 = perm[3] if extra_init else None
    K = 2
    P = [[[0] * N for _ in range(K)] for _ in range(N)]
    R = [[[0] * N for _ in range(K)] for _ in range(N)]
    a = rng.randrange(2)
    P[s0][a][g] = 2
    R[s0][a][g] = r
    P[s0][1 - a][u] = 2
    for k, pay in ((0, 0), (1, -1)):
        P[u][k][g] = 2
        R[u][k][g] = int(hu) - loss + pay
    for k in range(K):
        P[g][k][rng.choice(perm)] = 2
        R[g][k] = [rng.choice([-3, 0, 4]) for _ in range(N)]
    p0 = [0] * N
    if extra_init:
        for k, pay in ((0, -1), (1, -2)):
            P[s1][k][g] = 2
            R[s1][k][g] = pay
        p0[s0], p0[s1] = 1, 1
    else:
        p0[s0] = 2
    m = {"N": N, "K": K, "PD": 2, "GN": g_n, "GD": g_d, "ID": 2, "abs": [1 if t == g else 0 for t in range(N)],
         "avail": [[1, 1] for _ in range(N)], "P": P, "R": R, "p0": p0}
    eps = F(1, rng.choice([8, 16]))
    sc = 2 ** kb
    h = [F(0)] * N
    h[s0] = F(rng.choice([0, r]))
    h[u] = hu
    h[g] = F(rng.choice([0, 2]))
    if extra_init:
        h[s1] = F(rng.choice([0, -1]))
    if rng.random() < 0.5:
        aord = [rng.sample([1, 2], 2)] * N
        aord = [list(o) for o in aord]
    else:
        aord = [rng.sample([1, 2], 2) for _ in range(N)]
    m.update(KB=kb, EPS=int(eps * sc), L=rng.choice([3, 4]) if mode == "mc" else rng.choice([3, 10 ** 6]),
             h=[int(y * sc) for y in h], hkind="tie", rand=1 if mode == "mc" else 0, aord=aord, zl=0, lst=[1] * N,
             i0=[1 if q > 0 else 0 for q in p0], oracle=1, mode=mode, shared_actions=rng.choice(["", "list", "list", "tuple"]))
    return m


def make_deeptie_instance(rng, *, kb=KB, mode="mc", rand=0):
    """Targeted family "exact tie at a state that is labelled but never updated".  s0 has a stochastic action x
    with outcomes g (absorbing) and t; under the histories that never sample t, _check_solved reaches t from s0,
    finds its heuristic consistent (residual within the margin without any backup) and labels it.  At t the
    verified greedy action a (to g, reward ra) is exactly tied with b (reward 0, to u) because u's admissible
    heuristic is the optimistic ra / gamma while u is really worth `loss` less; u is never explored when a comes
    first in t's action order.  The returned policy at t must be the single action the labels certify.
    All states list both actions (so actions() can be one shared list object)."""
    g_n, g_d = rng.choice([(1, 1), (1, 2)])
    ra = rng.choice([-1, -2])
    loss = rng.choice([2, 3])
    hu = F(ra) * g_d / g_n
    N = 4
    perm = list(range(N))
    rng.shuffle(perm)
    s0, t, u, g = perm
    extra_init = False
    K = 2
    P = [[[0] * N for _ in range(K)] for _ in range(N)]
    R = [[[0] * N for _ in range(K)] for _ in range(N)]
    # s0: both actions x, x' -> {g, t} (x' pays one less: never greedy)
    x = rng.randrange(2)
    for k, pay in ((x, 0), (1 - x, -1)):
        P[s0][k][g], P[s0][k][t] = 1, 1
        R[s0][k][g], R[s0][k][t] = rng.choice([0, -1]) + pay, pay
    a = rng.randrange(2)
    P[t][a][g] = 2
    R[t][a][g] = ra
    P[t][1 - a][u] = 2
    for k, pay in ((0, 0), (1, -1)):
        P[u][k][g] = 2
        R[u][k][g] = int(hu) - loss + pay
    for k in range(K):
        P[g][k][rng.choice(perm)] = 2
        R[g][k] = [rng.choice([-3, 0, 4]) for _ in range(N)]
    if extra_init:
        for k, pay in ((0, -1), (1, -2)):
            P[s1][k][g] = 2
            R[s1][k][g] = pay
    p0 = [0] * N
    if extra_init:
        p0[s0], p0[s1] = 1, 1
    else:
        p0[s0] = 2
    m = {"N": N, "K": K, "PD": 2, "GN": g_n, "GD": g_d, "ID": 2, "abs": [1 if q == g else 0 for q in range(N)],
         "avail": [[1, 1] for _ in range(N)], "P": P, "R": R, "p0": p0}
    vs = pyoracle.optimal_value(m)
    eps = F(1, rng.choice([8, 16]))
    sc = 2 ** kb
    h = [F(0)] * N
    h[s0] = vs[s0] + rng.choice([F(0), F(1, 2), F(1)])           # s0 is updated anyway
    h[t] = vs[t] + rng.choice([F(0), F(0), eps / 2])             # consistent at t: residual <= margin without a backup
    h[u] = hu                                                     # optimistic: V*(u) = hu - loss
    h[g] = F(rng.choice([0, 2]))
    if extra_init:
        h[s1] = vs[s1] + rng.choice([F(0), F(1)])
    first = [a + 1, 2 - a] if rng.random() < 0.75 else [2 - a, a + 1]       # order at t: mostly the verified action first
    if rng.random() < 0.5:
        aord = [list(first) for _ in range(N)]                   # one order for all states: shared list / tuple possible
    else:
        aord = [rng.sample([1, 2], 2) for _ in range(N)]
        aord[t] = list(first)
    m.update(KB=kb, EPS=int(eps * sc), L=rng.choice([3, 4]) if mode == "mc" else rng.choice([3, 10 ** 6]),
             h=[int(y * sc) for y in h], hkind="deeptie", rand=rand, aord=aord, zl=0, lst=[1] * N,
             i0=[1 if q > 0 else 0 for q in p0], oracle=1, mode=mode, shared_actions=rng.choice(["", "list", "list", "tuple"]))
    assert all(int(y * sc) == y * sc for y in h)
    return m


RARE = 30                                              # the rare outcome has probability 2^-30 (9.3e-10)


def make_rare_case(rng):
    """Targeted family "rare catastrophic outcome": one action has an outcome of probability delta = 2^-30 into a
    state `bad` whose only action pays -c * 2^30 on its way to an absorbing state, so that the rare outcome costs
    gamma * c in expectation - far more than the margin.  Numbers like these do not fit the 32-bit arithmetic of
    TLC; the instance TLC sees is the *collapsed* one: the action's branch (1/2 - delta into g, reward 0) +
    (delta into bad, reward 0) is replaced by (1/2 into g, reward -2 * gamma * c), which has exactly the same
    expected one-step value for every value function (values are linear in the transition row and
    V(bad) = -c * 2^30 under every policy); V*, V^pi coincide on the common states (cross-checked on every run
    against the Fraction oracle applied to the uncollapsed instance), N^pi differs by delta * occupancy <= 2^-29.
    msdm is run on the uncollapsed instance (probabilities over 2^31, exactly representable doubles)."""
    while True:
        g_n, g_d = rng.choice([(1, 1), (1, 1), (1, 2)])
        r = base_instance(rng, dict(GN=g_n, GD=g_d, PD=2, rewards=(-2, -1, 0), n_na=(1, 2, 2, 3), rand=0), small=False)
        if r is None:
            continue
        ma, _ = r
        N, K = ma["N"], ma["K"]
        cand = [(s, a, t) for s in range(N) if not ma["abs"][s] for a in range(K) if ma["avail"][s][a]
                for t in range(N) if ma["abs"][t] and ma["P"][s][a][t] == 1]
        if not cand:
            continue
        s, a, g = rng.choice(cand)
        c = rng.choice([1, 2, 3]) if g_d == 1 else rng.choice([2, 4])
        ma["R"][s][a][g] = -2 * c * g_n // g_d                  # = -2 * gamma * c
        vs = pyoracle.optimal_value(ma)
        if any(v == pyoracle.NEG for v in vs) or not gen.magnitude_ok(ma, QD=6):
            continue
        eps = F(1, rng.choice([8, 64, 1000]))
        kind = rng.choice(["zero", "tight", "loose", "const"])
        h, kind = heuristic(rng, ma, vs, kind, F(1, 8))
        ma.update(KB=KB, EPS=1, L=1, h=[int(x * SC) for x in h], hkind=kind + "+rare", mode="free", margin=float(eps))
        # the uncollapsed instance msdm runs on: one more state `bad` (index N)
        big = 2 ** RARE
        mr = {k: ma[k] for k in ("K", "GN", "GD", "ID", "margin", "KB", "EPS", "zl", "rand", "oracle", "hkind", "mode")}
        mr["N"] = N + 1
        mr["PD"] = 2 * big
        mr["abs"] = ma["abs"] + [0]
        mr["avail"] = [list(x) for x in ma["avail"]] + [[1] + [0] * (K - 1)]
        mr["P"] = [[[ma["P"][i][j][t] * big for t in range(N)] + [0] for j in range(K)] for i in range(N)] + \
                  [[[0] * (N + 1) for _ in range(K)]]
        mr["R"] = [[list(ma["R"][i][j]) + [0] for j in range(K)] for i in range(N)] + [[[0] * (N + 1) for _ in range(K)]]
        mr["P"][s][a][g] = big - 2
        mr["P"][s][a][N] = 2                                    # 2 / 2^31 = 2^-30
        mr["R"][s][a][g] = 0
        mr["P"][N][0][g] = 2 * big
        mr["R"][N][0][g] = -c * big
        mr["p0"] = ma["p0"] + [0]
        mr["i0"] = ma["i0"] + [0]
        mr["lst"] = [1] * (N + 1)
        mr["aord"] = [list(o) for o in ma["aord"]] + [[1]]
        mr["L"] = rng.choice([10 ** 6, 10 ** 6, 4])
        hb = rng.choice([0.0, 0.0, -c * big / 2, float(-c * big)])      # optimistic (or exact) at the bad state
        mr["hfloat"] = [x / SC for x in ma["h"]] + [hb]
        mr["h"] = ma["h"] + [0]
        mr["collapse"] = {"bad": N, "m": ma, "vbad": -c * big}
        return {"m": mr, "rep": dict(REPS[rng.choice([0, 1, 2, 4, 5])]), "seed": rng.randrange(10 ** 6),
                "randomize": rng.random() < 0.5, "iterations": 4000, "exact": False}


def make_incons_instance(rng, *, kb=KB, mode="mc", consistent=False):
    """Targeted family "admissible but inconsistent heuristic" (four non-absorbing states, probabilities over 4).
      s0: a -> g (ra)           b -> x (-1)        start state; h(x) = V*(x) makes b look bad: s0 is labelled with a
      y0: a -> {x 1/4, z 3/4} (-1)   b -> g (rb)   start state, lured into a by the optimistic h(z) = 0
      x : -> z (-1)             z : -> g (-big)    h(x) = V*(x) (tight), h(z) = 0 (loose): a backup RAISES V(x)
    With max_trial_length = 2 a trial y0, x, z is cut before z is updated, the labelling pass fails at z and never
    gets back to x, whose value stays raised; y0 then learns z, turns to b and is labelled - the run ends with
    Q(s0, b) = -1 + V(x) above Q(s0, a) although a is the action s0's label certified.
    consistent=True is the control: h = V* everywhere (no value can rise), same MDP."""
    big = rng.choice([20, 24])
    ra = rng.choice([-3, -4])
    rb = rng.choice([-7, -8])
    perm = list(range(5))
    rng.shuffle(perm)
    s0, y0, x, z, g = perm
    N, K = 5, 2
    P = [[[0] * N for _ in range(K)] for _ in range(N)]
    R = [[[0] * N for _ in range(K)] for _ in range(N)]
    a0, ay = rng.randrange(2), rng.randrange(2)
    P[s0][a0][g] = 4; R[s0][a0][g] = ra
    P[s0][1 - a0][x] = 4; R[s0][1 - a0][x] = -1
    P[y0][ay][x], P[y0][ay][z] = 1, 3; R[y0][ay][x] = R[y0][ay][z] = -1
    P[y0][1 - ay][g] = 4; R[y0][1 - ay][g] = rb
    for k in range(K):
        P[x][k][z] = 4; R[x][k][z] = -1 - k
        P[z][k][g] = 4; R[z][k][g] = -big - k
        P[g][k][rng.choice(perm)] = 4
        R[g][k] = [rng.choice([-3, 0, 4]) for _ in range(N)]
    p0 = [0] * N
    p0[s0], p0[y0] = 1, 1
    m = {"N": N, "K": K, "PD": 4, "GN": 1, "GD": 1, "ID": 2, "abs": [1 if q == g else 0 for q in range(N)],
         "avail": [[1, 1] for _ in range(N)], "P": P, "R": R, "p0": p0}
    vs = pyoracle.optimal_value(m)
    sc = 2 ** kb
    eps = F(1, rng.choice([8, 16]))
    h = [F(0)] * N
    if consistent:
        h = [F(0) if q == g else vs[q] for q in range(N)]
    else:
        h[x] = vs[x]                                   # exact at x, loose (0) at z, y0; s0 anything admissible
        h[s0] = rng.choice([F(0), vs[s0]])
    h[g] = F(rng.choice([0, 2]))
    aord = [rng.sample([1, 2], 2) for _ in range(N)]
    m.update(KB=kb, EPS=int(eps * sc), L=2, h=[int(v * sc) for v in h], hkind="consistent-control" if consistent else "inconsistent",
             rand=0, aord=aord, zl=0, lst=[1] * N, i0=[1 if q > 0 else 0 for q in p0], oracle=1, mode=mode)
    return m


def make_two_scale_case(rng, kind):
    """Rewards r = 2^ka * RA + 2^kb * RB with ka - kb >= 19, exactly representable in doubles but far outside
    32-bit arithmetic: the scale stays symbolic in the spec (mode "judge2", lexicographic oracle).
      big   step costs of 2^19 (5e5) next to costs of 2^-12, margins 1e-6: |V| * 1e-9 exceeds the margin, so a
            residual test with a relative tolerance, or any judgement relative to |V|, shows
      fine  unit costs next to 2^-30 (9e-10), margins 1e-10 / 1e-12, and a state with two actions that differ
            only in the fine layer: near-ties finer than 1e-8 that the margin still has to resolve
    Heuristics: exact, exact on the coarse layer ignoring the fine one, coarse layer + slack, or 0."""
    while True:
        g_n, g_d = rng.choice([(1, 1), (1, 1), (1, 2)])
        n_na = rng.choice([2, 3, 3])
        m = gen.rand_mdp(rng, n_na=n_na, n_abs=rng.choice([1, 1, 2]), K=2, PD=2, GN=g_n, GD=g_d,
                         rewards=(-2, -1) if kind == "big" else (-2, -1, 0), ID=rng.choice([2, 4]), force_progress=True,
                         init_on_abs=0.2, uniform_actions=(kind == "fine"))
        N, K = m["N"], m["K"]
        RA = m["R"]
        RB = [[[rng.choice([0, -1, -2, -3]) for _ in range(N)] for _ in range(K)] for _ in range(N)]
        if kind == "fine":
            # a state whose two actions differ only in the fine layer (second one worse by one fine unit)
            cand = [s for s in range(N) if not m["abs"][s]]
            s = rng.choice(cand)
            lo, hi = rng.sample([0, 1], 2)
            m["P"][s][lo] = list(m["P"][s][hi])
            RA[s][lo] = list(RA[s][hi])
            RB[s][lo] = [x - 1 for x in RB[s][hi]]
        ka, kb = (19, -12) if kind == "big" else (0, -30)
        sa, sb = F(2) ** ka, F(2) ** kb
        mA, mB = dict(m, R=RA), dict(m, R=RB)
        mF = dict(m, R=[[[sa * RA[s][a][t] + sb * RB[s][a][t] for t in range(N)] for a in range(K)] for s in range(N)])
        if not gen.magnitude_ok(mA, QD=6):
            continue
        # lexicographic optimum (independent of the spec) must coincide with the numeric one at these scales
        pols = list(pyoracle.det_policies(m))
        vals = [(pyoracle.policy_value(mA, w), pyoracle.policy_value(mB, w)) for w in pols]
        na = [s for s in range(N) if not m["abs"][s]]
        best = [x for x in vals if all((x[0][s], x[1][s]) >= (y[0][s], y[1][s]) for y in vals for s in na)]
        vnum = pyoracle.optimal_value(mF)
        if not best or any(sa * best[0][0][s] + sb * best[0][1][s] != vnum[s] for s in range(N)):
            continue
        astar, bstar = best[0]
        hA, hB = [], []
        for s in range(N):
            c = rng.choice(["exact", "coarse", "coarse", "slack", "zero"])
            if m["abs"][s]:
                hA.append(F(rng.choice([0, 0, 5]))); hB.append(F(0))
            elif c == "exact":
                hA.append(astar[s]); hB.append(bstar[s])
            elif c == "coarse" or (c == "zero" and astar[s] > 0):
                hA.append(astar[s]); hB.append(F(0))
            elif c == "slack":
                hA.append(astar[s] + rng.choice([F(1, 2), F(1)])); hB.append(F(0))
            else:
                hA.append(F(0)); hB.append(F(0))
        hfl = [float(sa * x + sb * y) for x, y in zip(hA, hB)]
        if any(F(z) != sa * x + sb * y for z, x, y in zip(hfl, hA, hB)):
            continue                                   # heuristic not exactly representable
        aord = []
        for s in range(N):
            av = [a + 1 for a in range(K) if m["avail"][s][a]]
            rng.shuffle(av)
            aord.append(av)
        margin = rng.choice([1e-6, 2.0 ** -20]) if kind == "big" else rng.choice([1e-10, 1e-12, 2.0 ** -34])
        m.update(RA=RA, RB=RB, ka=ka, kb=kb, R=[[[float(x) for x in row] for row in sr] for sr in mF["R"]],
                 hA=[[x.numerator, x.denominator] for x in hA], hB=[[x.numerator, x.denominator] for x in hB],
                 hfloat=hfl, margin=margin, KB=KB, EPS=1, L=rng.choice([10 ** 6, 10 ** 6, 4]), h=[0] * N, hkind="two-scale-" + kind,
                 rand=0, aord=aord, zl=0, lst=[1] * N, i0=[1 if q > 0 else 0 for q in m["p0"]], oracle=1, mode="free")
        return {"m": m, "rep": dict(REPS[rng.randrange(len(REPS))]), "seed": rng.randrange(10 ** 6),
                "randomize": rng.random() < 0.5, "iterations": 1500, "exact": False}


def make_mc_batch(rng, n, tier, corner=False, budget=None, cap=None, ctx=None):
    """n instances whose machines have at most `cap` states each and about `budget` states together."""
    cap = cap or (1500 if tier == "quick" else 6000)
    budget = budget or (n * 225 if tier == "quick" else n * 500)
    batch = [dict(CORNER_D3)] if corner else []
    if corner:                                        # targeted family, in every first batch
        batch += [make_flip_instance(rng) for _ in range(12 if tier == "quick" else 60)]
        batch += [make_tie_instance(rng, extra_init=(i_ % 2 == 1)) for i_ in range(8 if tier == "quick" else 40)]
        k_ = 4 if tier == "quick" else 20
        batch += [make_incons_instance(rng, consistent=(i_ % 3 == 2)) for i_ in range(6 if tier == "quick" else 30)]
        batch += [make_deeptie_instance(rng, rand=0) for _ in range(2 * k_)]
        batch += [make_deeptie_instance(rng, rand=1) for _ in range(k_)]
    total = 0
    while len(batch) < n and total < budget:
        m = make_mc_instance(rng, FAMS_MC[len(batch) % len(FAMS_MC)], tier)
        if m is None:
            continue
        size = machine_size(m, cap)
        if size is None:
            if ctx is not None:
                ctx.skip(f"instance whose history space exceeds {cap} machine states (not model checked)")
            continue
        total += size
        batch.append(m)
    return batch


# =============================================================================================
def run(ctx):
    rng = random.Random(ctx.seed * 104729 + 4)
    ctx.rule = ("A: (instance, history) pairs emitted by TLC and reproduced by the real code whose history has at least one "
                "failed and one successful labelling pass; B: recorded free runs accepted by the machine with the same; "
                "J (non-dyadic configurations): free runs with >= 2 trials on >= 2 non-absorbing states")
    ctx.assumptions = [
        "TLC evaluates the TLA+ oracle correctly (cross-checked against an independent Fraction implementation on every 7th run)",
        "float comparisons of the judged clauses use 1e-9 relative slack on top of margin * N^pi",
        "termination of a free run is judged against an iteration cap of 4000 trials (instances have <= 5 states)",
    ]
    n_mc, n_free = (350, 1000) if ctx.tier == "quick" else (2000, 8000)
    chunk = 300
    left = n_mc
    while left > 0:
        batch = make_mc_batch(rng, min(chunk, left), ctx.tier, corner=(left == n_mc), ctx=ctx)
        reps = [dict(REPS[rng.randrange(len(REPS))]) for _ in batch]
        pipeline_mc(ctx, batch, reps)
        left -= chunk
    cases = make_free_cases(rng, n_free, ctx.tier)
    for k in range(0, len(cases), 1500):
        pipeline_free(ctx, cases[k:k + 1500])


def replay(ctx, case):
    m = case["m"]
    if case["kind"] == "A":
        ntr = sum(1 for c in case["script"] if c["k"] == 0)
        warm = case.get("warm")
        run = real_run(m, case["rep"], script=case["script"], seed=case.get("seed", 0), randomize=bool(m["rand"]),
                       iterations=(ntr + 3 if warm is None else max(ntr + 3, 200)), warm=warm, post=case.get("post"))
    else:
        run = real_run(m, case["rep"], seed=case["seed"], randomize=case["randomize"], iterations=case["iterations"],
                       warm=case.get("warm"), post=case.get("post"))
        run["iterations"] = case["iterations"]
    ctx.evaluations += 1
    if run["status"] == "diverged":
        ctx.drift("replay-diverged", {"case": case["tag"], "why": run["why"]})
        return
    jby = {}
    if run["status"] == "ok" and not run["capped"]:
        jby = run_tj(ctx, [judge_record2(m, run, "j0") if "ka" in m else judge_record(m, run, "j0")], "judge (replay)")
    if judge_run(ctx, m, run, jby.get("j0"), case, pyx=True):
        ctx.validated += 1


def selftest(ctx):
    """Binding demonstration: (A) corrupt one value returned by the real code in one replayed history,
    (B) drop one recorded sample of one free run; both must be detected."""
    rng = random.Random(11)
    batch = make_mc_batch(rng, 20, "quick")
    reps = [dict(REPS[i % len(REPS)]) for i in range(len(batch))]
    hit = {}

    def inject(runs):
        for (m, r, run, rep, warm, post) in runs:
            if run["status"] == "ok" and r["pc"] == "done" and any(m["p0"][s] > 0 and not m["abs"][s] and s in run["V"] for s in range(m["N"])):
                s = next(s for s in range(m["N"]) if m["p0"][s] > 0 and not m["abs"][s] and s in run["V"])
                run["V"][s] += 8.0
                hit["tag"] = m["tag"]
                return
    before_v, before_d = len(ctx.violations), len(ctx.drifts)
    pipeline_mc(ctx, batch, reps, inject=inject)
    ok_a = len(ctx.violations) > before_v and len(ctx.drifts) > before_d
    print(f"  (selftest) A: corrupted value in {hit.get('tag')}: violations +{len(ctx.violations) - before_v}, drifts +{len(ctx.drifts) - before_d}")
    # (B) drop one recorded sample
    cases = [c for c in make_free_cases(rng, 40, "quick") if c["exact"]]
    runs = []
    for c in cases:
        runs.append(real_run(c["m"], c["rep"], seed=c["seed"], randomize=c["randomize"], iterations=c["iterations"]))
    recs, dropped = [], None
    for k, (c, run) in enumerate(zip(cases, runs)):
        if run["status"] != "ok" or run["capped"]:
            continue
        tr = trace_record(c["m"], run, f"t{k}")
        if tr is None:
            continue
        if dropped is None and len(tr["script"]) >= 4:
            del tr["script"][2]
            dropped = f"t{k}"
        recs.append(tr)
    by = run_tj(ctx, recs, "selftest: traces with one dropped sample")
    rejected = [t for t, r in by.items() if not (r["pc"] == "done" and r.get("mism") == 0 and "term" in r) and not r.get("inexact")]
    ok_b = dropped is not None and rejected == [dropped]
    print(f"  (selftest) B: dropped a sample of {dropped}; rejected traces: {rejected} of {len(recs)}")
    return ok_a and ok_b
