"""C10 - TD learners' Q-tables are exactly their update rule applied to the experience.

Pipelines (spec/C10_TD.tla decides every verdict):
  MC  - TLC explores ALL experience histories (Start / Step / End free) of small proper MDPs x 4 learners x
        step sizes {0,1/2,1} x gamma {1/2,1} x constant / state-action initial values, exact arithmetic, with
        the invariants AbsorbingZero, UnvisitedInitial, UnavailableUntouched, Bounded, InstancesOK.
  B   - the real learners are run on msdm objects built from random instances (several representations, label
        kinds, distribution kinds) with a recording TDLearningEventListener; the recorded experience, the
        returned q_values and the returned policy are projected to abstract indices / fixed-point integers and
        TLC validates each trace against the same machine (one event = one action), folding the rule itself.
Python only builds objects, runs msdm, projects, and maps TLC's failure records to VIOLATION / DRIFT.
"""
import math
import random
from fractions import Fraction as F

from .. import gen, build
from ..core import digest
from ..tlc import run_tlc, TLCFailure

MODULE = "C10_TD"
SCALE = 65536
PUNIT = 61440
CLAMP = 2 ** 26            # logged values are clamped here so that a wild value cannot overflow TLC's integers
MAXSTEPS = 120             # longer trainings are validated as a prefix only (truncated = 1)

INST_KEYS = ("N", "K", "PD", "GN", "GD", "ID", "abs", "avail", "P", "R", "p0")
ALG_CLASS = {"Q": "QLearning", "SARSA": "SARSA", "ESARSA": "ExpectedSARSA", "DQ": "DoubleQLearning"}
ALGS = ["Q", "SARSA", "ESARSA", "DQ"]

DESIGN_INVS = ["AbsorbingZero", "UnvisitedInitial", "UnavailableUntouched", "Bounded", "Shape", "InstancesOK"]
CFG_TRACE = "INIT Init\nNEXT Next\nCHECK_DEADLOCK FALSE\nINVARIANT Emit\n" + \
            "".join(f"INVARIANT {i}\n" for i in DESIGN_INVS)
CFG_MC = "INIT Init\nNEXT Next\nCHECK_DEADLOCK FALSE\nCONSTRAINT DepthBound\nINVARIANT Emit\n" + \
         "".join(f"INVARIANT {i}\n" for i in DESIGN_INVS)
CFG_MCBUG = "INIT Init\nNEXT Next\nCHECK_DEADLOCK FALSE\nCONSTRAINT DepthBound\nINVARIANT AbsorbingZeroAnyMode\n"

REPS = [
    dict(rep="quick", labels="int", alabels="int", explicit_list=False, dist="dict"),
    dict(rep="subclass", labels="str", alabels="str", explicit_list=True, dist="dict_zeros"),
    dict(rep="quick", labels="tuple", alabels="str", explicit_list=False, dist="det"),
    dict(rep="matrices", labels="frozendict", alabels="int", explicit_list=True, dist="dict"),
    dict(rep="subclass", labels="mixed", alabels="mixed", explicit_list=False, dist="uniform"),
    dict(rep="quick", labels="str", alabels="tuple", explicit_list=True, dist="dict_zeros"),
    dict(rep="matrices", labels="mixed", alabels="str", explicit_list=False, dist="dict"),
]

# violations whose clause is about the policy / the table / a step
POLICY_CLAUSES = ("policy-",)
TABLE_CLAUSES = ("q-", "absorbing-row", "bounded/returned")


# --------------------------------------------------------------------------------------------
# case generation
# --------------------------------------------------------------------------------------------
FAMS = [dict(GN=1, GD=2, PD=2), dict(GN=3, GD=4, PD=2), dict(GN=9, GD=10, PD=2), dict(GN=1, GD=1, PD=2),
        dict(GN=1, GD=2, PD=4), dict(GN=1, GD=1, PD=4), dict(GN=9, GD=10, PD=4)]
ALPHAS = [(0, 1), (1, 10), (1, 4), (1, 2), (1, 2), (3, 4), (1, 1), (1, 1)]
EPSS = [(0, 1), (1, 10), (1, 4), (1, 2), (1, 1)]
TEMPS = [0.0, 0.0, 0.0, 0.0, 0.5, 2.0]
SOFT_TEMPS = [0.02, 0.05, 0.05, 0.2, 0.5, 2.0]      # expected SARSA, softmax configuration (small tau: tight interval)
SOFT_EPSS = [(0, 1), (1, 4), (1, 2), (1, 2), (1, 1), (1, 1)]
WU = 2 ** 20                                          # softmax weights are logged in units of 1/2^20 (wh * 2^10 + wl)


def make_q0(rng, m):
    """Initial values in quarters: constant, or a state-action table (callable initial_q)."""
    N, K = m["N"], m["K"]
    kind = rng.choice(["const", "const", "table", "table", "by_action"])
    if kind == "const":
        v = rng.choice([-8, -4, -1, 0, 0, 2, 4, 8, 16])
        return kind, [[v] * K for _ in range(N)]
    if kind == "by_action":
        row = [rng.randint(-8, 8) for _ in range(K)]
        return kind, [list(row) for _ in range(N)]
    return kind, [[rng.randint(-8, 8) for _ in range(K)] for _ in range(N)]


PERT = 2.0 ** -40          # near-tie family: some rewards are R + d * 2^-40, d in {-1, 0, 1}


def make_near_tie_case(rng, i):
    """Near-tie family: all model rewards equal one integer, the real MDP pays R + d * 2^-40 (d per transition), so
    actions of a visited state end up with Q-values that differ by a relative gap far below 1e-9 (invisible at the
    resolution 1/65536, visible to ==).  Step sizes 1 and 1/2, heavy exploration, several episodes, all learners."""
    f = FAMS[i % 4]                                   # PD = 2, gamma in {1/2, 3/4, 9/10, 1}
    K = rng.choice([2, 2, 3])
    c = rng.choice([1, 1, 2, -1])
    m = gen.rand_mdp(rng, n_na=rng.choice([1, 2, 2, 3]), n_abs=1, K=K, PD=f["PD"], GN=f["GN"], GD=f["GD"],
                     rewards=(c,), ID=2, force_progress=True, init_on_abs=0.0, uniform_actions=rng.random() < 0.6)
    N = m["N"]
    pert = [[[rng.choice([-1, 0, 0, 1]) for _ in range(N)] for _ in range(K)] for _ in range(N)]
    AN, AD = rng.choice([(1, 1), (1, 1), (1, 2)])
    EN, ED = rng.choice([(1, 2), (1, 1)])
    v = rng.choice([0, 0, 4])
    cfg = dict(alg=ALGS[(i // 5) % 4], AN=AN, AD=AD, EN=EN, ED=ED, temp=0.0, q0kind="const",
               q0=[[v] * K for _ in range(N)], episodes=rng.randint(4, 8), seed=rng.randrange(10 ** 6),
               gseed=rng.randrange(10 ** 6), intq=rng.random() < 0.5)
    rep = dict(REPS[rng.randrange(len(REPS))])
    if rep["rep"] == "matrices" and not rep["explicit_list"] and not gen.ghost_closed(m):
        rep["explicit_list"] = True
    if i % 3 == 0:
        rep = dict(HASH_REPS[rng.randrange(len(HASH_REPS))])
    return {"m": m, "cfg": cfg, "rep": rep, "pert": pert}


def make_pre_instance(rng, m):
    """Reuse family: an MDP A over the same state / action labels as m (same N, K, PD, gamma) but with its own
    absorbing set and state-dependent action sets, on which the SAME learner object is trained first."""
    N = m["N"]
    for _ in range(50):
        n_abs = rng.choice([1, 1, 2]) if N > 2 else 1
        a = gen.rand_mdp(rng, n_na=N - n_abs, n_abs=n_abs, K=m["K"], PD=m["PD"], GN=m["GN"], GD=m["GD"],
                         rewards=(-2, -1, 0, 1, 2), ID=m["ID"], force_progress=True, init_on_abs=0.2)
        if a["abs"] != m["abs"] or a["avail"] != m["avail"]:
            return a
    return None


def make_case(rng, i):
    if i % 5 == 4:
        return make_near_tie_case(rng, i)
    if i % 14 == 8:
        return make_deep_negative_softmax_case(rng, i)
    c = make_regular_case(rng, i, force_soft=(i % 14 == 5))
    if i % 7 == 5:
        # scaled family: every real magnitude (rewards, initial values, softmax temperature) is the model's times
        # 10^scale_exp; the update rule is homogeneous, so the model is unchanged and observations are divided by it
        c["scale_exp"] = rng.choice([-7, -7, -3, 6])
        c["cfg"]["intq"] = False
    elif i % 7 == 3:
        # colliding-hash labels: distinct state / action labels with equal hash(); policy is queried at every state
        c["rep"] = dict(HASH_REPS[rng.randrange(len(HASH_REPS))])
    elif i % 7 == 2:
        # reuse family: same learner object trained twice - on another MDP over the same labels, or on the same MDP.
        # "pre": the judged run is the second call.  "post": the judged run is the FIRST call, but its q_values and
        # policy are only read after a later train_on of the same learner object on another MDP.
        other = make_pre_instance(rng, c["m"])
        if rng.random() < 0.45 and other is not None:
            c["post"] = other
        else:
            other = other if (rng.random() < 0.6 and other is not None) else c["m"]
            c["pre"] = other
        if c["rep"]["rep"] == "matrices" and not (gen.ghost_closed(other) and gen.ghost_closed(c["m"])):
            c["rep"]["explicit_list"] = True
    return c


def make_deep_negative_softmax_case(rng, i):
    """Expected SARSA, softmax temperature 1, all initial values -742, undiscounted, rewards in {0, 1}: every
    Q-value of a successor row that has not yet seen an absorbing transition satisfies Q / temp in [-742, -730],
    where exp(Q / temp) is subnormal (a few ulps) although the softmax itself is perfectly ordinary (gaps ~ 1).
    Rewards >= 0 keep every value >= -742, so msdm's own unshifted sampler never sees an all-zero weight row."""
    m = gen.rand_mdp(rng, n_na=rng.choice([2, 3, 3]), n_abs=1, K=2, PD=2, GN=1, GD=1, rewards=(0, 1, 1), ID=2,
                     force_progress=True, init_on_abs=0.0, uniform_actions=rng.random() < 0.7)
    AN, AD = rng.choice([(1, 2), (1, 4), (1, 1)])
    EN, ED = rng.choice([(0, 1), (1, 4), (1, 2)])
    cfg = dict(alg="ESARSA", AN=AN, AD=AD, EN=EN, ED=ED, temp=1.0, q0kind="const",
               q0=[[-2968] * m["K"] for _ in range(m["N"])], episodes=rng.randint(2, 5),
               seed=rng.randrange(10 ** 6), gseed=rng.randrange(10 ** 6), intq=rng.random() < 0.5)
    rep = dict(REPS[rng.randrange(len(REPS))])
    if rep["rep"] == "matrices" and not rep["explicit_list"] and not gen.ghost_closed(m):
        rep["explicit_list"] = True
    return {"m": m, "cfg": cfg, "rep": rep, "deepneg": 1}


def make_regular_case(rng, i, force_soft=False):
    f = FAMS[i % len(FAMS)]
    n_na = rng.choice([1, 2, 2, 3, 3, 4])
    n_abs = rng.choice([1, 1, 2])
    K = rng.choice([1, 2, 2, 3])
    m = gen.rand_mdp(rng, n_na=n_na, n_abs=n_abs, K=K, PD=f["PD"], GN=f["GN"], GD=f["GD"],
                     rewards=(-2, -1, 0, 1, 2), ID=rng.choice([2, 4]), force_progress=True,
                     init_on_abs=0.3)
    kind, q0 = make_q0(rng, m)
    AN, AD = rng.choice(ALPHAS)
    EN, ED = rng.choice(EPSS)
    cfg = dict(alg=ALGS[(i // len(FAMS)) % 4] if i % 3 else rng.choice(ALGS), AN=AN, AD=AD, EN=EN, ED=ED,
               temp=rng.choice(TEMPS), q0kind=kind, q0=q0, episodes=rng.randint(1, 5),
               seed=(None if rng.random() < 0.08 else rng.randrange(10 ** 6)), gseed=rng.randrange(10 ** 6),
               intq=rng.random() < 0.5)
    if force_soft:
        cfg["alg"] = "ESARSA"
    if cfg["alg"] == "ESARSA" and (force_soft or rng.random() < 0.45):
        # softmax configuration of expected SARSA: small temperatures x large exploration rates x rows with
        # distinct values (state-action dependent initial values, step size > 0)
        cfg["temp"] = rng.choice(SOFT_TEMPS[2:] if force_soft else SOFT_TEMPS)
        cfg["EN"], cfg["ED"] = rng.choice(SOFT_EPSS)
        if rng.random() < 0.7:
            cfg["q0kind"], cfg["q0"] = "table", [[rng.randint(-8, 8) for _ in range(K)] for _ in range(m["N"])]
        if cfg["AN"] == 0:
            cfg["AN"], cfg["AD"] = rng.choice([(1, 4), (1, 2), (1, 1)])
    # msdm's sampler computes exp(q / tau) directly: keep |q| / tau below the float range (a-priori bound on |q|)
    while cfg["temp"] > 0 and qbound(m, cfg) / cfg["temp"] > 600:
        cfg["temp"] = min(t for t in (0.05, 0.2, 0.5, 2.0, 8.0) if t > cfg["temp"])
    rep = dict(REPS[rng.randrange(len(REPS))])
    if rep["rep"] == "matrices" and not rep["explicit_list"] and not gen.ghost_closed(m):
        rep["explicit_list"] = True          # ghost successors outside the inferred list: C06's business
    return {"m": m, "cfg": cfg, "rep": rep}


def qbound(m, cfg):
    """A-priori bound on |Q| for a training of at most MAXSTEPS steps."""
    g = F(m["GN"], m["GD"])
    q0 = max(abs(x) for row in cfg["q0"] for x in row) / 4
    r = max([abs(x) for s in m["R"] for a in s for x in a] + [1])
    return float(max(q0, r / (1 - g)) if g < 1 else q0 + r * (MAXSTEPS + 1))


def magnitude_ok(case):
    """Keeps every product of the fixed-point machine inside 31 bits (else: skipped and counted)."""
    m, cfg = case["m"], case["cfg"]
    g = F(m["GN"], m["GD"])
    q0 = max(abs(x) for row in cfg["q0"] for x in row) / 4
    r = max([abs(x) for s in m["R"] for a in s for x in a] + [1])
    B = max(q0, r / (1 - g)) if g < 1 else q0 + r * (MAXSTEPS + 1)
    worst = B * SCALE * max(cfg["ED"] * m["K"], 3 * cfg["AN"] * m["GD"])
    return worst < 2 ** 30


# --------------------------------------------------------------------------------------------
# label family with colliding hashes (distinct labels, equal hash): CPython has hash(-1) == hash(-2)
# --------------------------------------------------------------------------------------------
HASH_REPS = [
    dict(rep="quick", labels="negint", alabels="negint", explicit_list=False, dist="dict", custom=True),
    dict(rep="quick", labels="negtuple", alabels="str", explicit_list=True, dist="dict", custom=True),
    dict(rep="quick", labels="negint", alabels="negtuple", explicit_list=True, dist="dict", custom=True),
]


def colliding_labels(kind, n, rng):
    """n distinct labels, the first two (after the shuffle: two random abstract indices) share their hash."""
    if kind == "negint":
        labs = [-(i + 1) for i in range(n)]                     # -1, -2, -3, ...   hash(-1) == hash(-2) == -2
    elif kind == "negtuple":
        labs = [(-(i + 1), 0) for i in range(n)]                # (-1, 0), (-2, 0): equal element hashes
    elif kind == "str":
        labs = [f"a{i}" for i in range(n)]
    else:
        raise ValueError(kind)
    if n >= 2:
        assert labs[0] != labs[1] and (kind == "str" or hash(labs[0]) == hash(labs[1]))
    rng.shuffle(labs)
    return labs


def build_any(m, rep, seed):
    """build.build_mdp for the shared representations; a QuickTabularMDP over colliding-hash labels otherwise."""
    rng = random.Random(seed)
    if not rep.get("custom"):
        return build.build_mdp(m, rng=rng, **rep)
    from msdm.core.distributions import DictDistribution
    from msdm.core.mdp import QuickTabularMDP
    N, K = m["N"], m["K"]
    sl = colliding_labels(rep["labels"], N, rng)
    al = colliding_labels(rep["alabels"], K, rng)
    sidx = {l: i for i, l in enumerate(sl)}
    aidx = {l: i for i, l in enumerate(al)}
    mdp = QuickTabularMDP(
        next_state_dist=lambda s, a: DictDistribution({sl[t]: m["P"][sidx[s]][aidx[a]][t] / m["PD"]
                                                       for t in range(N) if m["P"][sidx[s]][aidx[a]][t] > 0}),
        reward=lambda s, a, ns: float(m["R"][sidx[s]][aidx[a]][sidx[ns]]),
        actions=lambda s: tuple(al[a] for a in range(K) if m["avail"][sidx[s]][a]),
        initial_state_dist=lambda: DictDistribution({sl[t]: m["p0"][t] / m["ID"] for t in range(N) if m["p0"][t] > 0}),
        is_absorbing=lambda s: bool(m["abs"][sidx[s]]),
        discount_rate=float(F(m["GN"], m["GD"])))
    if rep["explicit_list"]:
        mdp._state_list = list(sl)
        mdp._action_list = list(al)
    return build.Built(mdp=mdp, m=m, slabel=sl, alabel=al, rep="quick", explicit_list=rep["explicit_list"])


# --------------------------------------------------------------------------------------------
# running the real learners and projecting what they did
# --------------------------------------------------------------------------------------------
class _Stop(Exception):
    pass


class _BadCall(Exception):
    """msdm called the configured initial_q with something else than (state, action)."""


def quant(x):
    try:
        v = round(float(x) * SCALE)
    except (OverflowError, ValueError, TypeError):
        return CLAMP
    return max(-CLAMP, min(CLAMP, v))


def run_real(case, max_steps=MAXSTEPS):
    """Trains the configured learner on the built MDP; returns the projected trace record (batch entry)."""
    from msdm.algorithms import tdlearning as td
    m, cfg, rep = case["m"], case["cfg"], case["rep"]
    N, K = m["N"], m["K"]
    b = build_any(m, rep, digest(case["m"]))
    if case.get("pert"):
        # near-tie family: the real MDP pays R + d * 2^-40; the model keeps the integer R (spec: "perturbed rewards")
        pert, base_reward = case["pert"], b.mdp.reward

        def reward(s, a, ns):
            return base_reward(s, a, ns) + pert[b.slabel.index(s)][b.alabel.index(a)][b.slabel.index(ns)] * PERT
        b.mdp.reward = reward
    sigma = 10.0 ** case["scale_exp"] if case.get("scale_exp") else 1.0
    if sigma != 1.0:
        base_reward_s = b.mdp.reward
        b.mdp.reward = lambda s, a, ns: base_reward_s(s, a, ns) * sigma

    def qz(x):
        """real magnitude -> model units (scaled family: divided by the scale factor first)"""
        try:
            return quant(x if sigma == 1.0 else float(x) / sigma)
        except (TypeError, ValueError):
            return CLAMP
    pre = None
    if case.get("pre"):
        # same labels (same label rng), other absorbing set / action sets; rewards scaled alike
        pre = build_any(case["pre"], rep, digest(case["m"]))
        assert pre.slabel == b.slabel and pre.alabel == b.alabel

    def sidx(lab):
        try:
            return b.slabel.index(lab) + 1
        except ValueError:
            return 0

    def aidx(lab):
        try:
            return b.alabel.index(lab) + 1
        except ValueError:
            return 0

    q0 = cfg["q0"]
    consts = {x for row in q0 for x in row}
    if cfg["q0kind"] == "const" and len(consts) == 1:
        v = next(iter(consts))
        initial_q = (v // 4) if (cfg["intq"] and v % 4 == 0 and sigma == 1.0) else v / 4 * sigma
    else:
        def initial_q(s, a):
            try:
                return q0[b.slabel.index(s)][b.alabel.index(a)] / 4 * sigma
            except ValueError:
                raise _BadCall(f"initial_q called with ({s!r}, {a!r})") from None
    st = {"instances": []}         # listener instances msdm created, in order; the one that stopped a training
    alg = cfg["alg"]
    soft = alg == "ESARSA" and cfg["temp"] != 0

    def soft_weights(table, ns, snap):
        """Softmax weights of the row table[ns] *before* this update (snapshot taken after the previous update, or
        the lazy default), computed here with math.exp - independent of msdm's SoftmaxDistribution.
        Returns (hw, wh, wl): weights in units of 1/2^20 split as wh * 2^10 + wl, per abstract action."""
        row = snap.get(ns)
        if row is None and hasattr(table, "defaultvalue"):
            row = table.defaultvalue(ns)      # not yet there after the previous update: read as the lazy default
        wh, wl = [0] * K, [0] * K
        if row is None or not all(aidx(a) for a in row):
            return 0, wh, wl
        mx = max(row.values())
        ex = {a: math.exp((v - mx) / (cfg["temp"] * sigma)) for a, v in row.items()}
        z = sum(ex.values())
        for a, x in ex.items():
            v = round(x / z * WU)
            wh[aidx(a) - 1], wl[aidx(a) - 1] = v >> 10, v & 1023
        return 1, wh, wl

    def entry(table, s, a):
        """(value, observed) of table[s][a] as msdm would read it, without materialising a row of the lazy table."""
        row = dict.get(table, s)
        if row is None and hasattr(table, "defaultvalue"):
            row = table.defaultvalue(s)   # what q[s] would return; nothing is stored
        if row is None or a not in row:
            return 0, 0
        return qz(row[a]), 1

    class Recorder(td.TDLearningEventListener):
        """Keeps the experience on the listener INSTANCE and reports it through results(), the way the library's
        own EpisodeRewardEventListener does: the trace that is judged is `result.event_listener_results`, i.e. the
        experience msdm reports together with the returned Q-table."""
        def __init__(self):
            self.events = []
            self.new = True
            self.steps = 0
            self.snap = {}
            st["instances"].append(self)

        def end_of_timestep(self, lv):
            try:
                self._step(lv)
            except _Stop:
                st["stopped"] = self
                raise
            except Exception as e:                          # noqa: BLE001 - the recorder failed, not msdm
                st["recorder_error"] = f"{type(e).__name__}: {e}"
                st["stopped"] = self
                raise _Stop()

        def _step(self, lv):
            s, a, ns = lv["s"], lv["a"], lv["ns"]
            events = self.events
            if self.new:
                events.append({"k": "start", "s": sidx(s), "a": 0, "r": 0, "ns": 0, "na": 0, "q": 0, "q2": 0, "h1": 0, "h2": 0})
                self.new = False
            if alg == "DQ":
                (q, h1), (q2, h2) = entry(lv["q1"], s, a), entry(lv["q2"], s, a)
            else:
                (q, h1), (q2, h2) = entry(lv["q"], s, a), (0, 0)
            events.append({"k": "step", "s": sidx(s), "a": aidx(a), "r": qz(lv["r"]), "ns": sidx(ns),
                           "na": aidx(lv["na"]) if alg == "SARSA" else 0, "q": q, "q2": q2, "h1": h1, "h2": h2})
            if soft:
                hw, wh, wl = soft_weights(lv["q"], ns, self.snap)
                events[-1].update(hw=hw, wh=wh, wl=wl)
                self.snap = {k: dict(v) for k, v in dict.items(lv["q"])}
            self.steps += 1
            if self.steps >= max_steps:
                raise _Stop()

        def end_of_episode(self, lv):
            if "s" not in lv:
                st["recorder_error"] = "end_of_episode locals have no 's'"
                st["stopped"] = self
                raise _Stop()
            s = sidx(lv["s"])
            if self.new:
                self.events.append({"k": "start", "s": s, "a": 0, "r": 0, "ns": 0, "na": 0, "q": 0, "q2": 0, "h1": 0, "h2": 0})
            self.events.append({"k": "end", "s": s, "a": 0, "r": 0, "ns": 0, "na": 0, "q": 0, "q2": 0, "h1": 0, "h2": 0})
            self.new = True

        def results(self):
            return self.events

    Learner = getattr(td, ALG_CLASS[alg])
    if cfg["seed"] is None:
        random.seed(cfg["gseed"])
    learner = Learner(episodes=cfg["episodes"], step_size=cfg["AN"] / cfg["AD"], rand_choose=cfg["EN"] / cfg["ED"],
                      softmax_temp=cfg["temp"] * sigma if sigma != 1.0 else cfg["temp"], initial_q=initial_q,
                      seed=cfg["seed"], event_listener_class=Recorder)
    rec = {k: m[k] for k in INST_KEYS}
    rec.update(alg=alg, AN=cfg["AN"], AD=cfg["AD"], EN=cfg["EN"], ED=cfg["ED"], temp0=1 if cfg["temp"] == 0 else 0,
               q0=q0, episodes=cfg["episodes"], seedbug=0, depth=0)
    zero = [[0] * K for _ in range(N)]
    rec.update(ev=[], truncated=0, rhas=[0] * N, rhasa=[list(r) for r in zero], rval=[list(r) for r in zero],
               rank=[list(r) for r in zero], pol=[list(r) for r in zero], polq=[0] * N, extra_rows=0,
               subres=0, pert=1 if case.get("pert") else 0, scale_exp=case.get("scale_exp", 0),
               call=2 if pre is not None else 1)
    if pre is not None:
        # reuse family: the SAME learner object is first trained on MDP A; only the second call is judged here
        # (first calls are what every other run is)
        if sigma != 1.0:
            base_reward_p = pre.mdp.reward
            pre.mdp.reward = lambda s, a, ns: base_reward_p(s, a, ns) * sigma
        try:
            learner.train_on(pre.mdp)
        except _Stop:
            if "recorder_error" in st:
                raise RuntimeError("C10 recorder could not read the listener's local variables: " + st["recorder_error"])
        except Exception as e:                              # noqa: BLE001
            return {"error": f"{type(e).__name__}: {e}"[:300], "call": 1}
        st.pop("stopped", None)        # nothing else is reset: a fresh listener per train_on call is msdm's job
    try:
        res = learner.train_on(b.mdp)
    except _Stop:
        if "recorder_error" in st:     # the observation point moved (locals renamed ...): machinery, not a verdict
            raise RuntimeError("C10 recorder could not read the listener's local variables: " + st["recorder_error"])
        rec["truncated"] = 1
        rec["ev"] = list(st["stopped"].events)
        return rec
    except Exception as e:                                  # noqa: BLE001 - reported as a clause failure
        return {"error": f"{type(e).__name__}: {e}"[:300], "call": 2 if pre is not None else 1}
    # ---- the experience msdm reports with this result
    if not isinstance(res.event_listener_results, list):
        raise RuntimeError("C10: result.event_listener_results is not what the listener's results() returned")
    rec["ev"] = list(res.event_listener_results)
    if case.get("post"):
        # "post" reuse: the same learner object is trained again on another MDP over the same labels BEFORE the first
        # result's q_values and policy are read; the first result must still be the first run's
        post = build_any(case["post"], rep, digest(case["m"]))
        assert post.slabel == b.slabel and post.alabel == b.alabel
        if sigma != 1.0:
            base_reward_q = post.mdp.reward
            post.mdp.reward = lambda s, a, ns: base_reward_q(s, a, ns) * sigma
        rec["post"] = 1
        try:
            learner.train_on(post.mdp)
        except _Stop:
            if "recorder_error" in st:
                raise RuntimeError("C10 recorder could not read the listener's local variables: " + st["recorder_error"])
        except Exception as e:                              # noqa: BLE001
            return {"error": f"{type(e).__name__}: {e}"[:300], "call": 2}
        rec["ev"] = list(res.event_listener_results)       # re-read: still the first run's experience
    # ---- returned table, read BEFORE the policy is queried (querying materialises rows of the lazy table)
    for s_lab, row in list(dict.items(res.q_values)):
        s = sidx(s_lab)
        if s == 0:
            rec["extra_rows"] += 1
            continue
        rec["rhas"][s - 1] = 1
        vals = {}
        for a_lab, v in dict(row).items():
            a = aidx(a_lab)
            if a == 0:
                rec["extra_rows"] += 1
                continue
            rec["rhasa"][s - 1][a - 1] = 1
            rec["rval"][s - 1][a - 1] = qz(v)
            vals[a] = float(v)
        order = sorted(set(vals.values()))              # dense ranks by exact float comparison (the code uses ==)
        for a, v in vals.items():
            rec["rank"][s - 1][a - 1] = order.index(v) + 1
        if len(order) > len({qz(v) for v in order}):
            rec["subres"] += 1                          # distinct floats that coincide at the resolution 1/65536
    # ---- returned policy
    listed = gen.reach(m)
    for s in range(N):
        if rep["rep"] == "matrices" and s not in listed:
            continue
        try:
            d = res.policy.action_dist(b.slabel[s])
        except Exception as e:                              # noqa: BLE001 - the returned policy is undefined at a state
            rec.setdefault("polerr", []).append([s, f"{type(e).__name__}: {e}"[:200]])
            continue
        rec["polq"][s] = 1
        for a_lab in d.support:
            a = aidx(a_lab)
            if a == 0:
                rec["extra_rows"] += 1
                continue
            rec["pol"][s][a - 1] = round(float(d.prob(a_lab)) * PUNIT)
    return rec


# --------------------------------------------------------------------------------------------
# independent exact fold (cross-check of the TLA+ fold only; never a verdict)
# --------------------------------------------------------------------------------------------
def fraction_fold(rec):
    """Folds the published rule over the recorded steps with exact Fractions. Returns (q1, q2)."""
    N, K = rec["N"], rec["K"]
    al, g, eps = F(rec["AN"], rec["AD"]), F(rec["GN"], rec["GD"]), F(rec["EN"], rec["ED"])
    av = [[a for a in range(K) if rec["avail"][s][a]] for s in range(N)]

    def init():
        return [[(F(0) if rec["abs"][s] or not rec["avail"][s][a] else F(rec["q0"][s][a], 4)) for a in range(K)]
                for s in range(N)]
    q1, q2 = init(), init()
    for e in rec["ev"]:
        if e["k"] != "step":
            continue
        s, a, ns, na = e["s"] - 1, e["a"] - 1, e["ns"] - 1, e["na"] - 1
        r = F(rec["R"][s][a][ns])
        alg = rec["alg"]
        if alg == "Q":
            q1[s][a] += al * (r + g * max(q1[ns][x] for x in av[ns]) - q1[s][a])
        elif alg == "SARSA":
            q1[s][a] += al * (r + g * q1[ns][na] - q1[s][a])
        elif alg == "ESARSA":
            mx = max(q1[ns][x] for x in av[ns])
            best = [x for x in av[ns] if q1[ns][x] == mx]
            pi = {x: eps / len(av[ns]) + ((1 - eps) / len(best) if x in best else 0) for x in av[ns]}
            q1[s][a] += al * (r + g * sum(pi[x] * q1[ns][x] for x in av[ns]) - q1[s][a])
        else:
            # double Q: the coin and the tie-break are not observable; take the choice closest to the log
            cands = []
            for w, (qa, qb) in ((1, (q1, q2)), (2, (q2, q1))):
                mx = max(qa[ns][x] for x in av[ns])
                for c in av[ns]:
                    if mx - qa[ns][c] <= F(1, 10 ** 9):
                        new = qa[s][a] + al * (r + g * qb[ns][c] - qa[s][a])
                        (lw, hw), (lo, ho) = ((e["q"], e["h1"]), (e["q2"], e["h2"])) if w == 1 else \
                                             ((e["q2"], e["h2"]), (e["q"], e["h1"]))
                        if not hw:
                            continue
                        cands.append((abs(new * SCALE - lw) + (abs(qb[s][a] * SCALE - lo) if ho else 0), w, new))
            _, w, new = min(cands, key=lambda t: (t[0], t[1]))
            (q1 if w == 1 else q2)[s][a] = new
    return q1, q2


def bounds_fraction(rec, n):
    g = F(rec["GN"], rec["GD"])
    q0s = [F(0)] + [F(rec["q0"][s][a], 4) for s in range(rec["N"]) for a in range(rec["K"])
                    if not rec["abs"][s] and rec["avail"][s][a]]
    rs = [0] + [rec["R"][s][a][t] for s in range(rec["N"]) if not rec["abs"][s] for a in range(rec["K"])
                if rec["avail"][s][a] for t in range(rec["N"]) if rec["P"][s][a][t] > 0]
    if g < 1:
        return min(min(q0s), min(rs) / (1 - g)), max(max(q0s), max(rs) / (1 - g))
    return min(q0s) + n * min(rs), max(q0s) + n * max(rs)


# --------------------------------------------------------------------------------------------
# judging a batch of recorded runs with TLC
# --------------------------------------------------------------------------------------------
def signature(alg, clause):
    cls = ALG_CLASS[alg]
    if clause == "policy-unvisited-state-is-argmax-of-initial-q":
        return f"C10:TemporalDifferenceLearning._create_policy:{clause}"
    if clause.startswith(POLICY_CLAUSES):
        return f"C10:{cls}._create_policy:{clause}"
    if clause.startswith(TABLE_CLAUSES):
        return f"C10:{cls}.train_on:{clause}"
    return f"C10:{cls}._training:{clause}"


def pick(recs):
    """The most favourable explanation TLC found for one trace (branches: mode, double-Q choices)."""
    # the defect model wins ties: when it explains a trace its only failure is the defect's own marker
    return sorted(recs, key=lambda r: (r["phase"] != "done", len(r["fails"]), r["mode"] != "seedbug", -r["l"]))[0]


def judge(ctx, cases, recs):
    """cases[i] -> recs[i] (projected run or {"error":..}). Runs TLC in trace mode and maps its verdicts."""
    batch, owner = [], []
    for i, (c, r) in enumerate(zip(cases, recs)):
        if "error" in r:
            shape = "/call-on-reused-learner" if c.get("pre") else ""
            ctx.violation(f"C10:{ALG_CLASS[c['cfg']['alg']]}.train_on:raised-{r['error'].split(':')[0]}{shape}",
                          f"training (call {r.get('call', 1)} of the learner object) raised {r['error']}", {"case": c})
            continue
        batch.append(r)
        owner.append(i)
    if not batch:
        return
    res = run_tlc(ctx.workdir / "trace", MODULE, CFG_TRACE, files={"batch.json": batch},
                  env={"BATCH_FILE": "batch.json", "MODE": "trace"}, coverage=(ctx.tier == "thorough"))
    ctx.add_tlc(res, "trace: recorded experience of the real learners validated event by event")
    bad = [v for v in res.violated if v in DESIGN_INVS]
    if bad:
        raise TLCFailure(f"design-level invariant violated in {MODULE} (trace mode): {sorted(set(bad))}\n"
                         + (res.traces[0][:3000] if res.traces else ""))
    by = {}
    for r in res.records:
        by.setdefault(r["tid"], []).append(r)
    for t, (i, rec) in enumerate(zip(owner, batch), start=1):
        c = cases[i]
        alg = rec["alg"]
        if t not in by:
            raise TLCFailure(f"no verdict for trace {t}: the trace machine is not total")
        v = pick(by[t])
        nsteps = sum(1 for e in rec["ev"] if e["k"] == "step")
        loose = alg == "ESARSA" and not rec["temp0"]
        if loose:
            steps = [e for e in rec["ev"] if e["k"] == "step"]
            ctx.count("softmax_runs")
            ctx.count("softmax_steps_with_logged_weights", sum(1 for e in steps if e.get("hw")))
            ctx.count("softmax_steps_interval_only", sum(1 for e in steps if not e.get("hw")))
        if rec["truncated"]:
            ctx.skip("training longer than %d steps: prefix validated, final table/policy not judged" % MAXSTEPS)
        # machinery cross-check: TLC's fold against exact Fractions
        if v["phase"] == "done" and v["mode"] == "spec" and not loose and t % 4 == 0:
            crosscheck(ctx, rec, v, nsteps)
        for f in sorted(v["fails"], key=lambda f: (f["pos"], f["c"], f["s"], f["a"])):
            what = (f"{ALG_CLASS[alg]}: {f['c']} at event {f['pos']} state {f['s'] - 1} action {f['a'] - 1}: "
                    f"expected {f['exp'] / SCALE:.6f} got {f['got'] / SCALE:.6f} (units 1/{SCALE}: {f['exp']} vs {f['got']})")
            if f["c"].startswith("sarsa-absorbing-initial"):
                what = (f"SARSA: episode {f['pos']} (event index) starts in absorbing state {f['s'] - 1}; its Q-row is "
                        f"created from initial_q (e.g. {f['got'] / SCALE}) instead of being fixed at 0 - the trace is "
                        f"explained only by the model of that defect (mode seedbug of C10_TD)")
            if f["c"] == "policy-not-uniform":
                what = (f"{ALG_CLASS[alg]}: returned policy at state {f['s'] - 1} is not uniform over its support "
                        f"(weights in 1/{PUNIT}: {rec['pol'][f['s'] - 1]})")
            elif f["c"].startswith("policy-"):
                what = (f"{ALG_CLASS[alg]}: {f['c']} at state {f['s'] - 1}: policy support has {f['got']} actions, "
                        f"statement requires {f['exp']}")
            sig = signature(alg, f["c"])
            if rec.get("call") == 2:
                sig += "/second-call-of-reused-learner"
                what += " [second train_on call of one learner object, first call on an MDP with the same labels]"
            if rec.get("post"):
                sig += "/first-result-read-after-later-train_on"
                what += " [result of the first train_on call, read after the same learner object was trained again]"
            ctx.violation(sig, what, {"case": c, "clause": f["c"], "tlc": f})
        for s_, msg in rec.get("polerr", [])[:1]:
            sig = f"C10:{ALG_CLASS[alg]}._create_policy:policy-query-raised-{msg.split(':')[0]}"
            sig += "/second-call-of-reused-learner" if rec.get("call") == 2 else ""
            sig += "/first-result-read-after-later-train_on" if rec.get("post") else ""
            ctx.violation(sig, f"{ALG_CLASS[alg]}: the returned policy raised at state {s_} of the trained MDP: {msg}",
                          {"case": c, "clause": "policy-query-raised"})
        for fl in sorted(v["flags"]):
            ctx.drift(fl, {"alg": alg, "case": digest(c)})
        if rec.get("extra_rows"):
            ctx.drift("q_values/policy mention labels outside the MDP", {"alg": alg, "case": digest(c)})
        if v["phase"] == "done" and not v["fails"] and not rec.get("polerr"):
            ctx.validated += 1
            boot = any(e["k"] == "step" and not rec["abs"][e["ns"] - 1] for e in rec["ev"])
            if nsteps >= 3 and boot and rec["AN"] > 0:
                ctx.nontrivial(digest([c["m"], c["cfg"]]))
        ctx.count(f"runs_{alg}")
        if rec.get("pert"):
            ctx.count("near_tie_family_runs")
        if c["rep"].get("custom"):
            ctx.count("runs_with_colliding_hash_labels")
        if rec.get("call") == 2:
            ctx.count("reused_learner_second_calls")
        if rec.get("post"):
            ctx.count("first_results_read_after_later_training")
        if c.get("deepneg"):
            ctx.count("softmax_runs_with_subnormal_unshifted_weights")
        if rec.get("scale_exp"):
            ctx.count("scaled_family_runs")
            if loose and rec["scale_exp"] == -7:
                ctx.count("softmax_runs_with_temperature_below_1e-6")
        ctx.count("returned_rows_with_gap_below_resolution", rec.get("subres", 0))
        ctx.count("events", len(rec["ev"]))
        if any(e["k"] == "start" and rec["abs"][e["s"] - 1] for e in rec["ev"] if e["s"] > 0):
            ctx.count("runs_with_absorbing_initial_state")
        ctx.sample({"instance": {k: rec[k] for k in INST_KEYS},
                    "config": {k: c["cfg"][k] for k in ("alg", "AN", "AD", "EN", "ED", "temp", "q0kind", "episodes", "seed")},
                    "rep": c["rep"], "events": rec["ev"][:6], "n_events": len(rec["ev"]),
                    "verdict": {"phase": v["phase"], "mode": v["mode"], "fails": len(v["fails"])}})


def crosscheck(ctx, rec, v, nsteps):
    q1, q2 = fraction_fold(rec)
    err = (2 if rec["alg"] == "ESARSA" else 1) * nsteps + 2
    for s in range(rec["N"]):
        for a in range(rec["K"]):
            for mine, theirs in ((q1, v["q1"]), (q2, v["q2"])):
                if abs(mine[s][a] * SCALE - theirs[s][a]) > err:
                    raise TLCFailure(f"TLA+ fold and the independent Fraction fold disagree at ({s},{a}): "
                                     f"{float(mine[s][a])} vs {theirs[s][a] / SCALE} ({rec['alg']})")
    lo, hi = bounds_fraction(rec, v["nupd"])
    b = v["bounds"]
    if F(b[0], b[2]) != lo * SCALE or F(b[1], b[2]) != hi * SCALE:
        raise TLCFailure(f"TLA+ bounds {b} and Fraction bounds {lo},{hi} disagree")
    ctx.count("fold_crosschecks")


def safe_run(case):
    return run_real(case)       # only exceptions raised by train_on itself become verdicts (inside run_real)


# --------------------------------------------------------------------------------------------
# MC: all experience histories of small instances
# --------------------------------------------------------------------------------------------
def mc_batch(rng, n, depth, seedbug=False):
    out = []
    while len(out) < n:
        i = len(out)
        GN, GD = [(1, 2), (1, 1)][i % 2]
        m = gen.rand_mdp(rng, n_na=rng.choice([1, 2, 2]), n_abs=1, K=rng.choice([1, 2, 2]), PD=2, GN=GN, GD=GD,
                         rewards=(-1, 0, 1, 2), ID=2, force_progress=True, init_on_abs=0.3)
        N, K = m["N"], m["K"]
        alg = "SARSA" if seedbug else ALGS[(i // 2) % 4]
        if seedbug and not any(m["p0"][s] and m["abs"][s] for s in range(N)):
            continue
        kind = (i // 8) % 2
        q0 = [[4] * K for _ in range(N)] if kind == 0 and not seedbug else \
             [[rng.choice([-4, 0, 4, 8]) for _ in range(K)] for _ in range(N)]
        AN, AD = [(1, 2), (1, 1), (0, 1), (1, 2)][(i // 16) % 4] if not seedbug else (1, 2)
        EN, ED = rng.choice([(0, 1), (1, 2)])
        rec = {k: m[k] for k in INST_KEYS}
        rec.update(alg=alg, AN=AN, AD=AD, EN=EN, ED=ED, temp0=1, q0=q0, episodes=0, seedbug=1 if seedbug else 0,
                   depth=depth, ev=[], truncated=0)
        out.append(rec)
    return out


def run_mc(ctx, rng, n, depth):
    batch = mc_batch(rng, n, depth)
    res = run_tlc(ctx.workdir / "mc", MODULE, CFG_MC, files={"batch.json": batch},
                  env={"BATCH_FILE": "batch.json", "MODE": "mc"}, coverage=(ctx.tier == "thorough"))
    ctx.add_tlc(res, f"mc: all experience histories to depth {depth} of {n} (instance, learner, alpha, gamma, q0) "
                     f"combinations; AbsorbingZero, UnvisitedInitial, UnavailableUntouched, Bounded, InstancesOK")
    if res.violated:
        raise TLCFailure(f"design-level invariant violated in {MODULE} (mc mode): {sorted(set(res.violated))}\n"
                         + (res.traces[0][:3000] if res.traces else ""))
    ctx.count("mc_instances", n)
    ctx.count("mc_instances_with_inexact_cut", len({r["tid"] for r in res.records if r.get("cut")}))
    ctx.extra["mc_depth"] = depth


def run_mcbug(ctx, rng):
    """Model-level reproduction of the SARSA seeding defect: in mode "seedbug" the machine violates the
    unguarded AbsorbingZero claim, in mode "spec" it never does."""
    batch = mc_batch(rng, 6, 4, seedbug=True)
    res = run_tlc(ctx.workdir / "mcbug", MODULE, CFG_MCBUG, files={"batch.json": batch},
                  env={"BATCH_FILE": "batch.json", "MODE": "mc"})
    ctx.add_tlc(res, "mc: model of the SARSA absorbing-initial-state seeding defect")
    ctx.count("seedbug_model_violates_AbsorbingZero", 1 if "AbsorbingZeroAnyMode" in res.violated else 0)
    return "AbsorbingZeroAnyMode" in res.violated


# --------------------------------------------------------------------------------------------
def run(ctx):
    rng = random.Random(ctx.seed * 7919 + 10)
    quick = ctx.tier == "quick"
    ctx.rule = ("B: random proper MDPs (1-4 non-absorbing + 1-2 explicitly absorbing states with ghost dynamics, 1-3 "
                "state-dependent actions, gamma in {1/2,3/4,9/10,1}, PD in {2,4}, 30% with initial mass on an absorbing "
                "state) x 4 learners x step size {0,.1,.25,.5,.75,1} x rand_choose {0,.1,.25,.5,1} x softmax_temp "
                "{0,.5,2; expected SARSA also .02,.05,.2} x initial_q {int, float, callable table, callable by action} x episodes 1-5 x seed (incl. None) "
                "x 7 representations + 3 with colliding-hash labels (states / actions -1, -2, .. or (-1,0), (-2,0), ..: distinct, "
                "equal hash(); every 7th run and a third of the near-tie runs; policy queried at every state); every 5th run from the near-tie family (model rewards all equal, real rewards R + d*2^-40, step "
                "size 1 or 1/2, rand_choose 1/2 or 1, 4-8 episodes) whose returned rows hold distinct floats closer than 1e-9 "
                "relative: the policy clause is decided on exact float ranks; every 7th run scaled by 1e-7 / 1e-3 / 1e6 "
                "(half of them expected SARSA with softmax temperature, real temperatures down to 5e-9); every 7th run is the "
                "second train_on call of a learner object first trained on another MDP over the same labels; non-trivial = accepted trace with >= 3 updates, step size > 0, at least one "
                "bootstrap from a non-absorbing next state")
    ctx.assumptions = [
        "the event listener's locals() and the returned q_values/policy are what the learner computed with",
        "floats are compared in fixed point, unit 1/65536, tolerance n+2 units after n updates (2n+3 for expected "
        "SARSA): one floor rounding per update and the update is a sup-norm non-expansion for step sizes in [0,1]",
        "TLC evaluates the fold correctly (cross-checked against an independent Fraction fold on every 4th accepted trace)",
        "expected SARSA with softmax_temp > 0: TLC decides the interval mean <= target <= eps*mean+(1-eps)*max, the "
        "normalisation and order-consistency of the softmax weights and the weighted rule; TRUSTED PYTHON: the weights "
        "themselves, exp((q-max)/tau)/Z computed by the recorder (math.exp) from the row the real table held before the "
        "update (not taken from msdm's SoftmaxDistribution); written entries are resynchronised with the logged ones",
        "near-tie family: the model folds the unperturbed integer reward; the real fold differs by at most n*2^-40 "
        "(= n*2^-24 units, < 1e-5 units for n <= 120) after n updates, absorbed by the 1/2 unit of slack every tolerance "
        "has over its derived need; policy supports are compared with exact float ranks, no tolerance",
        "scaled family (scale_exp): rewards, initial values and softmax temperature handed to msdm are the model's times "
        "10^scale_exp (1e-7, 1e-3, 1e6); the TD rule is positively homogeneous and softmax(Q/tau) is scale invariant, so "
        "the model is unchanged and every observed value is divided by the factor before quantisation (float error 1e-16 "
        "relative, far below the 1/2 unit of slack)",
        "reuse family (call = 2): one learner object is trained on MDP A (same labels, other absorbing set / action "
        "sets; or the very same MDP) and then on MDP B; the second call is judged against B exactly like a first call - "
        "the statement has no freshness precondition on the learner",
        "post reuse (post = 1): the first result's experience, q_values and policy are read only after the same learner "
        "object was trained again on another MDP over the same labels; they must still describe the first run",
        "deep-negative softmax family: expected SARSA, temperature 1, initial values -742, gamma 1, rewards in {0,1}: "
        "Q/temp in [-742,-730] where exp(Q/temp) is subnormal; the recorder's weights are max-shifted (exact to 1e-16)",
        "the experience that is judged is result.event_listener_results (what msdm reports with the returned Q-table), "
        "produced by a listener that keeps its state on the instance like the library's EpisodeRewardEventListener",
        "boundedness interval includes 0 (the fixed value of absorbing states); undiscounted: after n updates "
        "[min q0 + n min(r,0), max q0 + n max(r,0)]",
    ]
    run_mc(ctx, rng, 48 if quick else 192, 8 if quick else 9)
    if not quick:
        if not run_mcbug(ctx, rng):
            raise TLCFailure("the seedbug model does not reproduce the defect it is meant to model")
    n = 1600 if quick else 16000
    cases = []
    i = 0
    while len(cases) < n:
        c = make_case(rng, i)
        i += 1
        if not magnitude_ok(c):
            ctx.skip("magnitude guard (fixed-point products would leave 31 bits)")
            continue
        cases.append(c)
    chunk = 1600
    for k in range(0, len(cases), chunk):
        part = cases[k:k + chunk]
        recs = [safe_run(c) for c in part]
        ctx.evaluations += len(part) + sum(1 for c in part if c.get("pre") or c.get("post"))     # reuse family: two trainings
        judge(ctx, part, recs)


def replay(ctx, case):
    c = case["case"]
    recs = [safe_run(c)]
    ctx.evaluations += 1
    judge(ctx, [c], recs)


def selftest(ctx):
    """Binding demonstration (pipeline B): corrupt one logged Q entry, drop one event, corrupt one returned
    table entry, corrupt the returned policy -> each must be reported; the uncorrupted batch must not report
    anything beyond what the unchanged tree shows."""
    rng = random.Random(11)
    cases = []
    i = 0
    while len(cases) < 40:
        c = make_case(rng, i)
        i += 1
        c["cfg"]["q0kind"], c["cfg"]["q0"] = "const", [[0] * c["m"]["K"] for _ in range(c["m"]["N"])]
        c["cfg"]["temp"] = 0.0
        if c["cfg"]["AN"] == 0:
            c["cfg"]["AN"], c["cfg"]["AD"] = 1, 2
        if magnitude_ok(c):
            cases.append(c)
    recs = [safe_run(c) for c in cases]
    ctx.evaluations += len(cases)
    base = len(ctx.violations)
    judge(ctx, cases, recs)
    clean = len(ctx.violations) == base
    ok = clean
    print(f"  (selftest) uncorrupted batch: {'no report' if clean else 'UNEXPECTED report'}")
    import copy

    def expect(name, mutate):
        nonlocal ok
        rr = copy.deepcopy(recs)
        tgt = next(j for j, r in enumerate(rr) if "error" not in r and not r["truncated"]
                   and sum(1 for e in r["ev"] if e["k"] == "step") >= 3)
        mutate(rr[tgt])
        before = len(ctx.violations)
        judge(ctx, [cases[tgt]], [rr[tgt]])
        hit = len(ctx.violations) > before
        print(f"  (selftest) {name}: {'detected' if hit else 'MISSED'}")
        ok = ok and hit

    def corrupt_q(r):
        e = [e for e in r["ev"] if e["k"] == "step"][1]
        e["q"] += 400                                   # 0.006

    def drop_event(r):
        idx = [j for j, e in enumerate(r["ev"]) if e["k"] == "step"][0]
        del r["ev"][idx]

    def corrupt_table(r):
        s = next(s for s in range(r["N"]) if r["rhas"][s] and not r["abs"][s])
        a = r["rhasa"][s].index(1)
        r["rval"][s][a] += 700

    def corrupt_policy(r):
        s = next(s for s in range(r["N"]) if r["polq"][s] and sum(1 for x in r["pol"][s] if x) >= 1
                 and sum(r["avail"][s]) >= 2)
        a = next(a for a in range(r["K"]) if r["avail"][s][a] and not r["pol"][s][a]) if any(
            r["avail"][s][a] and not r["pol"][s][a] for a in range(r["K"])) else None
        if a is None:                                  # all actions in the support: remove one
            a = r["pol"][s].index(max(r["pol"][s]))
            r["pol"][s][a] = 0
        else:
            r["pol"][s][a] = r["pol"][s][[x > 0 for x in r["pol"][s]].index(True)]

    def wrong_reward(r):
        e = [e for e in r["ev"] if e["k"] == "step"][0]
        e["r"] += SCALE

    expect("one logged Q entry off by 0.006", corrupt_q)
    expect("one experience event dropped", drop_event)
    expect("one returned q_values entry off by 0.011", corrupt_table)
    expect("returned policy support changed", corrupt_policy)
    expect("logged reward differs from the MDP's", wrong_reward)
    return ok
